// Command extract regenerates lean/Generated/Facts.lean and facts.json from
// the Go sources of /repo (package mqtt). Only go/parser, go/types and
// go/constant are used: constants are evaluated by the type checker, tables
// and small syntactic facts are read off the AST. A fact that can no longer
// be located is reported as missing (the check then treats the correspondence
// as broken; it is not by itself a violation).
package main

import (
	"encoding/json"
	"fmt"
	"go/ast"
	"go/constant"
	"go/importer"
	"go/parser"
	"go/printer"
	"go/token"
	"go/types"
	"os"
	"path/filepath"
	"sort"
	"strings"
)

type facts struct {
	Consts    map[string]string   `json:"consts"`    // integer constants (decimal)
	Vars      map[string]string   `json:"vars"`      // integer package variables with constant initialiser
	Tables    map[string][]string `json:"tables"`    // error lists
	Dispatch  map[string]string   `json:"dispatch"`  // readSlices switch head>>4
	ErrShapes map[string][]string `json:"errshapes"` // package error var -> [ctor, %w operands...]
	Syntax    map[string]string   `json:"syntax"`    // small syntactic facts
	Missing   []string            `json:"missing"`
}

func exprString(fset *token.FileSet, e ast.Node) string {
	var sb strings.Builder
	printer.Fprint(&sb, fset, e)
	return strings.Join(strings.Fields(sb.String()), " ")
}

func main() {
	if len(os.Args) < 3 {
		fmt.Fprintln(os.Stderr, "usage: extract <repo> <outdir>")
		os.Exit(2)
	}
	repo, outdir := os.Args[1], os.Args[2]
	fset := token.NewFileSet()
	pkgs, err := parser.ParseDir(fset, repo, func(fi os.FileInfo) bool {
		n := fi.Name()
		return !strings.HasSuffix(n, "_test.go") && !strings.HasPrefix(n, "verif_")
	}, parser.ParseComments)
	if err != nil {
		fmt.Fprintln(os.Stderr, "parse:", err)
		os.Exit(1)
	}
	pkg := pkgs["mqtt"]
	if pkg == nil {
		fmt.Fprintln(os.Stderr, "package mqtt not found")
		os.Exit(1)
	}
	var files []*ast.File
	var names []string
	for n := range pkg.Files {
		names = append(names, n)
	}
	sort.Strings(names)
	for _, n := range names {
		files = append(files, pkg.Files[n])
	}
	conf := types.Config{Importer: importer.ForCompiler(fset, "source", nil), Error: func(error) {}}
	info := &types.Info{Defs: map[*ast.Ident]types.Object{}, Types: map[ast.Expr]types.TypeAndValue{}}
	tpkg, _ := conf.Check("github.com/pascaldekloe/mqtt", fset, files, info)

	f := facts{Consts: map[string]string{}, Vars: map[string]string{}, Tables: map[string][]string{},
		Dispatch: map[string]string{}, ErrShapes: map[string][]string{}, Syntax: map[string]string{}}

	// integer constants
	scope := tpkg.Scope()
	for _, n := range scope.Names() {
		if c, ok := scope.Lookup(n).(*types.Const); ok {
			if c.Val().Kind() == constant.Int {
				f.Consts[n] = c.Val().ExactString()
			}
		}
	}

	funcs := map[string]*ast.FuncDecl{}
	for _, file := range files {
		for _, d := range file.Decls {
			switch d := d.(type) {
			case *ast.FuncDecl:
				name := d.Name.Name
				if d.Recv != nil && len(d.Recv.List) == 1 {
					t := d.Recv.List[0].Type
					if s, ok := t.(*ast.StarExpr); ok {
						t = s.X
					}
					if id, ok := t.(*ast.Ident); ok {
						name = id.Name + "." + name
					}
				}
				funcs[name] = d
			case *ast.GenDecl:
				if d.Tok != token.VAR {
					continue
				}
				for _, s := range d.Specs {
					vs := s.(*ast.ValueSpec)
					for i, id := range vs.Names {
						if i >= len(vs.Values) {
							continue
						}
						v := vs.Values[i]
						// integer variables with constant initialiser
						if tv, ok := info.Types[v]; ok && tv.Value != nil && tv.Value.Kind() == constant.Int {
							f.Vars[id.Name] = tv.Value.ExactString()
						}
						// error lists
						if cl, ok := v.(*ast.CompositeLit); ok {
							if at, ok := cl.Type.(*ast.ArrayType); ok {
								if el, ok := at.Elt.(*ast.Ident); ok && el.Name == "error" {
									var ms []string
									for _, e := range cl.Elts {
										ms = append(ms, exprString(fset, e))
									}
									f.Tables[id.Name] = ms
								}
							}
						}
						// error lists put together from other lists: append(append(make(...), A...), B...) -> [A, B]
						if call, ok := v.(*ast.CallExpr); ok && exprString(fset, call.Fun) == "append" {
							var parts []string
							var walk func(c *ast.CallExpr)
							walk = func(c *ast.CallExpr) {
								if inner, ok := c.Args[0].(*ast.CallExpr); ok && exprString(fset, inner.Fun) == "append" {
									walk(inner)
								}
								for _, a := range c.Args[1:] {
									parts = append(parts, exprString(fset, a))
								}
							}
							walk(call)
							f.Tables[id.Name+"_parts"] = parts
						}
						// error constructor shapes
						if call, ok := v.(*ast.CallExpr); ok {
							fn := exprString(fset, call.Fun)
							if fn == "errors.New" {
								f.ErrShapes[id.Name] = []string{"new"}
							} else if fn == "fmt.Errorf" && len(call.Args) > 0 {
								shape := []string{"errorf"}
								for _, a := range call.Args[1:] {
									shape = append(shape, exprString(fset, a))
								}
								f.ErrShapes[id.Name] = shape
							}
						}
					}
				}
			}
		}
	}

	// dispatch table: in Client.readSlices the switch on head >> 4
	if fd := funcs["Client.readSlices"]; fd != nil {
		ast.Inspect(fd.Body, func(n ast.Node) bool {
			sw, ok := n.(*ast.SwitchStmt)
			if !ok || sw.Tag == nil || exprString(fset, sw.Tag) != "head >> 4" {
				return true
			}
			for _, st := range sw.Body.List {
				cc := st.(*ast.CaseClause)
				for _, e := range cc.List {
					key := exprString(fset, e)
					val := "?"
					if len(cc.Body) > 0 {
						if as, ok := cc.Body[0].(*ast.AssignStmt); ok && len(as.Rhs) == 1 {
							val = exprString(fset, as.Rhs[0])
						}
					}
					f.Dispatch[key] = val
				}
			}
			return false
		})
	}
	if len(f.Dispatch) == 0 {
		f.Missing = append(f.Missing, "dispatch(readSlices switch head >> 4)")
	}

	// syntactic facts: find specific expressions by shape
	findIn := func(fn string, pred func(ast.Node) (string, bool)) (string, bool) {
		fd := funcs[fn]
		if fd == nil {
			return "", false
		}
		res, ok := "", false
		ast.Inspect(fd.Body, func(n ast.Node) bool {
			if ok || n == nil {
				return false
			}
			if s, o := pred(n); o {
				res, ok = s, true
				return false
			}
			return true
		})
		return res, ok
	}
	syn := func(key, fn string, pred func(ast.Node) (string, bool)) {
		if s, ok := findIn(fn, pred); ok {
			f.Syntax[key] = s
		} else {
			f.Missing = append(f.Missing, key+"("+fn+")")
		}
	}
	evalInt := func(e ast.Expr) (string, bool) {
		if tv, ok := info.Types[e]; ok && tv.Value != nil && tv.Value.Kind() == constant.Int {
			return tv.Value.ExactString(), true
		}
		return "", false
	}
	// lock acquisition order: the semaphores a function receives from, in source order (first occurrence each).
	// `topOnly` looks at the statements of the function body itself (the main path, not its error branches);
	// a call of one of the write functions counts as taking the write semaphore.
	lockOrder := func(key, fn string, topOnly bool) {
		fd := funcs[fn]
		if fd == nil {
			f.Missing = append(f.Missing, key+"("+fn+")")
			return
		}
		var order []string
		add := func(s string) {
			for _, o := range order {
				if o == s {
					return
				}
			}
			order = append(order, s)
		}
		visit := func(n ast.Node) bool {
			switch x := n.(type) {
			case *ast.FuncLit:
				return false // another goroutine or a deferred release
			case *ast.UnaryExpr:
				if x.Op == token.ARROW {
					e := exprString(fset, x.X)
					for _, sem := range []string{"connSem", "writeSem", "atLeastOnce.seqSem", "exactlyOnce.seqSem", "out.seqSem"} {
						if strings.HasSuffix(e, "."+sem) || e == sem {
							add(sem)
						}
					}
				}
			case *ast.CallExpr:
				e := exprString(fset, x.Fun)
				if e == "c.writeBuffersNoWait" || e == "c.writeNoWait" || e == "c.write" || e == "c.writeBuffers" || e == "c.lockWrite" {
					add("writeSem")
				}
			}
			return true
		}
		for _, st := range fd.Body.List {
			if topOnly {
				switch st.(type) {
				case *ast.AssignStmt, *ast.ExprStmt:
					ast.Inspect(st, visit)
				}
			} else {
				ast.Inspect(st, visit)
			}
		}
		f.Syntax[key] = strings.Join(order, ",")
	}
	lockOrder("connect.locks", "Client.connect", true)
	lockOrder("submitPersisted.locks", "Client.submitPersisted", false)
	lockOrder("Close.locks", "Client.Close", false)
	lockOrder("Disconnect.locks", "Client.Disconnect", false)

	// signal order: the calls that flip the Online/Offline signals and the statements that hand the write semaphore back (or
	// close it), in source order. `topOnly` looks at the statements of the function body itself (the main path); otherwise
	// deferred function literals are included (Close and Disconnect flip the signals in a deferred epilogue).
	signalOrder := func(key, fn string, topOnly bool) {
		fd := funcs[fn]
		if fd == nil {
			f.Missing = append(f.Missing, key+"("+fn+")")
			return
		}
		var order []string
		visit := func(n ast.Node) bool {
			switch x := n.(type) {
			case *ast.CallExpr:
				e := exprString(fset, x.Fun)
				if (e == "blockSignalChan" || e == "clearSignalChan") && len(x.Args) == 1 {
					a := exprString(fset, x.Args[0])
					order = append(order, strings.TrimSuffix(e, "SignalChan")+":"+a[strings.LastIndex(a, ".")+1:])
				}
				if e == "close" && len(x.Args) == 1 && strings.HasSuffix(exprString(fset, x.Args[0]), ".writeSem") {
					order = append(order, "close:writeSem")
				}
			case *ast.SendStmt:
				if strings.HasSuffix(exprString(fset, x.Chan), ".writeSem") {
					order = append(order, "send:writeSem")
				}
			}
			return true
		}
		for _, st := range fd.Body.List {
			if topOnly {
				switch st.(type) {
				case *ast.ExprStmt, *ast.SendStmt:
					ast.Inspect(st, visit)
				}
			} else if d, ok := st.(*ast.DeferStmt); ok {
				ast.Inspect(d, visit)
			}
		}
		if len(order) == 0 {
			f.Missing = append(f.Missing, key+"("+fn+")")
			return
		}
		f.Syntax[key] = strings.Join(order, ",")
	}
	signalOrder("connect.signals", "Client.connect", true)
	signalOrder("toOffline.signals", "Client.toOffline", true)
	signalOrder("Close.signals", "Client.Close", false)
	signalOrder("Disconnect.signals", "Client.Disconnect", false)

	// capacity of the channel a request waits on for its response: make(chan error, N)
	chanCap := func(key, fn string) {
		syn(key, fn, func(n ast.Node) (string, bool) {
			if c, ok := n.(*ast.CallExpr); ok && exprString(fset, c.Fun) == "make" && len(c.Args) >= 1 && exprString(fset, c.Args[0]) == "chan error" {
				if len(c.Args) == 1 {
					return "0", true
				}
				if v, ok := evalInt(c.Args[1]); ok {
					return v, true
				}
			}
			return "", false
		})
	}
	chanCap("startTx.chanCap", "unorderedTxs.startTx")
	chanCap("Ping.chanCap", "Client.Ping")

	// size limits: the comparison of a request's size with packetMax (operator), per request kind
	for _, fn := range []string{"Client.subscribeLevel", "Client.Unsubscribe", "publishPacket"} {
		syn(strings.TrimPrefix(fn, "Client.")+".sizeLimit", fn, func(n ast.Node) (string, bool) {
			if be, ok := n.(*ast.BinaryExpr); ok && exprString(fset, be.Y) == "packetMax" {
				return exprString(fset, be.X) + " " + be.Op.String() + " packetMax", true
			}
			return "", false
		})
	}

	// deadlines: every call that arms a read or write deadline with `time.Now().Add(D)` stands under a condition `D != 0`
	// (a zero PauseTimeout disables the protection: arming with it would expire at once). Reported: the functions that arm,
	// and those of them with an arming call outside such a condition.
	{
		var arming, unguarded []string
		var names []string
		for n := range funcs {
			names = append(names, n)
		}
		sort.Strings(names)
		for _, name := range names {
			fd := funcs[name]
			if fd.Body == nil {
				continue
			}
			var conds []string
			armed, bad := false, false
			var walk func(n ast.Node)
			walk = func(n ast.Node) {
				if n == nil {
					return
				}
				if is, ok := n.(*ast.IfStmt); ok {
					if is.Init != nil {
						walk(is.Init)
					}
					conds = append(conds, exprString(fset, is.Cond))
					walk(is.Body)
					conds = conds[:len(conds)-1]
					if is.Else != nil {
						walk(is.Else)
					}
					return
				}
				if c, ok := n.(*ast.CallExpr); ok {
					fn := exprString(fset, c.Fun)
					if (strings.HasSuffix(fn, ".SetReadDeadline") || strings.HasSuffix(fn, ".SetWriteDeadline") || strings.HasSuffix(fn, ".SetDeadline")) && len(c.Args) == 1 {
						a := exprString(fset, c.Args[0])
						if strings.HasPrefix(a, "time.Now().Add(") {
							d := strings.TrimSuffix(strings.TrimPrefix(a, "time.Now().Add("), ")")
							armed = true
							ok := false
							for _, cd := range conds {
								for _, cj := range strings.Split(cd, " && ") {
									if cj == d+" != 0" {
										ok = true
									}
								}
							}
							if !ok {
								bad = true
							}
						}
					}
				}
				ast.Inspect(n, func(m ast.Node) bool {
					if m == n || m == nil {
						return true
					}
					walk(m)
					return false
				})
			}
			walk(fd.Body)
			if armed {
				arming = append(arming, name)
			}
			if bad {
				unguarded = append(unguarded, name)
			}
		}
		f.Tables["deadlineArming"] = arming
		f.Tables["deadlineArmingUnguarded"] = unguarded
	}

	// Client.Backoff: the table behind its nil result (case err == nil || nonNilIsAny(err, TABLE))
	syn("Backoff.nilTable", "Client.Backoff", func(n ast.Node) (string, bool) {
		if cc, ok := n.(*ast.CaseClause); ok {
			for _, e := range cc.List {
				if be, ok := e.(*ast.BinaryExpr); ok && be.Op == token.LOR && exprString(fset, be.X) == "err == nil" {
					if c, ok := be.Y.(*ast.CallExpr); ok && exprString(fset, c.Fun) == "nonNilIsAny" && len(c.Args) == 2 {
						return exprString(fset, c.Args[1]), true
					}
				}
			}
		}
		return "", false
	})

	// remaining-length guard: if shift > K  (operator and constant)
	syn("peekPacket.shiftGuard", "Client.peekPacket", func(n ast.Node) (string, bool) {
		if is, ok := n.(*ast.IfStmt); ok {
			if be, ok := is.Cond.(*ast.BinaryExpr); ok {
				if id, ok := be.X.(*ast.Ident); ok && id.Name == "shift" {
					if v, ok := evalInt(be.Y); ok {
						return be.Op.String() + " " + v, true
					}
				}
			}
		}
		return "", false
	})
	// unordered window: len(txs.perPacketID) > EXPR
	syn("startTx.window", "unorderedTxs.startTx", func(n ast.Node) (string, bool) {
		if is, ok := n.(*ast.IfStmt); ok {
			if be, ok := is.Cond.(*ast.BinaryExpr); ok && strings.HasPrefix(exprString(fset, be.X), "len(") {
				if v, ok := evalInt(be.Y); ok {
					return be.Op.String() + " " + v, true
				}
			}
		}
		return "", false
	})
	// hash constructor used by encodeValue / decodeValue
	for _, fn := range []string{"encodeValue", "decodeValue"} {
		syn(fn+".hash", fn, func(n ast.Node) (string, bool) {
			if c, ok := n.(*ast.CallExpr); ok {
				s := exprString(fset, c.Fun)
				if strings.HasPrefix(s, "fnv.") {
					return s, true
				}
			}
			return "", false
		})
	}
	// byte orders in encodeValue: PutUint64 / PutUint32 receivers
	for _, w := range []string{"PutUint64", "PutUint32"} {
		w := w
		syn("encodeValue."+w, "encodeValue", func(n ast.Node) (string, bool) {
			if c, ok := n.(*ast.CallExpr); ok {
				if se, ok := c.Fun.(*ast.SelectorExpr); ok && se.Sel.Name == w {
					return exprString(fset, se.X), true
				}
			}
			return "", false
		})
	}
	for _, w := range []string{"Uint64", "Uint32"} {
		w := w
		syn("decodeValue."+w, "decodeValue", func(n ast.Node) (string, bool) {
			if c, ok := n.(*ast.CallExpr); ok {
				if se, ok := c.Fun.(*ast.SelectorExpr); ok && se.Sel.Name == w {
					return exprString(fset, se.X), true
				}
			}
			return "", false
		})
	}
	// minimum length in decodeValue: len(buf) < K
	syn("decodeValue.minLen", "decodeValue", func(n ast.Node) (string, bool) {
		if is, ok := n.(*ast.IfStmt); ok {
			if be, ok := is.Cond.(*ast.BinaryExpr); ok && strings.HasPrefix(exprString(fset, be.X), "len(") {
				if v, ok := evalInt(be.Y); ok {
					return be.Op.String() + " " + v, true
				}
			}
		}
		return "", false
	})
	// limit normalisation in newClient: "x < 0 || x > publishIDMask" -> publishIDMask + 1
	syn("newClient.normalise", "newClient", func(n ast.Node) (string, bool) {
		if is, ok := n.(*ast.IfStmt); ok {
			c := exprString(fset, is.Cond)
			if strings.Contains(c, "AtLeastOnceMax") && len(is.Body.List) == 1 {
				if as, ok := is.Body.List[0].(*ast.AssignStmt); ok {
					if v, ok := evalInt(as.Rhs[0]); ok {
						be, _ := is.Cond.(*ast.BinaryExpr)
						if be != nil {
							if r, ok := be.Y.(*ast.BinaryExpr); ok {
								if hi, ok := evalInt(r.Y); ok {
									return be.Op.String() + " " + r.Op.String() + " " + hi + " -> " + v, true
								}
							}
						}
					}
				}
			}
		}
		return "", false
	})

	sort.Strings(f.Missing)
	os.MkdirAll(outdir, 0o755)
	js, _ := json.MarshalIndent(f, "", " ")
	writeIfChanged(filepath.Join(outdir, "facts.json"), append(js, '\n'))

	// Lean file
	var sb strings.Builder
	sb.WriteString("-- GENERATED by tools/extract from /repo; do not edit.\nnamespace Facts\n\n")
	var cn []string
	for n := range f.Consts {
		cn = append(cn, n)
	}
	sort.Strings(cn)
	for _, n := range cn {
		fmt.Fprintf(&sb, "def %s : Nat := %s\n", leanName(n), strings.TrimPrefix(f.Consts[n], "-"))
	}
	var vn []string
	for n := range f.Vars {
		vn = append(vn, n)
	}
	sort.Strings(vn)
	for _, n := range vn {
		fmt.Fprintf(&sb, "def %s : Nat := %s\n", leanName(n), f.Vars[n])
	}
	strList := func(xs []string) string {
		q := make([]string, len(xs))
		for i, x := range xs {
			q[i] = fmt.Sprintf("%q", x)
		}
		return "[" + strings.Join(q, ", ") + "]"
	}
	var tn []string
	for n := range f.Tables {
		tn = append(tn, n)
	}
	sort.Strings(tn)
	for _, n := range tn {
		fmt.Fprintf(&sb, "def %s : List String := %s\n", leanName(n), strList(f.Tables[n]))
	}
	// dispatch as list of (typecode, handler)
	var dn []string
	for n := range f.Dispatch {
		dn = append(dn, n)
	}
	sort.Slice(dn, func(i, j int) bool { return atoi(f.Consts[dn[i]]) < atoi(f.Consts[dn[j]]) })
	sb.WriteString("def dispatch : List (Nat × String) := [")
	for i, n := range dn {
		if i > 0 {
			sb.WriteString(", ")
		}
		fmt.Fprintf(&sb, "(%s, %q)", f.Consts[n], f.Dispatch[n])
	}
	sb.WriteString("]\n")
	var en []string
	for n := range f.ErrShapes {
		en = append(en, n)
	}
	sort.Strings(en)
	sb.WriteString("def errShapes : List (String × List String) := [")
	for i, n := range en {
		if i > 0 {
			sb.WriteString(",\n  ")
		}
		fmt.Fprintf(&sb, "(%q, %s)", n, strList(f.ErrShapes[n]))
	}
	sb.WriteString("]\n")
	var sn []string
	for n := range f.Syntax {
		sn = append(sn, n)
	}
	sort.Strings(sn)
	for _, n := range sn {
		if strings.HasSuffix(n, ".locks") || strings.HasSuffix(n, ".signals") {
			fmt.Fprintf(&sb, "def %s : List String := %s\n", leanName("syn_"+strings.ReplaceAll(n, ".", "_")), strList(strings.Split(f.Syntax[n], ",")))
			continue
		}
		fmt.Fprintf(&sb, "def %s : String := %q\n", leanName("syn_"+strings.ReplaceAll(n, ".", "_")), f.Syntax[n])
	}
	fmt.Fprintf(&sb, "def missing : List String := %s\n", strList(f.Missing))
	sb.WriteString("\nend Facts\n")
	writeIfChanged(filepath.Join(outdir, "Facts.lean"), []byte(sb.String()))
	if len(f.Missing) > 0 {
		fmt.Println("MISSING", strings.Join(f.Missing, " "))
	}
}

func atoi(s string) int {
	n := 0
	fmt.Sscanf(s, "%d", &n)
	return n
}

func leanName(n string) string {
	switch n {
	case "accepted", "closed":
		return n + "'"
	}
	return n
}

func writeIfChanged(path string, data []byte) {
	old, err := os.ReadFile(path)
	if err == nil && string(old) == string(data) {
		return
	}
	if err := os.WriteFile(path, data, 0o644); err != nil {
		fmt.Fprintln(os.Stderr, err)
		os.Exit(1)
	}
}
