#!/bin/sh
# usage: tools/sdiff.sh <port> <script.ops> : run harness (rebuilt) and driver, show the diff
export GOFLAGS=-mod=mod GOPROXY=off GOSUMDB=off GOTOOLCHAIN=local
F=$(realpath "$2")
cd /verif/harness && go build -tags verif -o /verif/bin/harness . || exit 2
/verif/bin/harness "$1" < "$F" > /verif/.work/i.out 2>/verif/.work/i.err
/verif/lean/.lake/build/bin/driver "$1" < "$F" > /verif/.work/m.out
if diff /verif/.work/i.out /verif/.work/m.out > /verif/.work/d.out; then echo SAME; else echo "DIFF (< impl, > model)"; cat /verif/.work/d.out; fi
