#!/usr/bin/env python3
"""Seeded changes (realistic breakage written by sub-agents who saw only a property's text).

  tools/seeds.py confirm <worktree> [round]    confirm every <worktree>/.seeds/N and copy it to /verif/seeded/<prop>[-round]-N/
  tools/seeds.py run <seed-id>|all [Cxx ...]   apply the patch to /repo, run the checks (default: the seed's own property),
                                               undo the patch, record the outcome in seeded/<seed-id>/result.json
  tools/seeds.py table                         markdown table of all recorded outcomes

The patches are never committed in /repo."""
import json, os, subprocess, sys, shutil, glob, time

ROOT = os.path.dirname(os.path.dirname(os.path.abspath(__file__)))
REPO = "/repo"
ENV = dict(os.environ, GOFLAGS="-mod=mod", GOPROXY="off", GOSUMDB="off", GOTOOLCHAIN="local",
           VERIF_EVIDENCE_DIR=os.path.join(ROOT, ".work", "seed-evidence"))      # evidence of runs on changed trees is not the record


def sh(cmd, cwd=None, timeout=900):
    try:
        p = subprocess.run(cmd, shell=True, cwd=cwd, env=ENV, capture_output=True, text=True, timeout=timeout, start_new_session=True)
    except subprocess.TimeoutExpired as e:
        subprocess.run(["pkill", "-x", "harness"])
        return 124, "TIMEOUT after %d s\n%s" % (timeout, (e.stdout or b"").decode("utf-8", "replace") if isinstance(e.stdout, bytes) else (e.stdout or ""))
    return p.returncode, (p.stdout + p.stderr)


def clean(wt):
    sh("git checkout -q -- . && git clean -fdq -e .seeds", wt)


def confirm(wt, tag=""):
    head = sh("git rev-parse HEAD", REPO)[1].strip()
    sh("git checkout -q --detach " + head, wt)
    for d in sorted(glob.glob(os.path.join(wt, ".seeds", "*"))):
        try:
            meta = json.load(open(os.path.join(d, "meta.json")))
        except Exception as e:
            print(d, "no meta:", e)
            continue
        prop, n = meta["property"], os.path.basename(d)
        sid = "%s-%s%s" % (prop, tag + "-" if tag else "", n)
        clean(wt)
        ddir = os.path.join(wt, meta.get("demo_dir", "."))
        demo = os.path.join(ddir, "demo_test.go")
        shutil.copy(os.path.join(d, "demo_test.go"), demo)
        cmd = meta.get("demo_cmd", "go test -vet=off -count=1 -run TestDemo .")
        rc0, o0 = sh(cmd, ddir, 120)
        rca, oa = sh("git apply " + os.path.join(d, "patch.diff"), wt)
        if rca != 0:
            print(sid, "PATCH DOES NOT APPLY on current HEAD:", oa.strip()[:200])
            clean(wt)
            continue
        fails = []
        for _ in range(2):
            rc1, o1 = sh(cmd, ddir, 120)
            fails.append(rc1 != 0)
        os.remove(demo)
        rcs, osu = sh("go build ./... && go test -vet=off -count=1 ./...", wt, 600)
        clean(wt)
        ok = rc0 == 0 and all(fails) and rcs == 0
        print(sid, "confirmed" if ok else "REJECTED", "demo-clean rc=%d demo-mutated fails=%s suite rc=%d" % (rc0, fails, rcs))
        if not ok:
            print("   ", (o0 if rc0 else (osu if rcs else o1)).strip()[-400:])
            continue
        out = os.path.join(ROOT, "seeded", sid)
        os.makedirs(out, exist_ok=True)
        shutil.copy(os.path.join(d, "patch.diff"), os.path.join(out, "patch.diff"))
        shutil.copy(os.path.join(d, "demo_test.go"), os.path.join(out, "demo_test.go.txt"))
        meta["confirmed"] = {"base": head, "demo_on_base": "pass", "demo_on_mutant": "fail (2 of 2 runs)", "suite_on_mutant": "pass",
                             "demo_output_on_mutant": o1.strip()[-600:]}
        meta["id"] = sid
        json.dump(meta, open(os.path.join(out, "meta.json"), "w"), indent=1)


def run(sid, props):
    d = os.path.join(ROOT, "seeded", sid)
    meta = json.load(open(os.path.join(d, "meta.json")))
    props = props or [meta["property"]]
    rc, o = sh("git status --porcelain", REPO)
    if o.strip():
        sys.exit("/repo is not clean: " + o)
    rc, o = sh("git apply " + os.path.join(d, "patch.diff"), REPO)
    if rc != 0:
        print(sid, "patch does not apply:", o.strip()[:200])
        return
    res = {}
    try:
        for p in props:
            t0 = time.time()
            rc, o = sh("./check %s --tier quick" % p, ROOT, 1200)
            lines = [l for l in o.splitlines() if l.startswith(("VIOLATION", "OK ", "KNOWN-FINDING")) or l.startswith("  ")]
            viol = [l for l in o.splitlines() if l.startswith("VIOLATION")]
            res[p] = {"rc": rc, "caught": rc != 0 and bool(viol), "with_input": any("no-failing-input-found" not in l for l in viol),
                      "lines": [l[:300] for l in lines][:8], "wall_s": round(time.time() - t0, 1)}
            print(sid, p, "CAUGHT" if res[p]["caught"] else "missed", "(failing input)" if res[p]["with_input"] else "", flush=True)
            for l in lines[:4]:
                print("    " + l[:200])
    finally:
        sh("git checkout -- .", REPO)
    path = os.path.join(d, "result.json")
    old = json.load(open(path)) if os.path.exists(path) else {}
    old.update(res)
    json.dump(old, open(path, "w"), indent=1)


def table():
    print("| seed | change | own check | other checks that catch it |")
    print("|---|---|---|---|")
    for d in sorted(glob.glob(os.path.join(ROOT, "seeded", "*"))):
        try:
            meta = json.load(open(os.path.join(d, "meta.json")))
        except Exception:
            continue
        res = json.load(open(os.path.join(d, "result.json"))) if os.path.exists(os.path.join(d, "result.json")) else {}
        own = res.get(meta["property"])
        o = "not run" if own is None else ("caught" + (" (input)" if own["with_input"] else " (tie only)") if own["caught"] else "MISSED")
        others = ", ".join(p for p, r in sorted(res.items()) if p != meta["property"] and r["caught"])
        print("| %s | %s | %s | %s |" % (meta["id"], meta["summary"].replace("|", "/")[:160], o, others))


if __name__ == "__main__":
    import signal
    signal.signal(signal.SIGTERM, lambda *_: (_ for _ in ()).throw(KeyboardInterrupt()))
    a = sys.argv[1:]
    if a[0] == "confirm":
        confirm(a[1], a[2] if len(a) > 2 else "")
    elif a[0] == "run":
        ids = [os.path.basename(x) for x in sorted(glob.glob(os.path.join(ROOT, "seeded", "*")))] if a[1] == "all" else [a[1]]
        for sid in ids:
            run(sid, a[2:])
    elif a[0] == "table":
        table()
