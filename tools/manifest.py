#!/usr/bin/env python3
"""Regenerates MANIFEST.json from the table below (kept in one place so the
manifest stays valid while checks are added)."""
import json, os
ROOT = os.path.dirname(os.path.dirname(os.path.abspath(__file__)))
ALL = ["C%02d" % i for i in range(1, 21)]

CLAIMED = {
 "C10": dict(
  text="Lean 4 theorems over Model.Sync, a labelled transition system of the write semaphore, the connection-control semaphore, the "
       "Online/Offline signals, the read routine and ANY number of concurrent writers and closers (invariant proved by induction over every "
       "interleaving): the read routine always has an enabled step to leave a failed connection (the semaphore never holds a value toOffline "
       "cannot take), whoever holds the write lock can give it back in one own step, a failed write closes the connection and leaves the "
       "pending marker after which toOffline and redial are enabled, Online/live after a successful connect, one writer at a time; plus the "
       "ReadBackoff bounds on the modelled formula for every Config (newClient's normalisation of the waits), the no-wait write of the read routine (F4 repair), toOffline always drops the read state and a failed BigMessage.ReadAll gives the connection up (F26 repair), lock order and signal order as regenerated facts. Scenarios with goroutines blocked at "
       "I/O boundaries (Dialer, CONNACK, conn.Write interrupted by broker close) run against the real client with hang/busy-loop detection.",
  design="6/C10", technique="Lean 4 proof (LTS invariants over all interleavings, any number of actors) + differential correspondence at I/O boundaries",
  note="partial: A-atomic (one step = one channel operation); the Sync skeleton is tied to the code by the session scenarios and by the regenerated lock-order and signal-order facts; fairness, timers and wall-clock are outside (ReadBackoff's idle time is observed at a hook and compared, its timer is not awaited)"),
 "C11": dict(
  text="Lean 4 theorems: endTx hands out exactly the transaction registered under the identifier, startTx never hands out zero, a foreign "
       "space or an identifier still registered, breakAll releases every registered request with exactly one ErrBreak and empties the table, "
       "the ping slot answers its owner, a second Ping is refused at once. Concurrent Subscribe/Unsubscribe/Ping calls with responses in any "
       "order, losses, quits and Close run against the real client; each SubscribeError is checked against the SUBACK sent for that request's "
       "identifier and every request must have returned after the closing epilogue.",
  design="6/C11", technique="Lean 4 proof (transaction-table lemmas) + differential correspondence with concurrent calls parked by the harness",
  note="partial: requests are interleaved only where the harness can park a goroutine (lockWrite, conn.Write, the response wait); preemption between two statements of one call is not explored; the free-identifier search is proved to end within its fuel (C11_startTx_total)"),
 "C12": dict(
  text="Lean 4 theorems over Model.Sync for every interleaving and any number of concurrent Close/Disconnect calls: Online and Offline are "
       "never both released, after the semaphores are closed the client is offline for good (stable under every step), at most one closer is "
       "past connSem and never together with a connecting reader (no double close), and a closer holding connSem can always finish within "
       "three steps - its own plus one release by the lock holder (no deadlock). Close/Disconnect in every state the harness can hold a "
       "goroutine in (never connected, in the Dialer, awaiting CONNACK - the F6 deadlock, now repaired -, writer inside conn.Write, offline, "
       "closed, repeated) run against the real client; afterwards every method must return ErrClosed. Regenerated facts: closers take connection control before the write lock; connect, toOffline, Close and Disconnect flip the signals block-first, before the write semaphore is handed back or closed (never both released from any state, final state as required).",
  design="6/C12", technique="Lean 4 proof (LTS invariants + bounded reachability of closure) + differential correspondence at I/O boundaries",
  note="partial: A-atomic; promptness = returns while all other goroutines are at rest (no wall-clock); goroutine/connection leaks not measured; termCallbacks is proved on the session model (every pending exchange gets ErrClosed once), its flusher goroutines are not in the LTS"),
 "C19": dict(
  text="Lean 4 theorems over Save/Delete as system-call programs on a directory: for every previous content, value, buffer split and stop "
       "point (before/after any call, inside a data write after any byte count) the key loads as its complete old or complete new value and "
       "no other key changes (C19_save_atomic, C19_delete_atomic); every write and the fsync precede the rename; a failed Save keeps the old "
       "value and removes the spool; List never reports a spool file and everything listed loads. Tied to mqtt.FileSystem by comparing the "
       "strace system-call sequence with the model program and by real SIGKILL injection at every call, RLIMIT_FSIZE cuts at byte counts and "
       "EIO injection, each followed by List/Load in a fresh process.",
  design="6/C19", technique="Lean 4 proof (crash-prefix lemma over syscall programs) + strace sequence correspondence + kill/error injection",
  note="partial: A-os (atomic rename/unlink/open, data readable after a process stop; no power loss); needs ptrace; concurrency (one writer beside four loaders on one key) is searched over the runtime's schedules, not proved"),
 "C20": dict(
  text="Lean 4 theorems over the doubles as pure functions: the publish mock records a failure iff no expectation is left or message or "
       "topic differs (each independently), closed quit is ErrCanceled and uncounted, cleanup fails iff the counted calls differ from the "
       "expectations, subscribe mocks never index past their expectations, the exchange stub closes iff the accepted script does not end in "
       "ErrClosed or an indefinite block. Exhaustive small-alphabet sequences run against the real mqtttest package with a recording testing.TB.",
  design="6/C20", technique="Lean 4 proof (decision logic) + exhaustive small-scope differential correspondence",
  note="'private copies' is checked operationally only (no aliasing in the pure model)"),
 "C04": dict(
  text="Lean 4 theorems on the inbound handlers of Model.Session: a QoS 2 PUBLISH is returned only when no marker exists for its identifier "
       "(C04_once_per_cycle: the marker lives in the Persistence, so reconnects and restarts keep suppressing), every suppressed duplicate owes "
       "its PUBREC again (C04_dupe_answered, the F3 repair), the PUBREL handler clears the marker before answering, marker keys are disjoint from "
       "every outbound key. The composition inside readSlices (marker Save before PUBREC at the next call) is tied by correspondence: inbound "
       "QoS 2 streams with DUP retransmissions, PUBREL repeats, losses after each acknowledgement and restarts, judged by an inbound monitor.",
  design="6/C04", technique="Lean 4 proof (handler-level case analysis) + differential correspondence + inbound monitor",
  note="partial: theorems are per handler; the readSlices loop composition is covered by the correspondence; the documented BUG case is excluded by the statement"),
 "C06": dict(
  text="Lean 4 theorems: the buffered reader (fill, Peek, ReadByte, Discard as bufio implements them) refines the flat byte stream for every "
       "chunking - Peek consumes nothing and returns exactly the next n bytes when it succeeds, ReadByte returns the head, Discard removes "
       "exactly what it reports (all n on success), deadline expiries and errors lose nothing - and parsePublish slices topic/payload exactly. "
       "Well-formed streams x chunkings x progress-making expiries around the buffer size are run through the real ReadSlices/ReadAll and "
       "compared with the bytes fed (model-independent oracle) and with the model.",
  design="6/C06", technique="Lean 4 proof (refinement of a buffered reader to a flat stream) + differential correspondence over chunkings",
  note="partial: the theorems are about the reader and the slicing; their composition in peekPacket/readSlices is tied by the correspondence; A-bufio"),
 "C07": dict(
  text="Lean 4 theorems: returning a message writes nothing, saves nothing, deletes nothing (C07_return_writes_nothing: onPUBLISH only "
       "enqueues), the enqueued acknowledgement carries that message's identifier and level, no second QoS>0 message is returned while one is "
       "owed, and the read routine's own write never waits for a connect. When the flush happens (start of the next ReadSlices) is tied by "
       "correspondence with the harness deciding when ReadSlices is called again; an inbound monitor judges each PUBACK/PUBREC position.",
  design="6/C07", technique="Lean 4 proof (frame property of the returning handler) + differential correspondence + ack-position monitor",
  note="partial: 'eventually acknowledged' under concurrency belongs to the Sync model (C10)"),
 "C13": dict(
  text="Lean 4 theorems: the client's remaining-length loop accepts exactly what the reference decoder accepts (1-4 bytes, fifth byte is a "
       "violation) and every accepted size is <= 2^28-1 (bound on any allocation), reserved/client-only types and a second CONNACK reset without "
       "touching state, zero/foreign/out-of-order/unsolicited acknowledgements change nothing (C13_no_forged_progress), malformed handshake "
       "replies never connect; the dispatch table and the reset sentinels are regenerated facts. Hostile streams after valid prefixes are run "
       "against the real client (panic/hang detection, progress justified by fed bytes).",
  design="6/C13", technique="Lean 4 proof (decision logic, parser equivalence) + regenerated dispatch facts + hostile-input correspondence",
  note="partial: no-panic is observed (recover in harness), not proved for the Go code; waiting time: ReadAll reads without deadline (F16, known finding)"),
 "C14": dict(
  text="Lean 4 theorems: Publish returns nil, a not-submitted class or an ErrSubmit and with a not-submitted class the state incl. the "
       "connection log is unchanged; a refused persisted publish consumed nothing; quit yields only ErrCanceled/ErrAbandoned; Ping ErrMax iff "
       "the slot is taken; deny and end classes are disjoint on produced errors. Every returned error of every request method in every client "
       "state is classified with errors.Is/As against all sentinels and judged against the documented table on every run. The classifier "
       "behind IsDeny/IsEnd/Backoff (nonNilIsAny with its explicit work list) is proved equal to 'some node of the error tree is a target' for "
       "error values of every shape (wrappers, joins of joins), and run against the real function, errors.Is and a second classification of the same value.",
  design="6/C14", technique="Lean 4 proof (decision logic over request outcomes) + differential correspondence + class monitor",
  note="documented table transcribed by hand; error texts and foreign Is methods are not modelled; Backoff is tied by the regenerated table fact (nil table = deny list + end list) and by a self-check on every error a request returns"),
 "C18": dict(
  text="Lean 4 theorems: CONNACK decision table for every reply (accepted iff 20 02 00 00, or 20 02 01 00 without clean session; return code "
       "checked before flags; wrong header, reserved flags, session-present on clean session are resets; short replies never connect), the "
       "CONNECT flags byte carries clean-session exactly for cfg.cleanSession && no earlier connection, lockWrite table (wait on pending, "
       "ErrDown on down). Connect histories incl. a sweep over flag bytes x return codes on first connect and reconnect run against the real client.",
  design="6/C18", technique="Lean 4 proof (decision tables) + differential correspondence incl. CONNACK sweep",
  note="partial: 'resend precedes any new request' under concurrent writers is the Sync model's token invariant; sequentially it is compared on the wire"),
 "C01": dict(
  text="Lean 4 theorems over the outbound core (Model.Core: counters, queues, store; every Persistence fault an argument of an operation): "
       "for every operation sequence the record of each accepted message is in the store at the right stage until its in-order final "
       "acknowledgement (C01_record_until_final_ack), a record leaves the store only through that acknowledgement (C01_delete_only_by_final_ack), "
       "the exchange is popped only in the deleting step, and from every reachable state the conforming broker's acknowledgements drain "
       "everything (C01_drain, liveness as a terminating function). Model.Session performs exactly these operations; it is run against the real "
       "client on random fault histories each ending in a drain epilogue, with monitors judging the implementation's own trace.",
  design="6/C01", technique="Lean 4 proof (invariants by induction over operation lists) + differential correspondence with drain epilogue",
  note="Lean kernel; axioms propext, Classical.choice, Quot.sound; A-store, A-conn; publisher/reader interleavings inside one operation belong to the Sync model"),
 "C02": dict(
  text="Lean 4 theorems: counter reconstruction is exact for every true in-flight window incl. 14-bit wrap-around, only-PUBREL and "
       "full-window cases (C02_recon_exact, the arithmetic that exposed F19/F23), true windows pass cleanSequence and the gap rule silently, "
       "the adopted client continues the identifier sequence, and any adopted client satisfies the core invariant again so every number of "
       "stop/adopt cycles stays inside the proven state space (C02_generations via C16_adopt_inv). The classification/sort of listed records "
       "is tied by correspondence: stop/adopt at random operation boundaries, multi-generation, pending set compared with the store snapshot.",
  design="6/C02", technique="Lean 4 proof (modular arithmetic, list induction) + differential correspondence over stop/adopt histories",
  note="partial: C02_recon_exact assumes the cleaned lists are the true windows; that the store-to-lists step yields them is covered by the correspondence only"),
 "C03": dict(
  text="Lean 4 theorems: recording a PUBREC overwrites the PUBLISH record with the PUBREL before the counter moves; in every reachable state "
       "each exactly-once transfer between PUBREC and PUBCOMP holds exactly the PUBREL (so no reconnect or restart can load a PUBLISH for it), "
       "acknowledgements are applied in order only, identifiers are not reused before PUBCOMP (also across the wrap), and the reference broker "
       "forwards retransmissions once. The implementation's wire is judged by a reference broker on every run.",
  design="6/C03", technique="Lean 4 proof (store-stage invariant over operation lists) + differential correspondence + reference-broker monitor",
  note="broker is the reference model of MQTT 3.1.1 4.3.3; A-store, A-conn"),
 "C05": dict(
  text="Lean 4 theorems: identifier follows the acceptance counter, a first transmission never carries DUP in any reachable state, a completely "
       "written PUBLISH is DUP on every later transmission, backlog is reported so later publishes queue behind it, adopted transfers all count as "
       "submitted. Wire order and DUP flags of the real client are judged on random histories with partial first writes.",
  design="6/C05", technique="Lean 4 proof (counter invariants) + differential correspondence + wire-order monitor",
  note="partial: concurrent publishers (sequence-token exclusion) are covered by the Sync model / not by these theorems"),
 "C16": dict(
  text="Lean 4 theorem C16_adopt_inv: for ANY store (arbitrary keys and bytes) AdoptSession's reconstructed counters satisfy the client "
       "invariant whenever it does not refuse on limits - cleanSequence always returns a contiguous run, the PUBREL/PUBLISH gap rule really "
       "drops, windows equal list lengths - hence resend never spans a hole and new publishes cannot collide. Damage scripts (alter, truncate, "
       "remove, stray) before AdoptSession are run against the real code with a drain epilogue.",
  design="6/C16", technique="Lean 4 proof (total function on arbitrary stores) + differential correspondence over damaged stores",
  note="partial: receive-side damage (inbound markers, client identifier record, F15) is not repaired and not claimed; NoForgery assumed"),
 "C17": dict(
  text="Lean 4 theorems: invariant of the core over every operation sequence gives in-flight count <= normalised limit <= 2^14, pairwise "
       "distinct non-zero identifiers inside each level's range (wrap-around lemma), disjoint spaces (decide on regenerated constants), ErrMax "
       "exactly when the queue is full with nothing consumed, zero disables a level, fresh identifier never in use. Random histories with "
       "limits in {0,1,2,3,4,8,-1,16384,20000} are run against the real client.",
  design="6/C17", technique="Lean 4 proof (invariant + modular arithmetic) + differential correspondence",
  note="A-ovf (2^64 publishes); the subscribe/unsubscribe slot window is modelled in Session: distinctness and totality of the identifier search are C11_startTx_fresh and C11_startTx_total, and the identifiers on the wire are judged by mon_unordered_ids"),
 "C08": dict(
  text="Lean 4 theorems: for every packet, every split into buffers and every sequence of Write outcomes (short writes, deadline expiries "
       "with and without progress, hard and closed errors) the bytes writeTo/writeBuffersTo put on a connection are a prefix of the packet and "
       "the whole packet whenever success is reported; a connection used by consecutive writes that stops at the first failure carries complete "
       "packets followed by at most one incomplete one (C08_connection_whole_packets). net.Buffers.WriteTo/consume is modelled as the stdlib "
       "implements it. The model is run against the real writeTo/writeBuffersTo on exhaustive small-packet policies on every run; the "
       "implementation's own output is also judged directly (prefix / success-means-complete). The clause over concurrent submitters is "
       "carried by the Sync model (write-lock token invariant).",
  design="6/C08", technique="Lean 4 proof (induction over retry fuel and buffer vectors) + differential correspondence over exhaustive write policies",
  note="Lean kernel; axioms propext, Quot.sound; A-conn (Write accepts a prefix); vectored kernel writes not modelled"),
 "C09": dict(
  text="Lean 4 theorems: the remaining-length encoding is decoded exactly in <= 4 bytes for every size up to 2^28-1; every PUBLISH (all levels, retain, any accepted topic, any payload within the limit), every SUBSCRIBE and UNSUBSCRIBE (any accepted filter list, any maximum level), every CONNECT (any valid Config: will, user name, password, keep-alive, clean session) the client composes and the four acknowledgements decode through an independently written reference decoder to exactly the requested fields; the deny decision of stringCheck/topicCheck/publish/subscribe/unsubscribe is characterised declaratively in both directions (no valid argument refused). Model tied to the source by regenerated constants and by running stringCheck, publishPacket, Config.valid and newCONNREQ of the real package against the model and decoding every emitted packet with the Lean decoder.",
  design="6/C09", technique="Lean 4 proof (round-trip laws, decision logic) + differential correspondence + reference decoder on emitted bytes",
  note="Lean kernel; axioms propext, Classical.choice, Quot.sound; utf8.ValidString modelled (compared every run); denied requests are also checked on the real client to leave no trace (no write, no record, no transaction slot)"),
 "C15": dict(
  text="Lean 4 theorems over the model of encodeValue/decodeValue (FNV-1a over BitVec 32): exact round-trip for every packet and "
       "every 64-bit sequence number, documented layout, rejection of every value shorter than 12 bytes, and detection of every "
       "single-byte change (all positions x all 255 other values) by per-byte bijectivity of the FNV step. The model is tied to "
       "mqtt.go on every run by regenerated facts (hash constructor, byte orders, length guard, re-proved by decide) and by "
       "executing the real functions and the model on the same inputs incl. exhaustive single-byte damage of sampled records.",
  design="6/C15", technique="Lean 4 proof (induction over bytes, BitVec 32 arithmetic) + differential correspondence",
  note="Lean kernel; axioms propext, Quot.sound; extractor; harness/driver protocol; multi-byte damage measured not claimed"),
}

def main():
    checks = []
    for pid in ALL:
        if pid not in CLAIMED:
            continue
        c = CLAIMED[pid]
        checks.append({
            "property_id": pid,
            "quick_cmd": "./check %s --tier quick" % pid,
            "thorough_cmd": "./check %s --tier thorough" % pid,
            "evidence_file": "/verif/evidence/%s.json" % pid,
            "replay_cmd_template": "./check %s --replay {path}" % pid,
            "engine": "lean+harness",
            "level_claimed": {"category": c.get("category", "proof"), "text": c["text"], "design_ref": c["design"]},
            "level_note": c["note"],
            "technique": c["technique"],
        })
    m = {
        "version": 1,
        "setup_cmd": "./setup.sh",
        "hooks": {
            "guard": "verif",
            "enable": "go build -tags verif (harness module with replace github.com/pascaldekloe/mqtt => /repo)",
            "baseline_off_cmd": "cd /repo && go build ./... && go test -vet=off -count=1 -timeout 25m ./...",
            "source_commits": json.load(open(os.path.join(ROOT, "tools", "hook_commits.json"))),
            "add_only": True,
        },
        "engines": [
            {"name": "lean", "path": "/verif/lean", "serves_properties": sorted(CLAIMED), "kind_free_text": "Lean 4 model, theorems (Props/), compiled model driver"},
            {"name": "harness", "path": "/verif/harness", "serves_properties": sorted(CLAIMED), "kind_free_text": "Go harness running the real package in-process on operation scripts"},
            {"name": "extract", "path": "/verif/tools/extract", "serves_properties": sorted(CLAIMED), "kind_free_text": "go/ast+go/types fact extractor regenerating lean/Generated/Facts.lean"},
        ],
        "checks": checks,
        "notes": "Technique family: machine-checked proof in Lean 4. See DESIGN.md.",
        "not_applicable": [{"property_id": p, "reason": NA.get(p, "check under construction in this round; not claimed yet")}
                           for p in ALL if p not in CLAIMED],
    }
    json.dump(m, open(os.path.join(ROOT, "MANIFEST.json"), "w"), indent=1)

NA = {}
if __name__ == "__main__":
    main()
