import sys, random, time, json
sys.path.insert(0,'/verif')
from checklib import common as C, sess
from checklib.sessgen import Gen
seed=int(sys.argv[1]); n=int(sys.argv[2])
prof=json.loads(sys.argv[3]) if len(sys.argv)>3 else None
ctx=C.Ctx("C01","quick",seed)
C.build(ctx,[])
g=Gen(random.Random(seed),prof)
scripts=[g.script() for _ in range(n)]
t=time.time()
res=sess.run_session(ctx,scripts,timeout=300)
print("time %.1f"%(time.time()-t))
nd=0;nu=0
kinds={}
for sc,(i,m) in zip(scripts,res):
    if sess.unsupported(m): nu+=1; continue
    d=C.first_diff(i,m)
    if d:
        nd+=1
        key=(d[1][:40],d[2][:40])
        kinds[key]=kinds.get(key,0)+1
        if nd<=int(sys.argv[4]) if len(sys.argv)>4 else nd<=5:
            print("=== DIFF at line",d[0],"impl:",d[1][:150],"| model:",d[2][:150])
            open('/verif/.work/diff%d.ops'%nd,'w').write("\n".join(sc)+"\n")
print("diffs",nd,"unsupported",nu,"of",len(scripts))
for k,v in sorted(kinds.items(),key=lambda x:-x[1])[:15]: print(v,k)
ctx.cleanup()
