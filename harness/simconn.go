package main

import (
	"errors"
	"net"
	"strings"
	"time"
)

type timeoutErr struct{}

func (timeoutErr) Error() string   { return "sim: i/o timeout" }
func (timeoutErr) Timeout() bool   { return true }
func (timeoutErr) Temporary() bool { return true }

var errHard = errors.New("sim: hard connection error")

// wpol is one scripted Write outcome.
type wpol struct {
	accept int
	out    string // ok | timeout | hard | closed
}

// parsePolicy parses "ok,t3,e2,c0" ("-" for none).
func parsePolicy(s string) []wpol {
	var out []wpol
	if s == "-" || s == "" {
		return out
	}
	for _, e := range strings.Split(s, ",") {
		switch e[0] {
		case 'o':
			out = append(out, wpol{0, "ok"})
		case 't':
			out = append(out, wpol{atoi(e[1:]), "timeout"})
		case 'e':
			out = append(out, wpol{atoi(e[1:]), "hard"})
		case 'c':
			out = append(out, wpol{atoi(e[1:]), "closed"})
		case 'g':
			out = append(out, wpol{0, "gate"})
		default:
			panic("harness: bad policy " + e)
		}
	}
	return out
}

// policyConn is a write-only net.Conn for the write-loop port.
type policyConn struct {
	policy []wpol
	log    []byte
	writes int
}

func (c *policyConn) Write(p []byte) (int, error) {
	c.writes++
	if len(p) == 0 {
		return 0, nil // writing nothing succeeds and tells nothing about the connection
	}
	if len(c.policy) == 0 {
		c.log = append(c.log, p...)
		return len(p), nil
	}
	e := c.policy[0]
	c.policy = c.policy[1:]
	if e.out == "ok" {
		c.log = append(c.log, p...)
		return len(p), nil
	}
	// A-conn: a Write that reports an error accepted fewer bytes than it was given
	n := e.accept
	if n > len(p)-1 {
		n = len(p) - 1
	}
	c.log = append(c.log, p[:n]...)
	switch e.out {
	case "timeout":
		return n, timeoutErr{}
	case "closed":
		return n, net.ErrClosed
	}
	return n, errHard
}

func (c *policyConn) Read(b []byte) (int, error)       { select {} }
func (c *policyConn) Close() error                     { return nil }
func (c *policyConn) LocalAddr() net.Addr              { return nil }
func (c *policyConn) RemoteAddr() net.Addr             { return nil }
func (c *policyConn) SetDeadline(time.Time) error      { return nil }
func (c *policyConn) SetReadDeadline(time.Time) error  { return nil }
func (c *policyConn) SetWriteDeadline(time.Time) error { return nil }

func writeClass(err error) string {
	var ne net.Error
	switch {
	case err == nil:
		return "ok"
	case errors.As(err, &ne) && ne.Timeout():
		return "timeout"
	case errors.Is(err, net.ErrClosed):
		return "closed"
	}
	return "hard"
}
