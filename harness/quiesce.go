package main

import (
	"bytes"
	"runtime"
	"strings"
	"time"
)

var stackBuf = make([]byte, 4<<20)

// goroutineStates returns, for every goroutine except the caller, its wait
// state and whether its stack mentions lockWrite.
func goroutineStates() (allBlocked bool, inLockWrite bool) {
	n := runtime.Stack(stackBuf, true)
	allBlocked = true
	first := true
	for _, blk := range bytes.Split(stackBuf[:n], []byte("\n\n")) {
		if !bytes.HasPrefix(blk, []byte("goroutine ")) {
			continue
		}
		if first { // the calling goroutine is listed first
			first = false
			continue
		}
		i := bytes.IndexByte(blk, '[')
		j := bytes.IndexByte(blk, ']')
		if i < 0 || j < i {
			continue
		}
		state := string(blk[i+1 : j])
		if k := strings.IndexByte(state, ','); k >= 0 {
			state = state[:k]
		}
		switch state {
		case "chan receive", "chan send", "select", "select (no cases)", "semacquire", "sync.Mutex.Lock",
			"sync.RWMutex.Lock", "sync.RWMutex.RLock", "sync.Cond.Wait", "sync.WaitGroup.Wait", "IO wait",
			"sleep", "chan receive (nil chan)", "chan send (nil chan)", "finalizer wait", "GC worker (idle)":
			if state == "semacquire" && !bytes.Contains(blk, []byte("sync.")) {
				// runtime-internal wait (stop-the-world, GC start): the goroutine is on its way
				allBlocked = false
			}
			if bytes.Contains(blk, []byte(".lockWrite(")) {
				inLockWrite = true
			}
		default:
			// lockWrite polls (busily, while the Online signal is stale) until the read
			// routine has dealt with the connection: a request in there is waiting
			if bytes.Contains(blk, []byte(".lockWrite(")) {
				inLockWrite = true
			} else {
				allBlocked = false
			}
		}
	}
	return
}

// spinning is set when some goroutine never came to rest (busy loop).
var spinning bool

// quiesce waits until every other goroutine is blocked or gone.
func quiesce() (inLockWrite bool) {
	deadline := time.Now().Add(4 * time.Second)
	pause := 20 * time.Microsecond
	for {
		runtime.Gosched()
		ok, lw := goroutineStates()
		if ok {
			// sample again after a pause: a goroutine may have been caught in a transient wait
			time.Sleep(100 * time.Microsecond)
			runtime.Gosched()
			ok2, lw2 := goroutineStates()
			if ok2 {
				return lw || lw2
			}
		}
		if time.Now().After(deadline) {
			spinning = true
			return lw
		}
		time.Sleep(pause)
		if pause < time.Millisecond {
			pause *= 2
		}
	}
}
