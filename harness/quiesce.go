package main

import (
	"bytes"
	"runtime"
	"strings"
	"time"
)

var stackBuf = make([]byte, 4<<20)

// goroutineStates returns, for every goroutine except the caller, its wait
// state and whether its stack mentions lockWrite.
func goroutineStates() (allBlocked bool, inLockWrite bool) {
	n := runtime.Stack(stackBuf, true)
	allBlocked = true
	first := true
	for _, blk := range bytes.Split(stackBuf[:n], []byte("\n\n")) {
		if !bytes.HasPrefix(blk, []byte("goroutine ")) {
			continue
		}
		if first { // the calling goroutine is listed first
			first = false
			continue
		}
		i := bytes.IndexByte(blk, '[')
		j := bytes.IndexByte(blk, ']')
		if i < 0 || j < i {
			continue
		}
		state := string(blk[i+1 : j])
		if k := strings.IndexByte(state, ','); k >= 0 {
			state = state[:k]
		}
		switch state {
		case "chan receive", "chan send", "select", "select (no cases)", "semacquire", "sync.Mutex.Lock",
			"sync.RWMutex.Lock", "sync.RWMutex.RLock", "sync.Cond.Wait", "sync.WaitGroup.Wait", "IO wait",
			"sleep", "chan receive (nil chan)", "chan send (nil chan)", "finalizer wait", "GC worker (idle)":
			if bytes.Contains(blk, []byte(".lockWrite(")) {
				inLockWrite = true
			}
		default:
			allBlocked = false
		}
	}
	return
}

// spinning is set when some goroutine never came to rest (busy loop).
var spinning bool

// quiesce waits until every other goroutine is blocked or gone.
func quiesce() (inLockWrite bool) {
	deadline := time.Now().Add(1500 * time.Millisecond)
	pause := 20 * time.Microsecond
	for {
		runtime.Gosched()
		ok, lw := goroutineStates()
		if ok {
			return lw
		}
		if time.Now().After(deadline) {
			spinning = true
			return lw
		}
		time.Sleep(pause)
		if pause < time.Millisecond {
			pause *= 2
		}
	}
}
