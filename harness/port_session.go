package main

import (
	"context"
	"errors"
	"fmt"
	"io"
	"net"
	"sort"
	"strings"
	"time"

	"github.com/pascaldekloe/mqtt"
)

type dialPlan struct {
	block  bool
	ok     bool
	reply  []byte
	policy []wpol
}

type asyncCall struct {
	tag      string
	quit     chan struct{}
	done     chan error // buffered 1
	over     bool
	reported bool
	closer   bool // Close / Disconnect: reported as "close ok" / "disconnect <class>" when it returns within its own operation
	fresh    bool
	quitted  bool // quit was closed already
}

type exchange struct {
	id   int
	ch   <-chan error
	over bool
}

// sessionPort drives one real *mqtt.Client sequentially.
type sessionPort struct {
	rwait     []time.Duration // ReconnectWaitMin, ReconnectWaitMax (rwait op)
	cfgx      []string        // the rest of the Config (cfgx op)
	log       *eventLog
	store     *simStore
	client    *mqtt.Client
	dials     []dialPlan
	prefeed   []chunk
	conns     []*simConn
	cur       *simConn
	calls     []*asyncCall
	exch      []*exchange
	nextEx    int
	reader    chan rsResult // non-nil while a ReadSlices call is outstanding
	lastRsErr error         // what the last ReadSlices returned, for ReadBackoff
	holdEx    bool          // exchange channels are not read for now
	slowPub   chan []string // result of the persisted publish parked in a gated Save
	slowName  string
	strict    bool // deadline calls fail on closed connections
	lastBig   *mqtt.BigMessage
	oldBuf    int
	gen       int
	dead      string
}

type rsResult struct {
	message, topic []byte
	err            error
}

func init() {
	ports["session"] = func() port {
		log := &eventLog{}
		return &sessionPort{log: log, store: newSimStore(log), oldBuf: -1}
	}
}

func (p *sessionPort) close() {
	if p.client != nil {
		cl := p.client
		closed := make(chan struct{})
		go func() { cl.Close(); close(closed) }()
		select {
		case <-closed:
		case <-time.After(2 * time.Second):
		}
		// release a reader that is still inside ReadSlices
		if p.reader != nil {
			select {
			case <-p.reader:
			case <-time.After(2 * time.Second):
			}
		}
	}
	for _, c := range p.calls {
		if !c.over && !c.quitted {
			c.quitted = true
			close(c.quit)
		}
	}
	if p.oldBuf >= 0 {
		mqtt.VerifSetReadBufSize(p.oldBuf)
	}
	quiesceSoft()
}

func quiesceSoft() {
	defer func() { recover() }()
	quiesce()
}

var errDeadGeneration = errors.New("sim: process of this client generation has stopped")

// genStore gives each client generation its own handle on the store; after a
// simulated process stop the old generation can no longer touch it.
type genStore struct {
	p   *sessionPort
	gen int
}

func (g genStore) Load(key uint) ([]byte, error) {
	if g.p.gen != g.gen {
		return nil, errDeadGeneration
	}
	return g.p.store.Load(key)
}
func (g genStore) Save(key uint, v net.Buffers) error {
	if g.p.gen != g.gen {
		return errDeadGeneration
	}
	return g.p.store.Save(key, v)
}
func (g genStore) Delete(key uint) error {
	if g.p.gen != g.gen {
		return errDeadGeneration
	}
	return g.p.store.Delete(key)
}
func (g genStore) List() ([]uint, error) {
	if g.p.gen != g.gen {
		return nil, errDeadGeneration
	}
	return g.p.store.List()
}

func (p *sessionPort) dialerFor(gen int) mqtt.Dialer {
	return func(ctx context.Context) (net.Conn, error) {
		if p.gen != gen {
			return nil, errDeadGeneration
		}
		return p.dialer(ctx)
	}
}

func (p *sessionPort) dialer(ctx context.Context) (net.Conn, error) {
	plan := dialPlan{ok: true, reply: []byte{0x20, 2, 0, 0}}
	if len(p.dials) > 0 {
		plan = p.dials[0]
		p.dials = p.dials[1:]
	}
	if plan.block {
		if _, ok := ctx.Deadline(); !ok {
			// PauseTimeout is configured: a dial that gets no answer must end with it
			p.log.add("ev stall dial unarmed")
		}
		<-ctx.Done()
		return nil, ctx.Err()
	}
	if !plan.ok {
		p.log.add("ev dial fail")
		return nil, errHard
	}
	c := newSimConn(len(p.conns), p.log)
	if len(plan.reply) > 0 {
		c.inq = append(c.inq, chunk{"data", plan.reply})
	}
	c.inq = append(c.inq, p.prefeed...)
	p.prefeed = nil
	c.policy = plan.policy
	p.conns = append(p.conns, c)
	p.cur = c
	p.log.add("ev dial ok")
	return c, nil
}

func (p *sessionPort) config(clean string, m1, m2 string) *mqtt.Config {
	c := p.baseConfig(clean, m1, m2)
	if p.rwait != nil {
		c.ReconnectWaitMin, c.ReconnectWaitMax = p.rwait[0], p.rwait[1]
	}
	if x := p.cfgx; x != nil {
		c.KeepAlive = uint16(atoi(x[1]))
		c.UserName = string(unhex(x[2]))
		if x[3] != "nil" {
			c.Password = unhex(x[3])
			if c.Password == nil {
				c.Password = []byte{}
			}
		}
		c.Will.Topic = string(unhex(x[4]))
		if x[5] != "nil" {
			c.Will.Message = unhex(x[5])
			if c.Will.Message == nil {
				c.Will.Message = []byte{}
			}
		}
		c.Will.Retain, c.Will.AtLeastOnce, c.Will.ExactlyOnce = x[6] == "1", x[7] == "1", x[8] == "1"
	}
	return c
}

func (p *sessionPort) baseConfig(clean string, m1, m2 string) *mqtt.Config {
	return &mqtt.Config{
		Dialer:       p.dialerFor(p.gen),
		PauseTimeout: time.Hour,
		// ReadBackoff is observed, never waited for
		ReconnectWaitMin: 3 * time.Second,
		ReconnectWaitMax: 20 * time.Second,
		CleanSession:     clean == "1",
		AtLeastOnceMax:   atoi(m1),
		ExactlyOnceMax:   atoi(m2),
	}
}

// classOf canonicalises an error into sorted tags; texts are never compared.
func classOf(err error) string {
	if err == nil {
		return "ok"
	}
	var tags []string
	add := func(t string) { tags = append(tags, t) }
	is := func(target error, t string) {
		if errors.Is(err, target) {
			add(t)
		}
	}
	is(mqtt.ErrClosed, "closed")
	is(mqtt.ErrDown, "down")
	is(mqtt.ErrMax, "max")
	is(mqtt.ErrCanceled, "canceled")
	is(mqtt.ErrAbandoned, "abandoned")
	is(mqtt.ErrSubmit, "submit")
	is(mqtt.ErrBreak, "break")
	if mqtt.IsDeny(err) {
		add("deny")
	}
	is(mqtt.VerifErrors()["errProtoReset"], "reset")
	is(io.EOF, "eof")
	is(io.ErrUnexpectedEOF, "ueof")
	is(errHard, "hard")
	is(net.ErrClosed, "netclosed")
	is(errStore, "store")
	var ne net.Error
	if errors.As(err, &ne) && ne.Timeout() {
		add("timeout")
	}
	if mqtt.IsConnectionRefused(err) {
		code := "x"
		for i, e := range []error{mqtt.ErrProtocolLevel, mqtt.ErrClientID, mqtt.ErrUnavailable, mqtt.ErrAuthBad, mqtt.ErrAuth} {
			if errors.Is(err, e) {
				code = fmt.Sprint(i + 1)
			}
		}
		add("refused:" + code)
	}
	var se mqtt.SubscribeError
	if errors.As(err, &se) {
		var hs []string
		for _, f := range se {
			hs = append(hs, hexs([]byte(f)))
		}
		add("suberr:" + strings.Join(hs, ","))
	}
	if strings.Contains(err.Error(), "persisted value corrupt") || strings.Contains(err.Error(), "persisted value truncated") {
		add("corrupt")
	}
	if len(tags) == 0 {
		return "other"
	}
	sort.Strings(tags)
	return strings.Join(tags, "+")
}

// flush drains the event log (merging consecutive writes per connection),
// then reports exchange deliveries and finished calls.
func (p *sessionPort) flush(result []string, extraWaitForTicker bool) []string {
	out, late := p.flushParts(extraWaitForTicker)
	return append(append(out, result...), late...)
}

// flushParts returns the event lines and, separately, a late reader result.
func (p *sessionPort) flushParts(extraWaitForTicker bool) ([]string, []string) {
	lw := quiesce()
	if extraWaitForTicker {
		// a request inside lockWrite polls every 20 ms: give it its tick (and, on a loaded machine, a second and a third one)
		for round := 0; lw && round < 3; round++ {
			time.Sleep(30 * time.Millisecond)
			lw = quiesce()
		}
	}
	var out []string
	if spinning {
		spinning = false
		out = append(out, "spin")
	}
	for _, l := range p.log.take() {
		if strings.HasPrefix(l, "ev w ") && len(out) > 0 && strings.HasPrefix(out[len(out)-1], "ev w ") {
			a, b := strings.Fields(out[len(out)-1]), strings.Fields(l)
			if a[2] == b[2] {
				out[len(out)-1] = a[0] + " " + a[1] + " " + a[2] + " " + a[3] + b[3]
				continue
			}
		}
		out = append(out, l)
	}
	for _, e := range p.exch {
		for !e.over && !p.holdEx {
			select {
			case err, ok := <-e.ch:
				if !ok {
					out = append(out, fmt.Sprintf("exchclose %d", e.id))
					e.over = true
				} else {
					out = append(out, fmt.Sprintf("exch %d %s", e.id, classOf(err)))
				}
				continue
			default:
			}
			break
		}
	}
	var rets, closerLines []string
	for _, c := range p.calls {
		if c.over {
			continue
		}
		select {
		case err := <-c.done:
			c.over = true
			switch {
			case c.closer && !c.reported && c.tag == "close":
				closerLines = append(closerLines, "close ok")
			case c.closer && !c.reported:
				closerLines = append(closerLines, "disconnect "+classOf(err))
			case c.closer && c.tag == "close":
				rets = append(rets, "ret close ok")
			default:
				rets = append(rets, fmt.Sprintf("ret %s %s", c.tag, classOf(err)))
			}
			if err != nil && p.client != nil && !errors.Is(err, mqtt.ErrMax) { // (ErrMax starts a shared timer: left alone)
				// Backoff is nil exactly for the permanent classes (what IsDeny and IsEnd tell, and a SubscribeError)
				var se mqtt.SubscribeError
				permanent := mqtt.IsDeny(err) || mqtt.IsEnd(err) || errors.As(err, &se)
				if (p.client.Backoff(err) == nil) != permanent {
					rets = append(rets, fmt.Sprintf("ev backoff-mismatch %s permanent=%v", classOf(err), permanent))
				}
			}
		default:
			c.reported = true // did not return within the operation that started it
		}
	}
	sort.Strings(rets)
	out = append(out, rets...)
	out = append(out, closerLines...)
	var late []string
	// a reader call that finished during another operation
	if p.reader != nil {
		select {
		case r := <-p.reader:
			p.reader = nil
			late = append(late, p.rsLine(r))
		default:
		}
	}
	return out, late
}

func (p *sessionPort) rsLine(r rsResult) string {
	var big *mqtt.BigMessage
	p.lastRsErr = r.err
	switch {
	case r.err == nil:
		return fmt.Sprintf("rs msg %s %s", hexs(r.topic), hexs(r.message))
	case errors.As(r.err, &big):
		p.lastBig = big
		return fmt.Sprintf("rs big %s %d", hexs([]byte(big.Topic)), big.Size)
	}
	return "rs err " + classOf(r.err)
}

// blocking runs a client call that is expected to return; when it does not
// (every goroutine at rest and the call still outstanding) the session is
// marked dead and the hang is the observation.
func (p *sessionPort) blocking(name string, f func() []string, ticker bool) []string {
	done := make(chan []string, 1)
	go func() { done <- f() }()
	out, late := p.flushParts(ticker)
	select {
	case res := <-done:
		// the events of the call were flushed above; add its result lines
		return append(append(out, res...), late...)
	default:
	}
	// give timers one more chance
	time.Sleep(50 * time.Millisecond)
	out2, late2 := p.flushParts(false)
	out, late = append(out, out2...), append(late, late2...)
	select {
	case res := <-done:
		return append(append(out, res...), late...)
	default:
	}
	p.dead = name
	if name == "readall" && p.cur != nil && p.cur.stalled() {
		// the broker stalls inside the payload; whether the client could be woken is in the `ev stall` line
		return append(append(out, "readall parked"), late...)
	}
	if name != "close" && p.atGate() {
		// another goroutine is stalled inside conn.Write by the script (no deadline applies) and holds the lock this call
		// waits for: the call is not stuck by itself. Close never waits for that: it interrupts the write.
		return append(append(out, "stalled "+name), late...)
	}
	return append(append(out, "hang "+name), late...)
}

// atGate tells whether a Write of any connection waits at a scripted gate.
func (p *sessionPort) atGate() bool {
	for _, c := range p.conns {
		c.mu.Lock()
		g := c.atGate
		c.mu.Unlock()
		if g {
			return true
		}
	}
	return false
}

func (p *sessionPort) startCall(tag string, f func(quit <-chan struct{}) error) []string {
	c := &asyncCall{tag: tag, quit: make(chan struct{}), done: make(chan error, 1)}
	p.calls = append(p.calls, c)
	go func() { c.done <- f(c.quit) }()
	out := p.flush(nil, false)
	if !c.over {
		out = append(out, "blocked "+tag)
	}
	return out
}

func parseFilterList(s string) []string {
	if s == "none" {
		return nil
	}
	var out []string
	for _, h := range strings.Split(s, ",") {
		out = append(out, string(unhex(h)))
	}
	return out
}

func (p *sessionPort) exec(f []string) []string {
	if p.dead != "" {
		return []string{"dead after " + p.dead + " did not return"}
	}
	if p.client == nil {
		switch f[0] {
		case "rs", "readall", "pal", "peo", "call", "quit", "close", "disconnect", "counters", "txn", "backoff", "sig":
			return []string{"noclient"}
		}
	}
	switch f[0] {
	case "bufsize":
		old := mqtt.VerifSetReadBufSize(atoi(f[1]))
		if p.oldBuf < 0 {
			p.oldBuf = old
		}
		return nil
	case "vinit": // VolatileSession: the package's own store; no persistence events are visible
		return p.blocking("init", func() []string {
			c, err := mqtt.VolatileSession(string(unhex(f[1])), p.config(f[2], f[3], f[4]))
			if err != nil {
				return []string{"init err " + classOf(err)}
			}
			p.client = c
			return []string{"init ok"}
		}, false)
	case "rwait": // rwait <min-ns> <max-ns>: ReconnectWaitMin and ReconnectWaitMax of the Config for the sessions that follow
		p.rwait = []time.Duration{time.Duration(atoi(f[1])), time.Duration(atoi(f[2]))}
		return nil
	case "cfgx": // cfgx <keepalive> <user> <pass|nil> <willtopic> <willmsg|nil> <retain> <alo> <eo>: the rest of the Config for the sessions that follow
		p.cfgx = f
		return nil
	case "initx": // initx <cid> <variant>: InitSession with a Config that must be refused without a trace in the store
		cfg := p.config("0", "4", "4")
		switch f[2] {
		case "nuluser":
			cfg.UserName = "a\x00b"
		case "baduser":
			cfg.UserName = "\xff\xfe"
		case "bigpass":
			cfg.Password = make([]byte, 65536)
		case "willnotopic":
			cfg.Will.Message = []byte("m")
		case "badwilltopic":
			cfg.Will.Topic, cfg.Will.Message = "a\x00", []byte("m")
		case "bigwill":
			cfg.Will.Topic, cfg.Will.Message = "w", make([]byte, 65536)
		case "nodialer":
			cfg.Dialer = nil
		}
		return p.blocking("init", func() []string {
			c, err := mqtt.InitSession(string(unhex(f[1])), genStore{p, p.gen}, cfg)
			if err != nil {
				return []string{"init err " + classOf(err)}
			}
			p.client = c
			return []string{"init ok"}
		}, false)
	case "init":
		return p.blocking("init", func() []string {
			c, err := mqtt.InitSession(string(unhex(f[1])), genStore{p, p.gen}, p.config(f[2], f[3], f[4]))
			if err != nil {
				return []string{"init err " + classOf(err)}
			}
			p.client = c
			return []string{"init ok"}
		}, false)
	case "adopt":
		// the previous client is abandoned (process stop): its goroutines, if any, stay parked
		p.abandon()
		return p.blocking("adopt", func() []string {
			c, warn, err := mqtt.AdoptSession(genStore{p, p.gen}, p.config(f[1], f[2], f[3]))
			if err != nil {
				p.client = nil
				return []string{"adopt fatal " + classOf(err)}
			}
			p.client = c
			return []string{"adopt ok " + warnClasses(warn)}
		}, false)
	case "dial":
		if f[1] == "fail" {
			p.dials = append(p.dials, dialPlan{ok: false})
			return nil
		}
		if f[1] == "block" {
			p.dials = append(p.dials, dialPlan{ok: true, block: true})
			return nil
		}
		pl := dialPlan{ok: true, reply: unhex(f[2])}
		if len(f) > 3 {
			pl.policy = parsePolicy(f[3])
		}
		p.dials = append(p.dials, pl)
		return nil
	case "wpol":
		if p.cur != nil {
			p.cur.mu.Lock()
			p.cur.policy = parsePolicy(f[1])
			p.cur.mu.Unlock()
		}
		return nil
	case "cpol": // cpol g : Close of the current connection takes effect only at `cgo`; cpol e : Close reports an error
		if p.cur != nil {
			p.cur.mu.Lock()
			p.cur.closeGate = f[1] == "g"
			p.cur.closeErr = f[1] == "e"
			p.cur.mu.Unlock()
		}
		return nil
	case "cgo":
		for _, c := range p.conns {
			c.mu.Lock()
			c.closeGate = false
			c.cond.Broadcast()
			c.mu.Unlock()
		}
		return p.flush(nil, true)
	case "mstate":
		return []string{"mstate"}
	case "brk":
		// the broker closes the connection now (no-op without a live one) and forgets what it had queued
		p.prefeed = nil
		p.dials = nil
		p.store.fSave, p.store.fDel, p.store.fLoad = false, false, false
		if p.cur != nil && !p.cur.isClosed() {
			p.cur.feed(chunk{kind: "eof"})
			return p.flush(nil, true)
		}
		return nil
	case "alias":
		p.store.alias = true
		return nil
	case "sfail":
		p.store.fSave = true
		return nil
	case "dfail":
		p.store.fDel = true
		return nil
	case "lfail":
		p.store.fLoad = true
		return nil
	case "feed", "feedtmo", "feederr", "feedeof", "feedblock":
		// feed <chunk>...: each chunk is hex data or one of tmo, err, eof, block
		args := f[1:]
		switch f[0] {
		case "feedtmo":
			args = []string{"tmo"}
		case "feederr":
			args = []string{"err"}
		case "feedeof":
			args = []string{"eof"}
		case "feedblock":
			args = []string{"block"}
		}
		var cs []chunk
		for _, a := range args {
			switch a {
			case "tmo":
				cs = append(cs, chunk{kind: "timeout"})
			case "err":
				cs = append(cs, chunk{kind: "hard"})
			case "eof":
				cs = append(cs, chunk{kind: "eof"})
			case "block":
				cs = append(cs, chunk{kind: "block"})
			default:
				if d := unhex(a); len(d) > 0 {
					cs = append(cs, chunk{"data", d})
				}
			}
		}
		if len(cs) == 0 {
			return nil
		}
		if p.cur != nil && !p.cur.isClosed() {
			p.cur.feed(cs...)
			return p.flush(nil, true)
		}
		p.prefeed = append(p.prefeed, cs...)
		return nil
	case "rs":
		if p.reader == nil {
			ch := make(chan rsResult, 1)
			p.reader = ch
			cl := p.client
			go func() {
				m, t, err := cl.ReadSlices()
				ch <- rsResult{m, t, err}
			}()
		}
		out := p.flush(nil, true)
		if p.reader != nil {
			out = append(out, "rs parked")
		}
		return out
	case "readall":
		if p.lastBig == nil {
			return []string{"readall err other"}
		}
		big := p.lastBig
		return p.blocking("readall", func() []string {
			b, err := big.ReadAll()
			if err != nil {
				return []string{"readall err " + classOf(err)}
			}
			return []string{"readall ok " + hexs(b)}
		}, false)
	case "sgate": // the next Save parks inside the store until `sgo`
		p.store.mu.Lock()
		p.store.gate = true
		p.store.mu.Unlock()
		return nil
	case "sgo":
		p.store.mu.Lock()
		p.store.gate = false
		p.store.cond.Broadcast()
		p.store.mu.Unlock()
		out := p.flush(nil, true)
		if p.slowPub != nil {
			select {
			case res := <-p.slowPub:
				p.slowPub = nil
				out = append(out, res...)
			default:
				// the store let the Save through and every goroutine is at rest: the publish is stuck
				p.dead = "pal"
				if p.atGate() {
					// it went on into a conn.Write the script stalls: not stuck by itself
					out = append(out, "stalled "+p.slowName)
				} else {
					out = append(out, "hang "+p.slowName)
				}
			}
		}
		return out
	case "pal", "peo":
		topic, msg := string(unhex(f[2])), unhex(f[3])
		cl := p.client
		run := p.blocking
		p.store.mu.Lock()
		gated := p.store.gate
		p.store.mu.Unlock()
		if gated && p.slowPub == nil {
			// the call parks inside Persistence.Save, holding the sequence lock of its level
			run = func(name string, fn func() []string, _ bool) []string {
				ch := make(chan []string, 1)
				p.slowPub, p.slowName = ch, name
				go func() { ch <- fn() }()
				return append(p.flush(nil, false), "blocked "+name)
			}
		}
		return run(f[0], func() []string {
			var ch <-chan error
			var err error
			switch {
			case f[0] == "pal" && f[1] == "1":
				ch, err = cl.PublishAtLeastOnceRetained(msg, topic)
			case f[0] == "pal":
				ch, err = cl.PublishAtLeastOnce(msg, topic)
			case f[1] == "1":
				ch, err = cl.PublishExactlyOnceRetained(msg, topic)
			default:
				ch, err = cl.PublishExactlyOnce(msg, topic)
			}
			if err != nil {
				return []string{"pub err " + classOf(err)}
			}
			e := &exchange{id: p.nextEx, ch: ch}
			p.nextEx++
			p.exch = append(p.exch, e)
			var out []string
			return append(out, fmt.Sprintf("pub ok ex=%d", e.id))
		}, false)
	case "call":
		tag := f[1]
		cl := p.client
		switch f[2] {
		case "pub":
			topic, msg := string(unhex(f[4])), unhex(f[5])
			if f[3] == "1" {
				return p.startCall(tag, func(q <-chan struct{}) error { return cl.PublishRetained(q, msg, topic) })
			}
			return p.startCall(tag, func(q <-chan struct{}) error { return cl.Publish(q, msg, topic) })
		case "sub":
			fs := parseFilterList(f[4])
			switch f[3] {
			case "0":
				return p.startCall(tag, func(q <-chan struct{}) error { return cl.SubscribeLimitAtMostOnce(q, fs...) })
			case "1":
				return p.startCall(tag, func(q <-chan struct{}) error { return cl.SubscribeLimitAtLeastOnce(q, fs...) })
			}
			return p.startCall(tag, func(q <-chan struct{}) error { return cl.Subscribe(q, fs...) })
		case "subhuge", "unsubhuge": // call <tag> subhuge <n> <len>: n filters of len bytes each (one shared string)
			one := strings.Repeat("a", atoi(f[4]))
			fs := make([]string, atoi(f[3]))
			for i := range fs {
				fs[i] = one
			}
			if f[2] == "subhuge" {
				return p.startCall(tag, func(q <-chan struct{}) error { return cl.Subscribe(q, fs...) })
			}
			return p.startCall(tag, func(q <-chan struct{}) error { return cl.Unsubscribe(q, fs...) })
		case "unsub":
			fs := parseFilterList(f[3])
			return p.startCall(tag, func(q <-chan struct{}) error { return cl.Unsubscribe(q, fs...) })
		case "ping":
			return p.startCall(tag, func(q <-chan struct{}) error { return cl.Ping(q) })
		}
	case "quit":
		for _, c := range p.calls {
			if c.tag == f[1] && !c.over && !c.quitted {
				c.quitted = true
				close(c.quit)
				// lockWrite notices quit at a ticker round, and then only when the
				// select happens to pick it: wait for the return itself
				deadline := time.Now().Add(3 * time.Second)
				for len(c.done) == 0 && time.Now().Before(deadline) {
					time.Sleep(2 * time.Millisecond)
				}
				return p.flush(nil, false)
			}
		}
		return []string{"quit " + f[1] + " unknown"}
	case "close", "disconnect":
		cl := p.client
		name := f[0]
		c := &asyncCall{tag: name, quit: make(chan struct{}), done: make(chan error, 1), closer: true}
		p.calls = append(p.calls, c)
		go func() {
			switch {
			case name == "close":
				c.done <- cl.Close()
			case len(f) > 1 && f[1] == "quit":
				// the quit signal is there already: with the write lock held elsewhere only this branch can be taken
				q := make(chan struct{})
				close(q)
				c.done <- cl.Disconnect(q)
			default:
				c.done <- cl.Disconnect(nil)
			}
		}()
		out, late := p.flushParts(true)
		if !c.over {
			return append(append(out, "blocked "+name), late...)
		}
		return append(out, late...)
	case "wgo":
		if p.cur != nil {
			o := wpol{0, "ok"}
			if f[1] != "ok" {
				o = parsePolicy(f[1])[0]
			}
			p.cur.openGate(o)
		}
		return p.flush(nil, true)
	case "exhold": // the application stops reading its exchange channels
		p.holdEx = true
		return nil
	case "exread":
		p.holdEx = false
		return p.flush(nil, false)
	case "txn":
		mqtt.VerifSetUnorderedCounter(p.client, uint(atoi(f[1])))
		return nil
	case "backoff":
		if p.reader != nil {
			return []string{"backoff busy"}
		}
		idle := time.Duration(-1)
		mqtt.VerifBackoffObserver = func(d time.Duration) { idle = d }
		ch := p.client.ReadBackoff(p.lastRsErr)
		mqtt.VerifBackoffObserver = nil
		switch {
		case ch == nil:
			return []string{"backoff never"}
		case idle < 0:
			select {
			case <-ch:
				return []string{"backoff now"}
			default:
				return []string{"backoff unobserved"}
			}
		}
		return []string{fmt.Sprintf("backoff %dms", idle.Milliseconds())}
	case "sig": // the Online and Offline signals as the application sees them right now: released (1) or blocked (0)
		released := func(ch <-chan struct{}) int {
			select {
			case <-ch:
				return 1
			default:
				return 0
			}
		}
		return []string{fmt.Sprintf("sig online=%d offline=%d", released(p.client.Online()), released(p.client.Offline()))}
	case "counters":
		if p.atGate() {
			// the sequence tokens may be held by the stalled writer (resend): the probe would wait for it
			return []string{"counters stalled"}
		}
		v := mqtt.VerifCountersOf(p.client)
		return []string{fmt.Sprintf("ctr acked=%d received=%d completed=%d a1=%d s1=%d a2=%d s2=%d q1=%d q2=%d tx=%d",
			v.Acked, v.Received, v.Completed, v.AcceptN1, v.SubmitN1, v.AcceptN2, v.SubmitN2, v.Queue1, v.Queue2, v.Unordered)}
	case "store":
		return []string{p.store.describe()}
	case "damage":
		key := uint(0)
		fmt.Sscanf(f[2], "%x", &key)
		p.store.mu.Lock()
		defer p.store.mu.Unlock()
		v, ok := p.store.m[key]
		switch f[1] {
		case "alter":
			if o := atoi(f[3]); ok && o < len(v) {
				v[o] = byte(atoi(f[4]))
			}
		case "trunc":
			if n := atoi(f[3]); ok && n < len(v) {
				p.store.m[key] = v[:n]
			}
		case "rm":
			delete(p.store.m, key)
		case "stray":
			p.store.m[key] = unhex(f[3])
		}
		return nil
	}
	return []string{"bad-op " + f[0]}
}

// abandon simulates a process stop: the old client is dropped without Close.
func (p *sessionPort) abandon() {
	p.gen++
	// outstanding calls of the old generation will never be reported
	for _, c := range p.calls {
		c.over = true
	}
	for _, e := range p.exch {
		e.over = true
	}
	p.reader = nil
	p.lastBig = nil
	if p.cur != nil {
		// the process is gone: its connection dies silently
		p.cur.mu.Lock()
		p.cur.closed = true
		p.cur.cond.Broadcast()
		p.cur.mu.Unlock()
		p.cur = nil
	}
	// release the goroutines of the stopped process; nothing they do is observable any more
	if old := p.client; old != nil {
		closed := make(chan struct{})
		go func() { old.Close(); close(closed) }()
		select {
		case <-closed:
		case <-time.After(2 * time.Second):
		}
	}
	quiesceSoft()
	p.log.take()
}

func warnClasses(warn []error) string {
	if len(warn) == 0 {
		return "-"
	}
	var out []string
	for _, w := range warn {
		out = append(out, warnClass(w.Error()))
	}
	return strings.Join(out, ";")
}

// warnClass canonicalises a warning to kind and keys (hex numbers in the text).
func warnClass(s string) string {
	var nums []string
	for _, f := range strings.FieldsFunc(s, func(r rune) bool { return r == ' ' || r == '–' || r == ';' || r == ',' }) {
		if strings.HasPrefix(f, "0x") {
			nums = append(nums, strings.TrimPrefix(f, "0x"))
		}
	}
	switch {
	case strings.Contains(s, "not deleted"):
		return "corrupt-kept:" + strings.Join(nums, "-")
	case strings.Contains(s, "deleted"):
		return "corrupt-deleted:" + strings.Join(nums, "-")
	case strings.Contains(s, "PUBREL") && strings.Contains(s, "until PUBLISH"):
		return fmt.Sprintf("relgap:%s-%s>%s", nums[0], nums[1], nums[2])
	case strings.Contains(s, "dropped"):
		return fmt.Sprintf("gap:%s-%s>%s", nums[0], nums[1], nums[2])
	}
	return "other"
}
