package main

import (
	"encoding/hex"
	"strconv"
)

func unhex(s string) []byte {
	if s == "-" {
		return []byte{}
	}
	b, err := hex.DecodeString(s)
	if err != nil {
		panic("harness: bad hex " + s)
	}
	return b
}

func hexs(b []byte) string {
	if len(b) == 0 {
		return "-"
	}
	return hex.EncodeToString(b)
}

func atoi(s string) int {
	n, err := strconv.Atoi(s)
	if err != nil {
		panic("harness: bad int " + s)
	}
	return n
}

func atou64(s string) uint64 {
	n, err := strconv.ParseUint(s, 10, 64)
	if err != nil {
		panic("harness: bad uint " + s)
	}
	return n
}
