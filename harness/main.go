// Command harness runs operation scripts against the real implementation in
// /repo (built with -tags verif) and prints one canonical observation per
// line. The Lean driver executes the same script on the model; the check
// diffs the two streams.
package main

import (
	"bufio"
	"fmt"
	"os"
	"runtime"
	"strings"
	"time"
)

type port interface {
	// exec runs one script line and returns the observation lines.
	exec(fields []string) []string
	close()
}

var ports = map[string]func() port{}

var echoOps bool

func trunc(s string) string {
	if len(s) > 120 {
		return s[:120]
	}
	return s
}

var slowLog = os.Getenv("HARNESS_SLOW") != ""

func main() {
	if len(os.Args) < 2 {
		fmt.Fprintln(os.Stderr, "usage: harness <port> < script")
		os.Exit(2)
	}
	if os.Args[1] == "fshelper" {
		fsHelper(os.Args[2:])
		return
	}
	mk := ports[os.Args[1]]
	if mk == nil {
		fmt.Fprintln(os.Stderr, "unknown port", os.Args[1])
		os.Exit(2)
	}
	echoOps = os.Args[1] == "session"
	p := mk()
	in := bufio.NewReaderSize(os.Stdin, 1<<20)
	out := bufio.NewWriterSize(os.Stdout, 1<<16)
	defer out.Flush()
	for {
		line, err := in.ReadString('\n')
		line = strings.TrimSpace(line)
		if line != "" && !strings.HasPrefix(line, "#") {
			t0 := time.Now()
			if echoOps && !strings.HasPrefix(line, "reset") && !strings.HasPrefix(line, "end ") {
				out.WriteString("> " + trunc(line) + "\n")
			}
			obs := safeExec(&p, mk, strings.Fields(line))
			if d := time.Since(t0); slowLog && d > 20*time.Millisecond {
				fmt.Fprintf(os.Stderr, "slow %v: %.60s\n", d, line)
			}
			for _, o := range obs {
				out.WriteString(o)
				out.WriteByte('\n')
			}
			out.Flush()
		}
		if err != nil {
			break
		}
	}
	p.close()
}

// safeExec recovers a panic of the implementation into an observation.
func safeExec(p *port, mk func() port, f []string) (obs []string) {
	defer func() {
		if r := recover(); r != nil {
			obs = []string{fmt.Sprintf("panic %q", fmt.Sprint(r))}
		}
	}()
	if f[0] == "reset" {
		(*p).close()
		*p = mk()
		if slowLog {
			fmt.Fprintf(os.Stderr, "goroutines %d\n", runtime.NumGoroutine())
		}
		return []string{"reset"}
	}
	if f[0] == "end" {
		return []string{strings.Join(f, " ")}
	}
	return (*p).exec(f)
}
