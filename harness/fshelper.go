package main

import (
	"fmt"
	"hash/fnv"
	"net"
	"os"
	"runtime"
	"sort"
	"strconv"

	"github.com/pascaldekloe/mqtt"
)

// valueFor builds a deterministic value of the given size, cut into nbuf buffers.
func valueFor(tag byte, size, nbuf int) net.Buffers {
	b := make([]byte, size)
	for i := range b {
		b[i] = tag ^ byte(i*13+7)
	}
	if nbuf <= 1 || size < nbuf {
		return net.Buffers{b}
	}
	var out net.Buffers
	step := size / nbuf
	for i := 0; i < nbuf-1; i++ {
		out = append(out, b[i*step:(i+1)*step])
	}
	return append(out, b[(nbuf-1)*step:])
}

func sum(b []byte) uint32 {
	h := fnv.New32a()
	h.Write(b)
	return h.Sum32()
}

// fsHelper runs one FileSystem operation in this (child) process, pinned to
// one OS thread so that a tracer counts exactly its system calls.
//
//	fshelper save <dir> <key-hex> <tag> <size> <nbuf>
//	fshelper del  <dir> <key-hex>
//	fshelper dump <dir>            (List, then Load of every key and of the probe keys given)
func fsHelper(args []string) {
	runtime.LockOSThread()
	dir := args[1]
	p := mqtt.FileSystem(dir)
	switch args[0] {
	case "save":
		key, _ := strconv.ParseUint(args[2], 16, 32)
		tag, _ := strconv.Atoi(args[3])
		size, _ := strconv.Atoi(args[4])
		nbuf, _ := strconv.Atoi(args[5])
		v := valueFor(byte(tag), size, nbuf)
		// marker for the tracer: everything before this line is process start-up
		os.Stat(dir + "/.begin")
		err := p.Save(uint(key), v)
		os.Stat(dir + "/.end")
		if err != nil {
			fmt.Println("save err")
			os.Exit(3)
		}
		fmt.Println("save ok")
	case "del":
		key, _ := strconv.ParseUint(args[2], 16, 32)
		os.Stat(dir + "/.begin")
		err := p.Delete(uint(key))
		os.Stat(dir + "/.end")
		if err != nil {
			fmt.Println("del err")
			os.Exit(3)
		}
		fmt.Println("del ok")
	case "dump":
		keys, err := p.List()
		if err != nil {
			fmt.Println("list err")
			return
		}
		sort.Slice(keys, func(i, j int) bool { return keys[i] < keys[j] })
		seen := map[uint]bool{}
		for _, k := range keys {
			seen[k] = true
			v, err := p.Load(k)
			switch {
			case err != nil:
				fmt.Printf("listed %x loaderr\n", k)
			case v == nil:
				fmt.Printf("listed %x absent\n", k)
			default:
				fmt.Printf("listed %x %d %08x\n", k, len(v), sum(v))
			}
		}
		for _, a := range args[2:] {
			key, _ := strconv.ParseUint(a, 16, 32)
			if seen[uint(key)] {
				continue
			}
			v, err := p.Load(uint(key))
			switch {
			case err != nil:
				fmt.Printf("probe %x loaderr\n", key)
			case v == nil:
				fmt.Printf("probe %x absent\n", key)
			default:
				fmt.Printf("probe %x %d %08x\n", key, len(v), sum(v))
			}
		}
		ents, _ := os.ReadDir(dir)
		for _, e := range ents {
			fi, _ := e.Info()
			fmt.Printf("file %s %d\n", e.Name(), fi.Size())
		}
	case "value":
		tag, _ := strconv.Atoi(args[1])
		size, _ := strconv.Atoi(args[2])
		var all []byte
		for _, b := range valueFor(byte(tag), size, 1) {
			all = append(all, b...)
		}
		fmt.Printf("%d %08x\n", len(all), sum(all))
	}
}
