package main

import (
	"bytes"
	"fmt"
	"hash/fnv"
	"net"
	"os"
	"runtime"
	"sort"
	"strconv"
	"sync"
	"sync/atomic"
	"time"

	"github.com/pascaldekloe/mqtt"
)

// valueFor builds a deterministic value of the given size, cut into nbuf buffers.
func valueFor(tag byte, size, nbuf int) net.Buffers {
	b := make([]byte, size)
	for i := range b {
		b[i] = tag ^ byte(i*13+7)
	}
	if nbuf <= 1 || size < nbuf {
		return net.Buffers{b}
	}
	var out net.Buffers
	step := size / nbuf
	for i := 0; i < nbuf-1; i++ {
		out = append(out, b[i*step:(i+1)*step])
	}
	return append(out, b[(nbuf-1)*step:])
}

func sum(b []byte) uint32 {
	h := fnv.New32a()
	h.Write(b)
	return h.Sum32()
}

// fsHelper runs one FileSystem operation in this (child) process, pinned to
// one OS thread so that a tracer counts exactly its system calls.
//
//	fshelper save <dir> <key-hex> <tag> <size> <nbuf>
//	fshelper del  <dir> <key-hex>
//	fshelper dump <dir>            (List, then Load of every key and of the probe keys given)
func fsHelper(args []string) {
	runtime.LockOSThread()
	dir := args[1]
	p := mqtt.FileSystem(dir)
	switch args[0] {
	case "save":
		key, _ := strconv.ParseUint(args[2], 16, 32)
		tag, _ := strconv.Atoi(args[3])
		size, _ := strconv.Atoi(args[4])
		nbuf, _ := strconv.Atoi(args[5])
		v := valueFor(byte(tag), size, nbuf)
		// marker for the tracer: everything before this line is process start-up
		os.Stat(dir + "/.begin")
		err := p.Save(uint(key), v)
		os.Stat(dir + "/.end")
		if err != nil {
			fmt.Println("save err")
			os.Exit(3)
		}
		fmt.Println("save ok")
	case "del":
		key, _ := strconv.ParseUint(args[2], 16, 32)
		os.Stat(dir + "/.begin")
		err := p.Delete(uint(key))
		os.Stat(dir + "/.end")
		if err != nil {
			fmt.Println("del err")
			os.Exit(3)
		}
		fmt.Println("del ok")
	case "race":
		// race <dir> <key-hex> <milliseconds>: one goroutine overwrites the key with a long and a short value in turn, then
		// saves and deletes it in turn, while four others load it. Every Load must give one of the two values in full (or
		// nothing, in the second phase): a rename puts a complete file under the key in one step.
		key64, _ := strconv.ParseUint(args[2], 16, 32)
		key := uint(key64)
		ms, _ := strconv.Atoi(args[3])
		runtime.UnlockOSThread()
		long, short := valueFor(5, 67584, 1)[0], valueFor(6, 12, 1)[0]
		var loads, mods atomic.Int64
		var bad atomic.Pointer[string]
		for phase := 0; phase < 2 && bad.Load() == nil; phase++ {
			if err := p.Save(key, net.Buffers{short}); err != nil {
				fmt.Println("race bad setup")
				return
			}
			stop := make(chan struct{})
			var wg sync.WaitGroup
			for g := 0; g < 4; g++ {
				wg.Add(1)
				go func() {
					defer wg.Done()
					for {
						select {
						case <-stop:
							return
						default:
						}
						v, err := p.Load(key)
						loads.Add(1)
						var what string
						switch {
						case err != nil:
							what = "Load failed while the key was being " + []string{"overwritten", "saved and deleted"}[phase]
						case v == nil && phase == 0:
							what = "Load found nothing under a key that is only ever overwritten"
						case v != nil && !bytes.Equal(v, long) && !bytes.Equal(v, short):
							what = fmt.Sprintf("Load got %d bytes that are neither the %d-byte nor the %d-byte value", len(v), len(long), len(short))
						}
						if what != "" {
							bad.CompareAndSwap(nil, &what)
							return
						}
					}
				}()
			}
			deadline := time.Now().Add(time.Duration(ms) * time.Millisecond / 2)
			for i := 0; time.Now().Before(deadline) && bad.Load() == nil; i++ {
				var err error
				switch {
				case phase == 0 && i%2 == 0:
					err = p.Save(key, net.Buffers{long})
				case phase == 0:
					err = p.Save(key, net.Buffers{short})
				case i%2 == 0:
					err = p.Delete(key)
				default:
					err = p.Save(key, net.Buffers{long})
				}
				if err != nil {
					what := "Save or Delete failed beside concurrent Loads"
					bad.CompareAndSwap(nil, &what)
				}
				mods.Add(1)
			}
			close(stop)
			wg.Wait()
		}
		if b := bad.Load(); b != nil {
			fmt.Printf("race bad %s\n", *b)
			return
		}
		fmt.Printf("race ok loads=%d mods=%d\n", loads.Load(), mods.Load())
	case "dump":
		keys, err := p.List()
		if err != nil {
			fmt.Println("list err")
			return
		}
		sort.Slice(keys, func(i, j int) bool { return keys[i] < keys[j] })
		seen := map[uint]bool{}
		for _, k := range keys {
			seen[k] = true
			v, err := p.Load(k)
			switch {
			case err != nil:
				fmt.Printf("listed %x loaderr\n", k)
			case v == nil:
				fmt.Printf("listed %x absent\n", k)
			default:
				fmt.Printf("listed %x %d %08x\n", k, len(v), sum(v))
			}
		}
		for _, a := range args[2:] {
			key, _ := strconv.ParseUint(a, 16, 32)
			if seen[uint(key)] {
				continue
			}
			v, err := p.Load(uint(key))
			switch {
			case err != nil:
				fmt.Printf("probe %x loaderr\n", key)
			case v == nil:
				fmt.Printf("probe %x absent\n", key)
			default:
				fmt.Printf("probe %x %d %08x\n", key, len(v), sum(v))
			}
		}
		ents, _ := os.ReadDir(dir)
		for _, e := range ents {
			fi, _ := e.Info()
			fmt.Printf("file %s %d\n", e.Name(), fi.Size())
		}
	case "value":
		tag, _ := strconv.Atoi(args[1])
		size, _ := strconv.Atoi(args[2])
		var all []byte
		for _, b := range valueFor(byte(tag), size, 1) {
			all = append(all, b...)
		}
		fmt.Printf("%d %08x\n", len(all), sum(all))
	}
}
