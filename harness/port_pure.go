package main

import (
	"fmt"
	"net"

	"github.com/pascaldekloe/mqtt"
)

// purePort: stateless calls of exported (tag verif) pure functions.
type purePort struct{}

func init() { ports["pure"] = func() port { return purePort{} } }

func (purePort) close() {}

func (purePort) exec(f []string) []string {
	switch f[0] {
	case "enc": // enc <packet-hex> <seq> [split]: encodeValue, optionally with the packet in two buffers
		p := unhex(f[1])
		bufs := net.Buffers{p}
		if len(f) > 3 {
			k := atoi(f[3])
			if k > len(p) {
				k = len(p)
			}
			bufs = net.Buffers{p[:k], p[k:]}
		}
		return []string{"enc " + hexs(mqtt.VerifEncodeValue(bufs, atou64(f[2])))}
	case "dec": // dec <value-hex>
		p, seq, err := mqtt.VerifDecodeValue(unhex(f[1]))
		if err != nil {
			return []string{"dec err"} // texts are never compared
		}
		return []string{fmt.Sprintf("dec ok %s %d", hexs(p), seq)}
	}
	return []string{"bad-op " + f[0]}
}
