package main

import (
	"context"
	"fmt"
	"net"
	"strings"
	"time"

	"github.com/pascaldekloe/mqtt"
)

// purePort: stateless calls of exported (tag verif) pure functions.
type purePort struct{}

func init() { ports["pure"] = func() port { return purePort{} } }

func (purePort) close() {}

func (purePort) exec(f []string) []string {
	switch f[0] {
	case "enc": // enc <packet-hex> <seq> [split]: encodeValue, optionally with the packet in two buffers
		p := unhex(f[1])
		bufs := net.Buffers{p}
		if len(f) > 3 {
			k := atoi(f[3])
			if k > len(p) {
				k = len(p)
			}
			bufs = net.Buffers{p[:k], p[k:]}
		}
		return []string{"enc " + hexs(mqtt.VerifEncodeValue(bufs, atou64(f[2])))}
	case "dec": // dec <value-hex>
		p, seq, err := mqtt.VerifDecodeValue(unhex(f[1]))
		if err != nil {
			return []string{"dec err"} // texts are never compared
		}
		return []string{fmt.Sprintf("dec ok %s %d", hexs(p), seq)}
	case "rload": // rload <present 0|1> <raw-hex|-> : Load through the integrity layer
		var raw []byte
		if f[2] != "-" {
			raw = unhex(f[2])
		} else if f[1] == "1" {
			raw = []byte{} // a record without content: present, not nil
		}
		v, err := mqtt.VerifRuggedLoad(raw, f[1] == "1")
		switch {
		case err != nil:
			return []string{"rload err"}
		case v == nil:
			return []string{"rload absent"}
		}
		return []string{"rload ok " + hexs(v)}
	case "strcheck": // strcheck <hex>
		return []string{"strcheck " + denyClass(mqtt.VerifStringCheck(string(unhex(f[1]))))}
	case "topiccheck":
		return []string{"topiccheck " + denyClass(mqtt.VerifTopicCheck(string(unhex(f[1]))))}
	case "pubhead": // pubhead <head> <pid> <topic-hex> <msglen>
		n := atoi(f[4])
		msg := patternBytes(n)
		bufs, err := mqtt.VerifPublishPacket(msg, string(unhex(f[3])), uint(atoi(f[2])), byte(atoi(f[1])))
		if err != nil {
			return []string{"pubhead " + denyClass(err)}
		}
		same := len(bufs) == 2 && len(bufs[1]) == n && (n == 0 || &bufs[1][0] == &msg[0])
		return []string{fmt.Sprintf("pubhead pkt %s %d %v", hexs(bufs[0]), n, same)}
	case "connreq": // connreq <clean> <keepalive> <user> <pass|nil> <willtopic> <willmsg|nil> <retain> <alo> <eo> <clientid>
		var c mqtt.Config
		c.Dialer = func(context.Context) (net.Conn, error) { return nil, nil }
		c.CleanSession = f[1] == "1"
		c.KeepAlive = uint16(atoi(f[2]))
		c.UserName = string(unhex(f[3]))
		if f[4] != "nil" {
			c.Password = unhex(f[4])
		}
		c.Will.Topic = string(unhex(f[5]))
		if f[6] != "nil" {
			c.Will.Message = unhex(f[6])
		}
		c.Will.Retain, c.Will.AtLeastOnce, c.Will.ExactlyOnce = f[7] == "1", f[8] == "1", f[9] == "1"
		if err := mqtt.VerifConfigValid(&c); err != nil {
			return []string{"connreq " + denyClass(err)}
		}
		return []string{"connreq pkt " + hexs(mqtt.VerifNewCONNREQ(&c, unhex(f[10])))}
	case "wt": // wt <packet-hex> <policy>
		c := &policyConn{policy: parsePolicy(f[2])}
		err := mqtt.VerifWriteTo(c, unhex(f[1]), time.Hour)
		return []string{fmt.Sprintf("wt %s log=%s", writeClass(err), hexs(c.log))}
	case "wb": // wb <buf-hex>,<buf-hex>,... <policy>
		var bufs net.Buffers
		for _, h := range strings.Split(f[1], ",") {
			bufs = append(bufs, unhex(h))
		}
		c := &policyConn{policy: parsePolicy(f[2])}
		err := mqtt.VerifWriteBuffersTo(c, bufs, time.Hour)
		return []string{fmt.Sprintf("wb %s log=%s", writeClass(err), hexs(c.log))}
	}
	return []string{"bad-op " + f[0]}
}

// denyClass canonicalises a validation result: texts are never compared.
func denyClass(err error) string {
	switch {
	case err == nil:
		return "ok"
	case mqtt.IsDeny(err):
		return "deny"
	}
	return "err-other"
}

var patternBuf []byte

// patternBytes returns n bytes of a fixed pattern (shared, do not modify).
func patternBytes(n int) []byte {
	if len(patternBuf) < n {
		patternBuf = make([]byte, n)
		for i := range patternBuf {
			patternBuf[i] = byte(i*7 + 3)
		}
	}
	return patternBuf[:n:n]
}
