package main

import (
	"bytes"
	"context"
	"errors"
	"fmt"
	"net"
	"strings"
	"time"

	"github.com/pascaldekloe/mqtt"
)

// purePort: stateless calls of exported (tag verif) pure functions.
type purePort struct{}

func init() { ports["pure"] = func() port { return purePort{} } }

func (purePort) close() {}

func (purePort) exec(f []string) []string {
	switch f[0] {
	case "enc": // enc <packet-hex> <seq> [split]: encodeValue, optionally with the packet in two buffers
		p := unhex(f[1])
		bufs := net.Buffers{p}
		if len(f) > 3 {
			k := atoi(f[3])
			if k > len(p) {
				k = len(p)
			}
			bufs = net.Buffers{p[:k], p[k:]}
		}
		return []string{"enc " + hexs(mqtt.VerifEncodeValue(bufs, atou64(f[2])))}
	case "enc2": // enc2 <packet1> <seq1> <packet2> <seq2>: the first value, as handed to Save, must stay what it was while a second one is encoded
		join := func(v net.Buffers) []byte {
			var out []byte
			for _, b := range v {
				out = append(out, b...)
			}
			return out
		}
		v1 := mqtt.VerifEncodeValueRaw(net.Buffers{unhex(f[1])}, atou64(f[2]))
		before := join(v1)
		v2 := mqtt.VerifEncodeValueRaw(net.Buffers{unhex(f[3])}, atou64(f[4]))
		second := join(v2)
		after := join(v1)
		return []string{fmt.Sprintf("enc2 %s %s stable=%v", hexs(before), hexs(second), bytes.Equal(before, after))}
	case "dec": // dec <value-hex>
		p, seq, err := mqtt.VerifDecodeValue(unhex(f[1]))
		if err != nil {
			return []string{"dec err"} // texts are never compared
		}
		return []string{fmt.Sprintf("dec ok %s %d", hexs(p), seq)}
	case "rload": // rload <present 0|1> <raw-hex|-> : Load through the integrity layer
		var raw []byte
		if f[2] != "-" {
			raw = unhex(f[2])
		} else if f[1] == "1" {
			raw = []byte{} // a record without content: present, not nil
		}
		v, err := mqtt.VerifRuggedLoad(raw, f[1] == "1")
		switch {
		case err != nil:
			return []string{"rload err"}
		case v == nil:
			return []string{"rload absent"}
		}
		return []string{"rload ok " + hexs(v)}
	case "isany": // isany <tree> <targets: deny|end|comma-separated ids> : the classifier behind IsDeny/IsEnd on an error value of any shape
		e, rest := buildErr(f[1])
		if rest != "" || e == nil {
			return []string{"bad-op isany"}
		}
		var matches []error
		switch f[2] {
		case "deny", "end":
			before := e.Error()
			fresh, _ := buildErr(f[1])
			classify := mqtt.IsDeny
			if f[2] == "end" {
				classify = mqtt.IsEnd
			}
			// other classifications of the same value come first, as an application would do
			mqtt.IsEnd(e)
			mqtt.IsDeny(e)
			got := classify(e)
			if want := classify(fresh); got != want || e.Error() != before {
				return []string{fmt.Sprintf("isany %v, on an untouched copy %v: the error value was modified by classifying it", got, want)}
			}
			return []string{fmt.Sprintf("isany %v", got)}
		default:
			for _, t := range strings.Split(f[2], ",") {
				matches = append(matches, leafErr(atoi(t)))
			}
		}
		before := e.Error()
		got := mqtt.VerifNonNilIsAny(e, matches)
		mqtt.IsDeny(e)
		mqtt.IsEnd(e)
		if again := mqtt.VerifNonNilIsAny(e, matches); again != got || e.Error() != before {
			return []string{fmt.Sprintf("isany %v then %v: the error value was modified by classifying it", got, again)}
		}
		// the standard library's own reading of the same question
		std := false
		for _, m := range matches {
			std = std || errors.Is(e, m)
		}
		if got != std {
			return []string{fmt.Sprintf("isany %v errors.Is=%v", got, std)}
		}
		return []string{fmt.Sprintf("isany %v", got)}
	case "strcheck": // strcheck <hex>
		return []string{"strcheck " + denyClass(mqtt.VerifStringCheck(string(unhex(f[1]))))}
	case "topiccheck":
		return []string{"topiccheck " + denyClass(mqtt.VerifTopicCheck(string(unhex(f[1]))))}
	case "pubhead": // pubhead <head> <pid> <topic-hex> <msglen>
		n := atoi(f[4])
		msg := patternBytes(n)
		bufs, err := mqtt.VerifPublishPacket(msg, string(unhex(f[3])), uint(atoi(f[2])), byte(atoi(f[1])))
		if err != nil {
			return []string{"pubhead " + denyClass(err)}
		}
		same := len(bufs) == 2 && len(bufs[1]) == n && (n == 0 || &bufs[1][0] == &msg[0])
		return []string{fmt.Sprintf("pubhead pkt %s %d %v", hexs(bufs[0]), n, same)}
	case "connreq": // connreq <clean> <keepalive> <user> <pass|nil> <willtopic> <willmsg|nil> <retain> <alo> <eo> <clientid>
		var c mqtt.Config
		c.Dialer = func(context.Context) (net.Conn, error) { return nil, nil }
		c.CleanSession = f[1] == "1"
		c.KeepAlive = uint16(atoi(f[2]))
		c.UserName = string(unhex(f[3]))
		if f[4] != "nil" {
			c.Password = unhex(f[4])
		}
		c.Will.Topic = string(unhex(f[5]))
		if f[6] != "nil" {
			c.Will.Message = unhex(f[6])
		}
		c.Will.Retain, c.Will.AtLeastOnce, c.Will.ExactlyOnce = f[7] == "1", f[8] == "1", f[9] == "1"
		if err := mqtt.VerifConfigValid(&c); err != nil {
			return []string{"connreq " + denyClass(err)}
		}
		return []string{"connreq pkt " + hexs(mqtt.VerifNewCONNREQ(&c, unhex(f[10])))}
	case "wt": // wt <packet-hex> <policy>
		c := &policyConn{policy: parsePolicy(f[2])}
		err := mqtt.VerifWriteTo(c, unhex(f[1]), time.Hour)
		return []string{fmt.Sprintf("wt %s log=%s", writeClass(err), hexs(c.log))}
	case "wb": // wb <buf-hex>,<buf-hex>,... <policy>
		var bufs net.Buffers
		for _, h := range strings.Split(f[1], ",") {
			bufs = append(bufs, unhex(h))
		}
		c := &policyConn{policy: parsePolicy(f[2])}
		err := mqtt.VerifWriteBuffersTo(c, bufs, time.Hour)
		return []string{fmt.Sprintf("wb %s log=%s", writeClass(err), hexs(c.log))}
	}
	return []string{"bad-op " + f[0]}
}

// denyClass canonicalises a validation result: texts are never compared.
func denyClass(err error) string {
	switch {
	case err == nil:
		return "ok"
	case mqtt.IsDeny(err):
		return "deny"
	}
	return "err-other"
}

var patternBuf []byte

// patternBytes returns n bytes of a fixed pattern (shared, do not modify).
func patternBytes(n int) []byte {
	if len(patternBuf) < n {
		patternBuf = make([]byte, n)
		for i := range patternBuf {
			patternBuf[i] = byte(i*7 + 3)
		}
	}
	return patternBuf[:n:n]
}

// Error values for the `isany` operation. Leaves 1..7 are the exported sentinels, 10..16 the deny sentinels, anything
// else a fresh comparable value per identifier.
var leafCache = map[int]error{}

func leafErr(id int) error {
	names := map[int]string{10: "errPacketMax", 11: "errStringMax", 12: "errUTF8", 13: "errNull", 14: "errZero", 15: "errSubscribeNone", 16: "errUnsubscribeNone"}
	switch id {
	case 1:
		return mqtt.ErrClosed
	case 2:
		return mqtt.ErrCanceled
	case 3:
		return mqtt.ErrAbandoned
	case 4:
		return mqtt.ErrDown
	case 5:
		return mqtt.ErrSubmit
	case 6:
		return mqtt.ErrBreak
	case 7:
		return mqtt.ErrMax
	}
	if n, ok := names[id]; ok {
		return mqtt.VerifErrors()[n]
	}
	if e, ok := leafCache[id]; ok {
		return e
	}
	e := fmt.Errorf("leaf %d", id)
	leafCache[id] = e
	return e
}

type nilWrap struct{ id int }

func (w *nilWrap) Error() string { return fmt.Sprintf("nilwrap %d", w.id) }
func (w *nilWrap) Unwrap() error { return nil }

// buildErr parses L<id> | N<id> | W(<tree>) | J(<tree>,<tree>,...) and returns the rest of the input.
func buildErr(s string) (error, string) {
	if s == "" {
		return nil, s
	}
	num := func(t string) (int, string) {
		k := 0
		for k < len(t) && t[k] >= '0' && t[k] <= '9' {
			k++
		}
		return atoi(t[:k]), t[k:]
	}
	switch s[0] {
	case 'L':
		id, rest := num(s[1:])
		return leafErr(id), rest
	case 'N':
		id, rest := num(s[1:])
		return &nilWrap{id}, rest
	case 'W':
		if len(s) < 2 || s[1] != '(' {
			return nil, s
		}
		c, rest := buildErr(s[2:])
		if c == nil || rest == "" || rest[0] != ')' {
			return nil, s
		}
		return fmt.Errorf("wrapped: %w", c), rest[1:]
	case 'J':
		if len(s) < 2 || s[1] != '(' {
			return nil, s
		}
		var cs []error
		rest := s[2:]
		for {
			if rest != "" && rest[0] == ')' {
				rest = rest[1:]
				break
			}
			c, r := buildErr(rest)
			if c == nil {
				return nil, s
			}
			cs = append(cs, c)
			rest = r
			if rest != "" && rest[0] == ',' {
				rest = rest[1:]
			}
		}
		if len(cs) == 0 {
			return &emptyJoin{}, rest
		}
		return errors.Join(cs...), rest
	}
	return nil, s
}

type emptyJoin struct{}

func (*emptyJoin) Error() string   { return "empty join" }
func (*emptyJoin) Unwrap() []error { return nil }
