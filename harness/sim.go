package main

import (
	"bytes"
	"encoding/binary"
	"errors"
	"fmt"
	"hash/fnv"
	"io"
	"net"
	"sort"
	"sync"
	"time"
)

// eventLog is the global, ordered log of micro-events of one session.
type eventLog struct {
	mu    sync.Mutex
	lines []string
}

func (l *eventLog) add(format string, a ...any) {
	l.mu.Lock()
	l.lines = append(l.lines, fmt.Sprintf(format, a...))
	l.mu.Unlock()
}

func (l *eventLog) take() []string {
	l.mu.Lock()
	out := l.lines
	l.lines = nil
	l.mu.Unlock()
	return out
}

var errStore = errors.New("sim: persistence fault")

// simStore is a logging, fault-injecting Persistence (a copying map).
type simStore struct {
	mu                 sync.Mutex
	m                  map[uint][]byte
	log                *eventLog
	fSave, fDel, fLoad bool
	alias              bool // Load hands out the internal buffer, like the package's own in-memory map
	// slow Save
	cond   *sync.Cond
	gate   bool
	atGate bool
}

func newSimStore(log *eventLog) *simStore {
	s := &simStore{m: map[uint][]byte{}, log: log}
	s.cond = sync.NewCond(&s.mu)
	return s
}

func (s *simStore) Load(key uint) ([]byte, error) {
	s.mu.Lock()
	defer s.mu.Unlock()
	if s.fLoad {
		s.fLoad = false
		return nil, errStore
	}
	v, ok := s.m[key]
	if !ok {
		return nil, nil
	}
	if s.alias && v != nil {
		return v, nil
	}
	// a record without content is present all the same (as os.ReadFile returns for an empty file): not nil
	return append(make([]byte, 0, len(v)), v...), nil
}

func (s *simStore) Save(key uint, value net.Buffers) error {
	s.mu.Lock()
	defer s.mu.Unlock()
	for s.gate {
		// a slow store: the Save takes effect when the script says so
		s.atGate = true
		s.cond.Wait()
	}
	s.atGate = false
	// The value is taken when the store gets to it (it must stay intact for as long as Save runs), and in the way the
	// FileSystem store takes it: net.Buffers.WriteTo, which consumes the vector it is given.
	var buf bytes.Buffer
	value.WriteTo(&buf)
	v := append([]byte(nil), buf.Bytes()...)
	if s.fSave {
		s.fSave = false
		s.log.add("ev savefail %x", key)
		return errStore
	}
	s.m[key] = v
	s.log.add("ev save %x %s", key, describeRaw(v))
	return nil
}

// describeRaw renders a stored value as "<packet-hex> <seq>", checking the trailer.
func describeRaw(v []byte) string {
	if len(v) < 12 {
		return "short:" + hexs(v)
	}
	d := fnv.New32a()
	d.Write(v[:len(v)-4])
	if d.Sum32() != binary.BigEndian.Uint32(v[len(v)-4:]) {
		return "badsum:" + hexs(v)
	}
	return fmt.Sprintf("%s %d", hexs(v[:len(v)-12]), binary.LittleEndian.Uint64(v[len(v)-12:]))
}

func (s *simStore) Delete(key uint) error {
	s.mu.Lock()
	defer s.mu.Unlock()
	if s.fDel {
		s.fDel = false
		s.log.add("ev delfail %x", key)
		return errStore
	}
	delete(s.m, key)
	s.log.add("ev del %x", key)
	return nil
}

func (s *simStore) List() ([]uint, error) {
	s.mu.Lock()
	defer s.mu.Unlock()
	keys := make([]uint, 0, len(s.m))
	for k := range s.m {
		keys = append(keys, k)
	}
	sort.Slice(keys, func(i, j int) bool { return keys[i] < keys[j] })
	return keys, nil
}

func (s *simStore) describe() string {
	keys, _ := s.List()
	out := "store"
	for _, k := range keys {
		v := s.m[k]
		if len(v) >= 12 {
			d := fnv.New32a()
			d.Write(v[:len(v)-4])
			if d.Sum32() == binary.BigEndian.Uint32(v[len(v)-4:]) {
				out += fmt.Sprintf(" %x:%s:%d", k, hexs(v[:len(v)-12]), binary.LittleEndian.Uint64(v[len(v)-12:]))
				continue
			}
		}
		out += fmt.Sprintf(" %x:corrupt:%d", k, len(v))
	}
	return out
}

// chunk kinds of the scripted inbound stream
type chunk struct {
	kind string // data | timeout | hard | eof | block
	data []byte
}

// simConn is a scripted net.Conn.
type simConn struct {
	id      int
	log     *eventLog
	mu      sync.Mutex
	cond    *sync.Cond
	inq     []chunk
	policy  []wpol
	closed  bool
	release *wpol // outcome the script opened the write gate with
	atGate  bool  // a Write waits at the gate
	// read deadline bookkeeping: the scripted connection never lets time pass, it records whether the client
	// would be woken by a deadline while the broker stalls
	readArmed       bool
	delivered       []byte // everything handed to the client so far
	atStall         bool   // a Read waits for a broker that sends nothing
	expired         bool   // the read deadline fired and was not set again: further Reads fail at once, as with package net
	strictDeadlines bool   // deadline calls fail once the connection is closed (package net behaviour)
	// slow Close
	closeGate   bool
	closeErr    bool // Close reports a failure (it closes all the same)
	atCloseGate bool
}

func newSimConn(id int, log *eventLog) *simConn {
	c := &simConn{id: id, log: log}
	c.cond = sync.NewCond(&c.mu)
	return c
}

func (c *simConn) feed(cs ...chunk) {
	c.mu.Lock()
	c.inq = append(c.inq, cs...)
	c.cond.Broadcast()
	c.mu.Unlock()
}

// openGate lets a Write that is blocked at a gate go on with the given outcome.
func (c *simConn) openGate(o wpol) {
	c.mu.Lock()
	if c.atGate { // nothing waits at a gate: the script's release is void, as in the model
		c.release = &o
		c.cond.Broadcast()
	}
	c.mu.Unlock()
}

func (c *simConn) stalled() bool {
	c.mu.Lock()
	defer c.mu.Unlock()
	return c.atStall
}

func (c *simConn) isClosed() bool {
	c.mu.Lock()
	defer c.mu.Unlock()
	return c.closed
}

func (c *simConn) Read(p []byte) (int, error) {
	c.mu.Lock()
	defer c.mu.Unlock()
	for {
		if c.closed {
			return 0, net.ErrClosed
		}
		if len(c.inq) == 0 {
			return 0, io.EOF
		}
		if c.expired {
			return 0, timeoutErr{}
		}
		h := &c.inq[0]
		switch h.kind {
		case "data":
			n := copy(p, h.data)
			c.delivered = append(c.delivered, p[:n]...)
			if n == len(h.data) {
				c.inq = c.inq[1:]
			} else {
				h.data = h.data[n:]
			}
			return n, nil
		case "timeout":
			c.inq = c.inq[1:]
			c.expired = true
			return 0, timeoutErr{}
		case "hard":
			c.inq = c.inq[1:]
			return 0, errHard
		case "eof":
			return 0, io.EOF
		case "block":
			if len(c.inq) > 1 {
				c.inq = c.inq[1:]
				continue
			}
			if pos := c.position(); pos != "boundary" && !c.atStall {
				// the broker stalls inside the handshake or inside a packet: PauseTimeout must be able to end this wait
				armed := "unarmed"
				if c.readArmed {
					armed = "armed"
				}
				c.log.add("ev stall %d %s %s", c.id, pos, armed)
			} else if pos == "boundary" && !c.atStall && c.readArmed && !c.expired {
				// nothing is in transfer, yet a read deadline is set: the idle connection would be given up for no reason
				c.log.add("ev stall %d idle armed", c.id)
			}
			c.atStall = true
			c.cond.Wait()
			c.atStall = false
		}
	}
}

func (c *simConn) Write(p []byte) (int, error) {
	c.mu.Lock()
	defer c.mu.Unlock()
	if c.closed {
		return 0, net.ErrClosed
	}
	if len(p) == 0 {
		return 0, nil // writing nothing succeeds and tells nothing about the connection
	}
	n, out := len(p), "ok"
	for len(c.policy) > 0 && c.policy[0].out == "gate" {
		// blocks until the script opens the gate or the connection is closed
		if c.release != nil {
			c.policy[0] = *c.release
			c.release = nil
			if c.policy[0].out == "ok" {
				c.policy = c.policy[1:]
			}
			break
		}
		c.atGate = true
		c.cond.Wait()
		c.atGate = false
		if c.closed {
			return 0, net.ErrClosed
		}
	}
	if len(c.policy) > 0 {
		e := c.policy[0]
		c.policy = c.policy[1:]
		out = e.out
		if out != "ok" {
			// A-conn: a Write that reports an error accepted fewer bytes than it was given
			n = len(p) - 1
			if e.accept < n {
				n = e.accept
			}
		}
	}
	if n > 0 {
		c.log.add("ev w %d %s", c.id, hexs(p[:n]))
	}
	switch out {
	case "timeout":
		return n, timeoutErr{}
	case "closed":
		// the connection turns out to be closed already (by the peer's reset or alike)
		c.closed = true
		c.cond.Broadcast()
		return n, net.ErrClosed
	case "hard":
		return n, errHard
	}
	return n, nil
}

func (c *simConn) Close() error {
	c.mu.Lock()
	defer c.mu.Unlock()
	for c.closeGate && !c.closed {
		// a slow Close (TLS close_notify with a write pending, a lingering socket): it takes effect when the script says so
		c.atCloseGate = true
		c.cond.Wait()
	}
	c.atCloseGate = false
	if !c.closed {
		c.closed = true
		c.log.add("ev close %d", c.id)
		c.cond.Broadcast()
	}
	if c.closeErr {
		return errHard
	}
	return nil
}

func (c *simConn) LocalAddr() net.Addr           { return nil }
func (c *simConn) RemoteAddr() net.Addr          { return nil }
func (c *simConn) SetDeadline(t time.Time) error { return c.SetReadDeadline(t) }

// SetReadDeadline fails on a closed connection, as the connections of package net do.
func (c *simConn) SetReadDeadline(t time.Time) error {
	c.mu.Lock()
	defer c.mu.Unlock()
	if c.closed {
		return net.ErrClosed
	}
	c.readArmed = !t.IsZero()
	c.expired = false
	return nil
}

// position tells where in the inbound stream the client stands: in the handshake reply, on a packet
// boundary, or inside a packet (fixed header or body incomplete).
func (c *simConn) position() string {
	d := c.delivered
	if len(d) < 4 {
		return "handshake"
	}
	d = d[4:]
	for len(d) > 0 {
		if len(d) < 2 {
			return "inpacket"
		}
		size, k := 0, 1
		for shift := uint(0); ; shift += 7 {
			if k >= len(d) {
				return "inpacket"
			}
			b := d[k]
			k++
			size |= int(b&0x7f) << shift
			if b&0x80 == 0 {
				break
			}
			if shift >= 21 {
				return "boundary" // not a packet any more: the client has given up on this stream
			}
		}
		if len(d) < k+size {
			return "inpacket"
		}
		d = d[k+size:]
	}
	return "boundary"
}
func (c *simConn) SetWriteDeadline(time.Time) error { return nil }
