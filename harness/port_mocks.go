package main

import (
	"errors"
	"fmt"
	"runtime"
	"strings"
	"testing"
	"time"

	"github.com/pascaldekloe/mqtt"
	"github.com/pascaldekloe/mqtt/mqtttest"
)

// fakeTB records failures instead of failing a test.
type fakeTB struct {
	testing.TB // nil: any method not overridden panics
	fails      int
	cleanups   []func()
}

type fatalSignal struct{}

func (t *fakeTB) Helper()                           {}
func (t *fakeTB) Error(args ...any)                 { t.fails++ }
func (t *fakeTB) Errorf(format string, args ...any) { t.fails++ }
func (t *fakeTB) Fatal(args ...any)                 { t.fails++; panic(fatalSignal{}) }
func (t *fakeTB) Fatalf(format string, args ...any) { t.fails++; panic(fatalSignal{}) }
func (t *fakeTB) Cleanup(f func())                  { t.cleanups = append(t.cleanups, f) }
func (t *fakeTB) Log(args ...any)                   {}
func (t *fakeTB) Logf(format string, args ...any)   {}

var plainErrs = map[int]error{}

func mkErr(tok string) error {
	switch {
	case tok == "nil":
		return nil
	case tok == "closed":
		return mqtt.ErrClosed
	case tok == "wclosed":
		return fmt.Errorf("wrapped: %w", mqtt.ErrClosed)
	case tok[0] == 'e':
		n := atoi(tok[1:])
		if plainErrs[n] == nil {
			plainErrs[n] = fmt.Errorf("plain error %d", n)
		}
		return plainErrs[n]
	case strings.HasPrefix(tok, "wb"): // a block wrapped in another error: a block all the same
		return fmt.Errorf("hold on: %w", mkErr(tok[1:]))
	case tok == "bn": // a pause that is over already: finite, not the indefinite block of a zero Delay
		return mqtttest.ExchangeBlock{Delay: -time.Millisecond}
	case tok[0] == 'b':
		return mqtttest.ExchangeBlock{Delay: time.Duration(atoi(tok[1:])) * time.Millisecond}
	}
	panic("harness: bad error token " + tok)
}

func errTok(err error) string {
	var blk mqtttest.ExchangeBlock
	switch {
	case err == nil:
		return "nil"
	case err == mqtt.ErrClosed:
		return "closed"
	case errors.Is(err, mqtt.ErrClosed):
		return "wclosed"
	case errors.Is(err, mqtt.ErrCanceled):
		return "canceled"
	case errors.As(err, &blk):
		return fmt.Sprintf("b%d", blk.Delay/time.Millisecond)
	}
	for n, e := range plainErrs {
		if err == e {
			return fmt.Sprintf("e%d", n)
		}
	}
	return "other"
}

func quitChan(s string) <-chan struct{} {
	switch s {
	case "open":
		return make(chan struct{})
	case "closed":
		c := make(chan struct{})
		close(c)
		return c
	}
	return nil
}

type mocksPort struct {
	tb  *fakeTB
	pub func(quit <-chan struct{}, message []byte, topic string) error
	sub func(quit <-chan struct{}, topicFilters ...string) error
	rs  func() (message, topic []byte, err error)
	ex  func(message []byte, topic string) (<-chan error, error)
}

func init() { ports["mocks"] = func() port { return &mocksPort{tb: &fakeTB{}} } }

func (p *mocksPort) close() {}

// unhexMsg: `nil` is a nil slice, `-` an empty one: the same message
func unhexMsg(s string) []byte {
	if s == "nil" {
		return nil
	}
	return unhex(s)
}

func parseTransfers(s string) []mqtttest.Transfer {
	var out []mqtttest.Transfer
	if s == "-" {
		return out
	}
	for _, t := range strings.Split(s, ";") {
		f := strings.Split(t, ":")
		out = append(out, mqtttest.Transfer{Message: unhexMsg(f[0]), Topic: string(unhex(f[1])), Err: mkErr(f[2])})
	}
	return out
}

func (p *mocksPort) exec(f []string) (out []string) {
	defer func() {
		if r := recover(); r != nil {
			if _, ok := r.(fatalSignal); ok {
				out = []string{fmt.Sprintf("%s fatal fails=%d", f[0], p.tb.fails)}
				return
			}
			if f[0] == "exstub" || f[0] == "substub" {
				out = []string{f[0] + " panic"}
				return
			}
			panic(r)
		}
	}()
	switch f[0] {
	case "pubmock":
		p.tb = &fakeTB{}
		p.pub = mqtttest.NewPublishMock(p.tb, parseTransfers(f[1])...)
		return nil
	case "pcall":
		err := p.pub(quitChan(f[1]), unhexMsg(f[2]), string(unhex(f[3])))
		return []string{fmt.Sprintf("pcall %s fails=%d", errTok(err), p.tb.fails)}
	case "submock":
		p.tb = &fakeTB{}
		var want []mqtttest.Filter
		if f[2] != "-" {
			for _, t := range strings.Split(f[2], ";") {
				g := strings.Split(t, ":")
				var topics []string
				if g[0] != "none" {
					for _, h := range strings.Split(g[0], ",") {
						topics = append(topics, string(unhex(h)))
					}
				}
				want = append(want, mqtttest.Filter{Topics: topics, Err: mkErr(g[1])})
			}
		}
		if f[1] == "sub" {
			p.sub = mqtttest.NewSubscribeMock(p.tb, want...)
		} else {
			p.sub = mqtttest.NewUnsubscribeMock(p.tb, want...)
		}
		return nil
	case "scall":
		var fs []string
		if f[2] != "none" {
			for _, h := range strings.Split(f[2], ",") {
				fs = append(fs, string(unhex(h)))
			}
		}
		err := p.sub(quitChan(f[1]), fs...)
		return []string{fmt.Sprintf("scall %s fails=%d", errTok(err), p.tb.fails)}
	case "rsmock":
		p.tb = &fakeTB{}
		p.rs = mqtttest.NewReadSlicesMock(p.tb, parseTransfers(f[1])...)
		return nil
	case "rcall":
		before := p.tb.fails
		m, t, err := p.rs()
		if p.tb.fails > before {
			return []string{fmt.Sprintf("rcall - - unwanted fails=%d", p.tb.fails)}
		}
		return []string{fmt.Sprintf("rcall %s %s %s fails=%d", hexs(m), hexs(t), errTok(err), p.tb.fails)}
	case "cleanup":
		for i := len(p.tb.cleanups) - 1; i >= 0; i-- {
			p.tb.cleanups[i]()
		}
		p.tb.cleanups = nil
		return []string{fmt.Sprintf("cleanup fails=%d", p.tb.fails)}
	case "exstub":
		var script []error
		if f[2] != "-" {
			for _, t := range strings.Split(f[2], ",") {
				script = append(script, mkErr(t))
			}
		}
		p.ex = nil
		p.ex = mqtttest.NewPublishExchangeStub(mkErr(f[1]), script...)
		return []string{"exstub ok"}
	case "ecall":
		if p.ex == nil {
			return []string{"bad-op ecall"}
		}
		ch, err := p.ex([]byte("m"), "t")
		if err != nil {
			return []string{"ecall err " + errTok(err)}
		}
		var got []string
		closed := false
		idle := time.NewTimer(150 * time.Millisecond)
	loop:
		for {
			select {
			case e, ok := <-ch:
				if !ok {
					closed = true
					break loop
				}
				got = append(got, errTok(e))
				idle.Reset(150 * time.Millisecond)
			case <-idle.C:
				break loop
			}
		}
		d := "-"
		if len(got) > 0 {
			d = strings.Join(got, ",")
		}
		st := " open"
		if closed {
			st = " closed"
		}
		return []string{"ecall " + d + st}
	case "rsstub":
		stub := mqtttest.NewReadSlicesStub(mqtttest.Transfer{Message: unhex(f[1]), Topic: string(unhex(f[2]))})
		m1, t1, _ := stub()
		for i := range m1 {
			m1[i] ^= 0xff
		}
		for i := range t1 {
			t1[i] ^= 0xff
		}
		m2, t2, _ := stub()
		if string(m2) == string(unhex(f[1])) && string(t2) == string(unhex(f[2])) {
			return []string{"rsstub private"}
		}
		return []string{"rsstub shared"}
	case "pubstub":
		err := mqtttest.NewPublishStub(mkErr(f[1]))(quitChan(f[2]), []byte("m"), "t")
		return []string{"pubstub " + errTok(err)}
	case "pubstubh", "substubh": // one stub, several calls: <fix> <quit,quit,...>
		var out []string
		pub := mqtttest.NewPublishStub(mkErr(f[1]))
		sub := mqtttest.NewSubscribeStub(mkErr(f[1]))
		for _, q := range strings.Split(f[2], ",") {
			if f[0] == "pubstubh" {
				out = append(out, errTok(pub(quitChan(q), []byte("m"), "t")))
			} else {
				out = append(out, errTok(sub(quitChan(q), "a")))
			}
		}
		return []string{f[0] + " " + strings.Join(out, ",")}
	case "substub":
		var fs []string
		if f[3] != "none" {
			fs = []string{"a"}
		}
		err := mqtttest.NewSubscribeStub(mkErr(f[1]))(quitChan(f[2]), fs...)
		return []string{"substub " + errTok(err)}
	}
	runtime.KeepAlive(p)
	return []string{"bad-op " + f[0]}
}
