import Model.Packet
/-! Packet composition of the client (request.go, client.go): publishPacket,
SUBSCRIBE/UNSUBSCRIBE composition, newCONNREQ, acknowledgements, with the
deny rules in the order the code applies them. -/
namespace Model

structure Will where
  topic : Bytes := []
  message : Option Bytes := none
  retain : Bool := false
  atLeastOnce : Bool := false
  exactlyOnce : Bool := false
deriving DecidableEq, Repr

structure Cfg where
  userName : Bytes := []
  password : Option Bytes := none
  will : Will := {}
  keepAlive : Nat := 0
  cleanSession : Bool := false
  atLeastOnceMax : Int := 0
  exactlyOnceMax : Int := 0
  reconnectWaitMin : Int := 3000000000     -- nanoseconds; the harness's default Config: 3 s and 20 s
  reconnectWaitMax : Int := 20000000000
deriving DecidableEq, Repr

/-- `newClient` on the reconnect waits (client.go:333-341): zero minimum means one second, a negative one none at all, and the
maximum is raised to the effective minimum when short -/
def waitNorm (mn mx : Int) : Nat × Nat :=
  let mn' : Int := if mn == 0 then 1000000000 else if mn < 0 then 0 else mn
  let mx' : Int := if mx < mn' then mn' else mx
  (mn'.toNat, mx'.toNat)

/-- `Config.valid` apart from the Dialer test -/
def Cfg.valid (c : Cfg) : Option Deny :=
  match stringCheck c.userName with
  | some d => some d
  | none =>
    if (c.password.getD []).length > Facts.stringMax then some .stringMax
    else if (c.will.message.getD []).length > Facts.stringMax then some .stringMax
    else if c.will.message.isSome then topicCheck c.will.topic else stringCheck c.will.topic

def strField (s : Bytes) : Bytes := be16 s.length ++ s

def Cfg.hasUser (c : Cfg) : Bool := !c.userName.isEmpty || c.password.isSome

/-- the connect flags byte of `newCONNREQ` -/
def Cfg.connectFlags (c : Cfg) : Nat :=
  (if c.hasUser then 128 else 0) + (if c.password.isSome then 64 else 0)
    + (match c.will.message with
       | some _ => (if c.will.retain then 32 else 0)
                   + (if c.will.exactlyOnce then Facts.exactlyOnceLevel * 8 else if c.will.atLeastOnce then Facts.atLeastOnceLevel * 8 else 0) + 4
       | none => 0)
    + (if c.cleanSession then 2 else 0)

/-- the remaining length of `newCONNREQ` -/
def Cfg.connectSize (c : Cfg) (clientId : Bytes) : Nat :=
  12 + clientId.length
    + (if c.hasUser then 2 + c.userName.length else 0)
    + (match c.password with | some p => 2 + p.length | none => 0)
    + (match c.will.message with | some m => 4 + c.will.topic.length + m.length | none => 0)

/-- `Config.newCONNREQ(clientID)` -/
def Cfg.connreq (c : Cfg) (clientId : Bytes) : Bytes :=
  [UInt8.ofNat (Facts.typeCONNECT * 16)] ++ encodeVarint (c.connectSize clientId)
    ++ [0, 4, 0x4D, 0x51, 0x54, 0x54, 4, UInt8.ofNat c.connectFlags] ++ be16 c.keepAlive
    ++ strField clientId
    ++ (match c.will.message with | some m => strField c.will.topic ++ strField m | none => [])
    ++ (if c.hasUser then strField c.userName else [])
    ++ (match c.password with | some p => strField p | none => [])

/-- first buffer of `publishPacket(buf, message, topic, packetID, head)`; the
message itself is the second buffer, uncopied -/
def publishHead (head : UInt8) (topic : Bytes) (packetID : Nat) (msgLen : Nat) : Except Deny Bytes :=
  match topicCheck topic with
  | some d => .error d
  | none =>
    let size := 2 + topic.length + msgLen + (if packetID ≠ 0 then 2 else 0)
    if size > Facts.packetMax then .error .packetMax
    else .ok ([head] ++ encodeVarint size ++ strField topic ++ (if packetID ≠ 0 then be16 packetID else []))

def publishPacket (head : UInt8) (topic : Bytes) (packetID : Nat) (msg : Bytes) : Except Deny Bytes :=
  (publishHead head topic packetID msg.length).map (· ++ msg)

def firstDeny (fs : List Bytes) : Option Deny :=
  match fs with
  | [] => none
  | f :: r => match topicCheck f with
    | some d => some d
    | none => firstDeny r

def totalLen (fs : List Bytes) : Nat := (fs.map (·.length)).sum

/-- `subscribeLevel` up to the composed packet (identifier supplied by startTx) -/
def subscribeDeny (fs : List Bytes) : Option Deny :=
  if fs.isEmpty then some .subscribeNone
  else match firstDeny fs with
    | some d => some d
    | none => if 2 + fs.length * 3 + totalLen fs > Facts.packetMax then some .packetMax else none

def subscribePacket (packetID : Nat) (fs : List Bytes) (levelMax : Nat) : Bytes :=
  [UInt8.ofNat (Facts.typeSUBSCRIBE * 16 + Facts.atLeastOnceLevel * 2)]
    ++ encodeVarint (2 + fs.length * 3 + totalLen fs) ++ be16 packetID
    ++ fs.flatMap (fun s => strField s ++ [UInt8.ofNat levelMax])

def unsubscribeDeny (fs : List Bytes) : Option Deny :=
  if fs.isEmpty then some .unsubscribeNone
  else match firstDeny fs with
    | some d => some d
    | none => if 2 + fs.length * 2 + totalLen fs > Facts.packetMax then some .packetMax else none

def unsubscribePacket (packetID : Nat) (fs : List Bytes) : Bytes :=
  [UInt8.ofNat (Facts.typeUNSUBSCRIBE * 16 + Facts.atLeastOnceLevel * 2)]
    ++ encodeVarint (2 + fs.length * 2 + totalLen fs) ++ be16 packetID
    ++ fs.flatMap strField

/-- four-byte acknowledgement packets -/
def ackPacket (type : Nat) (flags : Nat) (packetID : Nat) : Bytes :=
  [UInt8.ofNat (type * 16 + flags), 2] ++ be16 packetID

def packetPINGREQ : Bytes := [UInt8.ofNat (Facts.typePINGREQ * 16), 0]
def packetDISCONNECT : Bytes := [UInt8.ofNat (Facts.typeDISCONNECT * 16), 0]

end Model
