import Model.Core
import Model.Bufio
import Model.WriteLoop
/-! The sequential client model: one `S` value is the whole observable state of
a `*mqtt.Client`, its Persistence, its connections and the scripted
environment. Every API entry point is a total function `S → S × result`
emitting micro-events in program order. Transcribed statement by statement
from client.go / request.go (line references in comments). -/
namespace Model

abbrev Err := List String   -- canonical error class: sorted tags, [] = nil

def errOk : Err := []

def insTag (t : String) : Err → Err
  | [] => [t]
  | x :: xs => if t < x then t :: x :: xs else if t == x then x :: xs else x :: insTag t xs

def mkErr (tags : List String) : Err := tags.foldr insTag []

def rerrTag : RErr → String
  | .timeout => "timeout" | .hard => "hard" | .eof => "eof" | .closed => "netclosed"
  | .bufferFull => "other" | .blocked => "unsupported"

def woutTag : WOut → String
  | .ok => "ok" | .timeout => "timeout" | .hard => "hard" | .closed => "netclosed" | .gate => "gate"

inductive Ev
  | save (key : Nat) (packet : Bytes) (seq : Nat) | saveFail (key : Nat)
  | del (key : Nat) | delFail (key : Nat)
  | dial (ok : Bool)
  | w (conn : Nat) (bs : Bytes)
  | close (conn : Nat)
  | exch (id : Nat) (e : Err) | exchClose (id : Nat)
  | ret (tag : String) (e : Err)
  | note (s : String)
deriving DecidableEq, Repr

inductive RsResult
  | msg (topic payload : Bytes)
  | big (topic : Bytes) (size : Nat)
  | err (e : Err)
  | parked
  | unsupported (why : String)
deriving DecidableEq, Repr

inductive Link | pending | down | live | closed
deriving DecidableEq, Repr

structure DialPlan where
  ok : Bool
  reply : List Chunk := []    -- what the broker sends first (normally the CONNACK)
  wpol : List WPol := []
  block : Bool := false       -- the Dialer blocks until the Client's context is cancelled
deriving DecidableEq, Repr

structure Conn where
  id : Nat
  rd : Rd
  wpol : List WPol := []
  log : Bytes := []
  cerr : Bool := false          -- `Close` of this connection reports an error (it closes all the same)
deriving DecidableEq, Repr

structure Tx where
  tag : String
  id : Nat
  filters : Option (List Bytes)   -- none: unsubscribe
deriving DecidableEq, Repr

inductive WaitKind
  | pub0 (bufs : List Bytes)
  | sub (id : Nat) (packet : Bytes)
  | unsub (id : Nat) (packet : Bytes)
  | ping
deriving DecidableEq, Repr

structure S where
  cfg : Cfg := {}
  bufSize : Nat := 131072
  core : Core := {}                   -- counters, queues and Persistence content (Model.Core)
  fSave : Bool := false               -- next Save fails
  fDel : Bool := false
  fLoad : Bool := false
  dials : List DialPlan := []
  prefeed : List Chunk := []
  nconn : Nat := 0
  conn : Option Conn := none          -- connSem value (the last established or attempted-resend connection)
  hadConn : Bool := false             -- connSem holds non-nil
  readConn : Bool := false            -- c.readConn != nil
  link : Link := .pending             -- writeSem
  connSemClosed : Bool := false
  peek : Bytes := []
  pendingAck : Bytes := []
  big : Option Nat := none            -- c.bigMessage.Size while the window is open
  txN : Nat := 0
  reconnectWait : Nat := 0             -- nanoseconds; the ramp-up state of ReadBackoff
  holdEx : Bool := false               -- the application does not read its exchange channels for now (driver)
  heldEx : List Ev := []
  lastRs : Option Err := none          -- the error of the last ReadSlices return (none: a message); kept by the driver
  txs : List Tx := []
  ping : Option String := none        -- tag of the Ping call owning the slot
  nextEx : Nat := 0
  placeholders : List Nat := []       -- exchange ids nobody listens to (AdoptSession)
  waiters : List (String × WaitKind) := []
  lockq : List (String × WaitKind) := []   -- requests blocked on the write semaphore behind `held`, oldest first
  early : List (String × Err) := []        -- Ping answers that arrived before their caller reached the wait
  parked : Bool := false              -- the reader is inside ReadSlices, blocked between packets
  parkedDial : Bool := false          -- … blocked inside the Dialer (holds connSem)
  parkedHs : Option (Bool × Bool × Option Conn) := none
      -- … blocked awaiting the CONNACK (holds connSem): (clean flag sent, entered from the prologue?, previous connSem value)
  held : Option (String × WaitKind) := none    -- a request blocked inside conn.Write, holding the write lock
  closers : List (String × Bool) := []         -- Close (false) / Disconnect (true) calls that are blocked
  readerCancelled : Bool := false              -- the parked connect attempt was cancelled: ReadSlices returns ErrClosed
  inNewSession : Bool := false
  noClient : Bool := true             -- no usable *Client (before init, after a fatal AdoptSession)
  online : Bool := false              -- the Online signal is released (then Offline is blocked, and the other way round)
  evs : List Ev := []                 -- newest first
deriving Repr

def S.emit (s : S) (e : Ev) : S := { s with evs := e :: s.evs }

/-! ### Persistence through `ruggedPersistence` -/

def S.save (s : S) (key : Nat) (packet : Bytes) : S × Option Err :=
  match s.core.save key packet s.fSave with
  | (c, false) => (({ s with core := c, fSave := false }).emit (.saveFail key), some (mkErr ["store"]))
  | (c, true) => (({ s with core := c }).emit (.save key packet c.seqNo), none)

def S.delete (s : S) (key : Nat) : S × Option Err :=
  match s.core.delete key s.fDel with
  | (c, false) => (({ s with core := c, fDel := false }).emit (.delFail key), some (mkErr ["store"]))
  | (c, true) => (({ s with core := c }).emit (.del key), none)

/-- `ruggedPersistence.Load`: nil means not found -/
def S.load (s : S) (key : Nat) : S × Except Err (Option Bytes) :=
  if s.fLoad then ({ s with fLoad := false }, .error (mkErr ["store"]))
  else match s.core.load key with
    | .ok v => (s, .ok v)
    | .error _ => (s, .error (mkErr ["corrupt"]))

/-! ### Connection writes -/

def Conn.wconn (c : Conn) : WConn := { policy := c.wpol, log := c.log }

/-- run a write loop on the connection and emit the bytes it put on the wire -/
def S.connWrite (s : S) (f : WConn → WConn × WOut) : S × WOut :=
  match s.conn with
  | none => (s, .hard)
  | some c =>
    if c.rd.closed then (s, .closed) else
    let (wc, o) := f c.wconn
    let added := wc.log.drop c.log.length
    -- a `closed` outcome means the connection turned out to be closed already
    let rd := if o == .closed then { c.rd with closed := true } else c.rd
    let s := { s with conn := some { c with wpol := wc.policy, log := wc.log, rd := rd } }
    ((if added.isEmpty then s else s.emit (.w c.id added)), o)

def S.closeConn (s : S) : S :=
  match s.conn with
  | none => s
  | some c => if c.rd.closed then s else ({ s with conn := some { c with rd := { c.rd with closed := true } } }).emit (.close c.id)

/-- epilogue shared by write / writeBuffers / writeBuffersNoWait after a failed transfer (client.go:647-653) -/
def S.afterWriteErr (s : S) (o : WOut) : S × Err :=
  let s := if o == .closed then s else s.closeConn
  ({ s with link := .pending }, mkErr ["submit", woutTag o])

/-- the next `conn.Write` on the live connection blocks (scripted gate) -/
def S.gateAhead (s : S) : Bool :=
  match s.conn with
  | some c => match c.wpol with
    | e :: _ => e.out == .gate
    | [] => false
  | none => false

/-- the read routine's own submission (acknowledgements): never waits for a connect -/
def S.readerWrite (s : S) (p : Bytes) : S × Option Err :=
  match s.link with
  | .closed => (s, some (mkErr ["closed"]))
  | .down | .pending => (s, some (mkErr ["down"]))
  | .live =>
    if s.held.isSome || s.gateAhead then (s, some (mkErr ["unsupported"])) else   -- the reader itself would block
    let (s, o) := s.connWrite (writeTo · p)
    if o == .ok then (s, none) else
      if o == .gate then (s, some (mkErr ["unsupported"])) else
      let (s, e) := s.afterWriteErr o
      (s, some e)

/-! ### Unordered transactions (request.go:199-265) -/

def txSpace (filters : Option (List Bytes)) : Nat :=
  if filters.isSome then Facts.subscribeIDSpace else Facts.unsubscribeIDSpace

def S.startTxLoop : Nat → S → String → Option (List Bytes) → S × Nat
  | 0, s, _, _ => (s, 0)
  | fuel + 1, s, tag, filters =>
    let id := s.txN % (Facts.unorderedIDMask + 1) + txSpace filters
    let s := { s with txN := s.txN + 1 }
    if s.txs.any (·.id == id) then S.startTxLoop fuel s tag filters
    else ({ s with txs := s.txs ++ [{ tag, id, filters }] }, id)

def S.startTx (s : S) (tag : String) (filters : Option (List Bytes)) : S × Option Nat :=
  if s.txs.length > Facts.unorderedIDMask / 16 then (s, none)
  else
    let (s, id) := S.startTxLoop (s.txs.length + 1) s tag filters
    (s, some id)

def S.endTx (s : S) (id : Nat) : S × Option Tx :=
  ({ s with txs := s.txs.filter (·.id != id) }, s.txs.find? (·.id == id))

/-- the request is blocked before its wait for the response: inside `lockWrite` or inside `conn.Write` -/
def S.onTheWay (s : S) (tag : String) : Bool :=
  s.held.any (·.1 == tag) || s.lockq.any (·.1 == tag) || s.waiters.any (·.1 == tag)

/-- an answer goes into the request's own one-place channel: the call returns with it at once when it waits there,
and finds it later (`early`) when it still is on its way to that wait -/
def S.answer (s : S) (tag : String) (e : Err) : S :=
  if s.onTheWay tag then { s with early := s.early ++ [(tag, e)] } else s.emit (.ret tag e)

def S.dropEarly (s : S) (tag : String) : S := { s with early := s.early.filter (·.1 != tag) }

def S.breakAll (s : S) : S :=
  let s' := s.txs.foldl (fun s t => s.answer t.tag (mkErr ["break"])) s
  { s' with txs := [] }

/-! ### Signals, offline, waiters -/

def S.releasePing (s : S) (e : Err) : S :=
  match s.ping with
  | some tag =>
    ({ s with ping := none }).answer tag e
  | none => s

/-- a failed or cancelled Ping frees the slot only when it still holds its own callback (request.go:114-118) -/
def S.dropPing (s : S) (tag : String) : S :=
  { s with ping := if s.ping == some tag then none else s.ping, early := s.early.filter (·.1 != tag) }

/-- a Ping whose PINGREQ is out starts to wait; an answer may be there already -/
def S.pingWaits (s : S) (tag : String) : S :=
  match s.early.find? (·.1 == tag) with
  | some (_, e) => ({ s with early := s.early.filter (·.1 != tag) }).emit (.ret tag e)
  | none => s

/-- replace the gate at the head of the write policy by the outcome the script released it with -/
def S.openGate (s : S) (o : Option WPol) : S :=
  match s.conn with
  | some c =>
    match c.wpol with
    | e :: rest => if e.out == .gate then { s with conn := some { c with wpol := (match o with | some x => [x] | none => []) ++ rest } } else s
    | [] => s
  | none => s

def S.openGateClosed (s : S) : S := s.openGate (some ⟨0, .closed⟩)

/-- one request performs its write once it holds the write lock (client.go:640-706) -/
def S.runWriter (s : S) (tag : String) (k : WaitKind) : S :=
  if s.link != .live then
    let e := if s.link == .closed then mkErr ["closed"] else mkErr ["down"]
    match k with
    | .pub0 _ => s.emit (.ret tag e)
    | .sub id _ | .unsub id _ => (((s.endTx id).1).dropEarly tag).emit (.ret tag e)
    | .ping => (s.dropPing tag).emit (.ret tag e)
  else
    match k with
    | .pub0 bufs =>
      let (s, o) := s.connWrite (writeBuffersTo · bufs)
      if o == .ok then s.emit (.ret tag errOk) else
        let (s, e) := s.afterWriteErr o
        s.emit (.ret tag e)
    | .sub id p | .unsub id p =>
      let (s, o) := s.connWrite (writeTo · p)
      if o == .ok then s.pingWaits tag else
        let (s, e) := s.afterWriteErr o
        (((s.endTx id).1).dropEarly tag).emit (.ret tag e)
    | .ping =>
      let (s, o) := s.connWrite (writeTo · packetPINGREQ)
      if o == .ok then s.pingWaits tag else
        let (s, e) := s.afterWriteErr o
        (s.dropPing tag).emit (.ret tag e)

/-- the write lock came free: the requests queued on the semaphore take it in their order of arrival. One that
finds no connection joins the pollers; one that meets a write gate becomes the new holder and the rest stays. -/
def S.drainLockq : Nat → S → S
  | 0, s => s
  | fuel + 1, s =>
    if s.held.isSome then s else
    match s.lockq with
    | [] => s
    | (tag, k) :: rest =>
      let s := { s with lockq := rest }
      match s.link with
      | .pending => S.drainLockq fuel { s with waiters := s.waiters ++ [(tag, k)] }
      | .live =>
        if s.gateAhead then { s with held := some (tag, k) }
        else S.drainLockq fuel (s.runWriter tag k)
      | _ => S.drainLockq fuel (s.runWriter tag k)

def S.afterHolder (s : S) : S := S.drainLockq (s.lockq.length + 1) s

/-- a waiter that found the live connection performs its write -/
def S.runWaiters (s : S) : S :=
  let s' := s.waiters.foldl (fun s (tag, k) =>
    -- a waiter that meets a write gate becomes the holder of the write lock; later ones queue behind it
    if s.held.isSome then { s with lockq := s.lockq ++ [(tag, k)] }
    else if s.link == .live && s.gateAhead then { s with held := some (tag, k) }
    else s.runWriter tag k) s
  { s' with waiters := [] }

/-- `toOffline` (client.go:566-597) -/
def S.toOffline (s : S) : S :=
  -- a closed client: only the read state of the connection is abandoned (F25)
  if s.link == .closed then { s with readConn := false, big := none, peek := [] } else
  let s := s.closeConn
  -- a request blocked inside conn.Write is interrupted by the close and hands the lock back
  let s := match s.held with
    | some (wtag, k) => ((({ s with held := none }).openGateClosed).runWriter wtag k).afterHolder
    | none => s
  let s := { s with link := .pending, readConn := false, big := none, peek := [], online := false }
  let s := s.releasePing (mkErr ["break"])
  s.breakAll

/-- `resend` (client.go:1017-1042) -/
def S.resendLoop : Nat → S → Nat → Level → S × Level × Option Err
  | 0, s, _, lv => (s, lv, none)
  | fuel + 1, s, seqNo, lv =>
    if seqNo ≥ lv.acceptN then (s, lv, none) else
    let key := publishKey lv.space seqNo
    match s.load key with
    | (s, .error e) => (s, lv, some e)
    | (s, .ok none) => (s, lv, some (mkErr ["other"]))   -- "gone missing"
    | (s, .ok (some packet)) =>
      let packet :=
        match packet with
        | h :: rest => if lv.isDup seqNo && h.toNat / 16 == Facts.typePUBLISH
                       then UInt8.ofNat (h.toNat ||| Facts.dupeFlag) :: rest else packet
        | [] => packet
      let (s, o) := s.connWrite (writeTo · packet)
      if o != .ok then (s, lv, some (mkErr [woutTag o]))
      else
        S.resendLoop fuel s (seqNo + 1) (lv.resent seqNo)

def S.resend (s : S) (from_ : Nat) (lv : Level) : S × Level × Option Err :=
  S.resendLoop (lv.acceptN - from_ + 1) s from_ lv

inductive HsResult | ok (sessionPresent : Bool) | err (e : Err)
deriving DecidableEq, Repr

/-- CONNACK validation of `handshake` (client.go:1062-1110) on what `Peek(4)` returned -/
def connackCheck (clean : Bool) (packet : Bytes) (e : Option RErr) : HsResult :=
  let headerBad := match packet with
    | b0 :: b1 :: _ => b0.toNat != Facts.typeCONNACK * 16 || b1.toNat != 2
    | _ => false
  if headerBad then .err (mkErr ["reset"]) else
  match e with
  | some re => .err (mkErr [if re == .eof then "eof" else rerrTag re])
  | none =>
    match packet with
    | [_, _, flags, code] =>
      if code.toNat != 0 then .err (mkErr [if code.toNat ≤ 5 then s!"refused:{code.toNat}" else "refused:x"])
      else if flags.toNat == 0 then .ok false
      else if flags.toNat == 1 then (if clean then .err (mkErr ["reset"]) else .ok true)
      else .err (mkErr ["reset"])
    | _ => .err (mkErr ["other"])

/-- waiters blocked in `lockWrite` learn the outcome of the connect attempt -/
def S.failWaiters (s : S) (e : Err) : S :=
  let s' := s.waiters.foldl (fun s (tag, k) =>
    let s := match k with
      | .sub id _ | .unsub id _ => ((s.endTx id).1).dropEarly tag
      | .ping => s.dropPing tag
      | .pub0 _ => s
    s.emit (.ret tag e)) s
  { s' with waiters := [] }

inductive ConnectResult
  | done (e : Option Err)
  | parkedDial          -- the Dialer blocks
  | parkedHs            -- the CONNACK is withheld
  | unsupported (why : String)
deriving DecidableEq, Repr

/-- after a failed handshake: close, restore connSem, ErrDown for waiting requests (client.go:911-918, 1007-1010) -/
def S.connectFail (s : S) (prev : Option Conn) (e : Err) : S × ConnectResult :=
  let s := s.closeConn
  -- the failed connection is not installed in connSem (previousConn is restored)
  let s := { s with conn := if s.hadConn then prev else none, link := .down }
  (s.failWaiters (mkErr ["down"]), .done (some e))

/-- `handshake` from the CONNACK on, then `resend` and release (client.go:1062-1110, 920-954) -/
def dropSatisfiedBlocks : List Chunk → List Chunk
  | [] => []
  | [c] => [c]
  | .block :: rest => dropSatisfiedBlocks rest
  | c :: rest => c :: dropSatisfiedBlocks rest

def S.connectFinish (s : S) (clean : Bool) (prev : Option Conn) : S × ConnectResult :=
  match s.conn with
  | none => (s, .done (some (mkErr ["other"])))
  | some c =>
    let c := { c with rd := { c.rd with inq := dropSatisfiedBlocks c.rd.inq } }
    let s := { s with conn := some c }
    let (rd, packet, e) := c.rd.peek 4
    if e == some .blocked then
      -- nothing consumed yet: wait for the rest of the CONNACK
      (s, .parkedHs)
    else
    let s := { s with conn := some { c with rd := rd } }
    match connackCheck clean packet e with
    | .err e => s.connectFail prev e
    | .ok sp =>
      let s := if sp then s else { s with inNewSession := true }
      let s := { s with conn := some { c with rd := (rd.discard 4).1 }, hadConn := true }
      -- resend under both sequence locks and the write lock
      let (s, l1, e1) := s.resend s.core.acked s.core.l1
      let s := { s with core := { s.core with l1 := l1 } }
      match e1 with
      | some e =>
        if e == mkErr ["gate"] then (s, .unsupported "write gate inside resend") else
        ((({ s.closeConn with link := .down }).failWaiters (mkErr ["down"])), .done (some e))
      | none =>
        let (s, l2, e2) := s.resend s.core.completed s.core.l2
        let s := { s with core := { s.core with l2 := l2 } }
        match e2 with
        | some e =>
          if e == mkErr ["gate"] then (s, .unsupported "write gate inside resend") else
          ((({ s.closeConn with link := .down }).failWaiters (mkErr ["down"])), .done (some e))
        | none => ({ s with link := .live, readConn := true, reconnectWait := 0, online := true }, .done none)

/-- `connect` (client.go:888-955) with `dialAndConnect` and `handshake` inlined -/
def S.connect (s : S) (fromPrologue : Bool) : S × ConnectResult :=
  if s.connSemClosed then (s, .done (some (mkErr ["closed"]))) else
  let clean := s.cfg.cleanSession && !s.hadConn
  -- dialAndConnect: client identifier first
  match s.load Facts.clientIDKey with
  | (s, .error e) => (({ s with link := .down }).failWaiters (mkErr ["down"]), .done (some e))
  | (s, .ok cid) =>
    let clientID := cid.getD []
    let (plan, rest) : DialPlan × List DialPlan := match s.dials with
      | p :: r => (p, r)
      | [] => ({ ok := true, reply := [.data [0x20, 2, 0, 0]] }, [])
    let s := { s with dials := rest }
    if plan.block then ({ s with parkedDial := true }, .parkedDial) else
    if !plan.ok then
      let s := s.emit (.dial false)
      (({ s with link := .down }).failWaiters (mkErr ["down"]), .done (some (mkErr ["hard"])))
    else
      let c : Conn := { id := s.nconn, rd := { size := s.bufSize, inq := plan.reply ++ s.prefeed }, wpol := plan.wpol }
      let prev := s.conn
      let s := ({ s with nconn := s.nconn + 1, prefeed := [], conn := some c }).emit (.dial true)
      -- handshake: CONNECT
      let cfg' : Cfg := { s.cfg with cleanSession := clean }
      let (s, o) := s.connWrite (writeTo · (cfg'.connreq clientID))
      if o == .gate then (s, .unsupported "write gate on CONNECT") else
      if o != .ok then s.connectFail prev (mkErr [woutTag o]) else
      match s.connectFinish clean prev with
      | (s, .parkedHs) => ({ s with parkedHs := some (clean, fromPrologue, prev) }, .parkedHs)
      | r => r

/-! ### The read routine -/

def S.rd? (s : S) : Option Rd := s.conn.map (·.rd)
def S.setRd (s : S) (rd : Rd) : S :=
  match s.conn with
  | some c => { s with conn := some { c with rd := rd } }
  | none => s

inductive PeekResult
  | ok (head : UInt8)
  | big (head : UInt8) (size : Nat)
  | err (e : Err)
  | unsupported
deriving DecidableEq, Repr

def ueof (e : RErr) : String := if e == .eof then "ueof" else rerrTag e

/-- "remaining length" decoding of `peekPacket` (client.go:795-818) -/
def S.sizeLoop : Nat → S → Rd → Nat → Nat → Rd × Except Err Nat
  | 0, _, rd, _, _ => (rd, .error (mkErr ["other"]))
  | fuel + 1, s, rd, shift, size =>
    match rd.readByte with
    | (rd, some b, _) =>
      match remLenStep shift size b with
      | .done n => (rd, .ok n)
      | .tooLong => (rd, .error (mkErr ["reset"]))
      | .more n => S.sizeLoop fuel s rd (shift + 7) n
    | (rd, none, e) => (rd, .error (mkErr [ueof (e.getD .hard)]))

/-- the `Peek` loop of `peekPacket` (client.go:820-849): deadline expiry is tolerated after progress -/
def S.peekLoop : Nat → Rd → Nat → Nat → Rd × Bytes × Option RErr
  | 0, rd, _, _ => (rd, [], some .hard)
  | fuel + 1, rd, n, lastN =>
    match rd.peek n with
    | (rd, slice, none) => (rd, slice, none)
    | (rd, slice, some e) =>
      if slice.length > lastN && e == .timeout then S.peekLoop fuel rd n slice.length
      else (rd, slice, some e)

def S.peekPacket (s : S) : S × PeekResult :=
  match s.rd? with
  | none => (s, .err (mkErr ["other"]))
  | some rd =>
    match rd.readByte with
    | (rd, none, e) =>
      let e := e.getD .hard
      if e == .blocked then (s.setRd rd, .unsupported) else (s.setRd rd, .err (mkErr [rerrTag e]))
    | (rd, some head, _) =>
      match S.sizeLoop 5 s rd 0 0 with
      | (rd, .error e) => (s.setRd rd, if e == mkErr ["unsupported"] then .unsupported else .err e)
      | (rd, .ok size) =>
        let n := min size rd.size
        match S.peekLoop (rd.inqWeight + 2) rd n 0 with
        | (rd, slice, none) =>
          let s := { s.setRd rd with peek := slice }
          if size ≤ rd.size then (s, .ok head)
          else if head.toNat / 16 == Facts.typePUBLISH then (s, .big head size)
          else (s, .err (mkErr ["other"]))
        | (rd, slice, some e) =>
          let s := { s.setRd rd with peek := slice }
          if e == .blocked then (s, .unsupported) else (s, .err (mkErr [ueof e]))

/-- `Client.discard` (client.go:852-883) -/
def S.discardLoop : Nat → Rd → Nat → Rd × Option RErr
  | 0, rd, _ => (rd, some .hard)
  | fuel + 1, rd, n =>
    -- every round arms the read deadline first: on a connection that was closed locally that fails, nothing is skipped
    if rd.closed then (rd, some .closed) else
    match rd.discard n with
    | (rd, _, none) => (rd, none)
    | (rd, done, some e) =>
      if done != 0 && e == .timeout then S.discardLoop fuel rd (n - done) else (rd, some e)

def S.discard (s : S) (n : Nat) : S × Option Err :=
  match s.rd? with
  | none => (s, some (mkErr ["other"]))
  | some rd =>
    match S.discardLoop (rd.inqWeight + 2) rd n with
    | (rd, none) => (s.setRd rd, none)
    | (rd, some e) => (s.setRd rd, some (mkErr [rerrTag e]))

def remoteKey (id : Nat) : Nat := id + Facts.remoteIDKeyFlag

inductive PubResult
  | msg (payload topic : Bytes)
  | dupe
  | err (e : Err)
deriving DecidableEq, Repr

/-- what `onPUBLISH` reads off the packet body (client.go:1360-1419), before
any state is consulted -/
inductive PubParse
  | atMostOnce (payload topic : Bytes)
  | atLeastOnce (id : Nat) (payload topic : Bytes)
  | exactlyOnce (id : Nat) (payload topic : Bytes)
  | violation
deriving DecidableEq, Repr

def parsePublish (head : UInt8) (peek : Bytes) : PubParse :=
  match peek with
  | hi :: lo :: _ =>
    let i := beU16 hi lo + 2
    if i > peek.length then .violation else
    let topic := (peek.take i).drop 2
    let qos := head.toNat / 2 % 4
    if qos == 0 then .atMostOnce (peek.drop i) topic
    else if qos == 3 then .violation
    else
      match peek.drop i with
      | ih :: il :: payload =>
        let id := beU16 ih il
        if id == 0 then .violation
        else if qos == 1 then .atLeastOnce id payload topic
        else .exactlyOnce id payload topic
      | _ => .violation
  | _ => .violation

/-- enqueue an acknowledgement for the next `ReadSlices` (the "internal error" guard included) -/
def S.enqueueAck (s : S) (ack : Bytes) (r : PubResult) : S × PubResult :=
  if !s.pendingAck.isEmpty then (s, .err (mkErr ["other"])) else ({ s with pendingAck := ack }, r)

/-- `onPUBLISH` (client.go:1360-1419) -/
def S.onPUBLISH (s : S) (head : UInt8) : S × PubResult :=
  match parsePublish head s.peek with
  | .violation => (s, .err (mkErr ["reset"]))
  | .atMostOnce payload topic => (s, .msg payload topic)
  | .atLeastOnce id payload topic => s.enqueueAck (ackPacket Facts.typePUBACK 0 id) (.msg payload topic)
  | .exactlyOnce id payload topic =>
    match s.load (remoteKey id) with
    | (s, .error e) => (s, .err e)
    | (s, .ok (some _)) =>
      -- received already: confirm again, the earlier PUBREC may have been lost
      s.enqueueAck (ackPacket Facts.typePUBREC 0 id) .dupe
    | (s, .ok none) => s.enqueueAck (ackPacket Facts.typePUBREC 0 id) (.msg payload topic)

def S.closeExchange (s : S) (ex : Option Nat) : S :=
  match ex with
  | some ex => if s.placeholders.contains ex then s else s.emit (.exchClose ex)
  | none => s

/-- `onPUBACK` (request.go:664-692) -/
def S.onPUBACK (s : S) : S × Option Err :=
  match s.peek with
  | [hi, lo] =>
    let id := beU16 hi lo
    match s.core.pubackCheck id with
    | .reset => (s, some (mkErr ["reset"]))
    | .ok =>
      match s.core.puback id s.fDel with
      | (c, none) => (({ s with core := c, fDel := false }).emit (.delFail id), some (mkErr ["store"]))
      | (c, some ex) => ((({ s with core := c }).emit (.del id)).closeExchange (some ex), none)
  | _ => (s, some (mkErr ["reset"]))

/-- `onPUBREC` (request.go:695-730) -/
def S.onPUBREC (s : S) : S × Option Err :=
  match s.peek with
  | [hi, lo] =>
    let id := beU16 hi lo
    match s.core.pubrecCheck id with
    | .reset => (s, some (mkErr ["reset"]))
    | .ok =>
      let rel := ackPacket Facts.typePUBREL 2 id
      match s.core.pubrec id rel s.fSave with
      | (c, false) => (({ s with core := c, fSave := false, pendingAck := [] }).emit (.saveFail id), some (mkErr ["store"]))
      | (c, true) =>
        let s := ({ s with core := c, pendingAck := rel }).emit (.save id rel c.seqNo)
        match s.readerWrite s.pendingAck with
        | (s, some e) => (s, some e)
        | (s, none) => ({ s with pendingAck := [] }, none)
  | _ => (s, some (mkErr ["reset"]))

/-- `onPUBREL` (client.go:1421-1446) -/
def S.onPUBREL (s : S) : S × Option Err :=
  match s.peek with
  | [hi, lo] =>
    let id := beU16 hi lo
    if id == 0 then (s, some (mkErr ["reset"])) else
    match s.delete (remoteKey id) with
    | (s, some e) => (s, some e)
    | (s, none) =>
      if !s.pendingAck.isEmpty then (s, some (mkErr ["other"])) else
      let s := { s with pendingAck := ackPacket Facts.typePUBCOMP 0 id }
      match s.readerWrite s.pendingAck with
      | (s, some e) => (s, some e)
      | (s, none) => ({ s with pendingAck := [] }, none)
  | _ => (s, some (mkErr ["reset"]))

/-- `onPUBCOMP` (request.go:733-761) -/
def S.onPUBCOMP (s : S) : S × Option Err :=
  match s.peek with
  | [hi, lo] =>
    let id := beU16 hi lo
    match s.core.pubcompCheck id with
    | .reset => (s, some (mkErr ["reset"]))
    | .ok =>
      match s.core.pubcomp id s.fDel with
      | (c, none) => (({ s with core := c, fDel := false }).emit (.delFail id), some (mkErr ["store"]))
      | (c, some ex) => ((({ s with core := c }).emit (.del id)).closeExchange (some ex), none)
  | _ => (s, some (mkErr ["reset"]))

def subErrTag (fs : List Bytes) : String := "suberr:" ++ ",".intercalate (fs.map hexOrDash)

/-- `onSUBACK` (request.go:343-393) -/
def S.onSUBACK (s : S) : S × Option Err :=
  match s.peek with
  | hi :: lo :: c :: cs =>
    let id := beU16 hi lo
    let codes := c :: cs
    if id == 0 then (s, some (mkErr ["reset"]))
    else if id / (Facts.unorderedIDMask + 1) * (Facts.unorderedIDMask + 1) != Facts.subscribeIDSpace then (s, some (mkErr ["reset"]))
    else if codes.any (fun x => !(x.toNat ≤ 2 || x.toNat == 128)) then (s, some (mkErr ["reset"]))
    else match s.endTx id with
      | (s, none) => (s, none)
      | (s, some tx) =>
        let fs := tx.filters.getD []
        if fs.length != codes.length then
          (s.answer tx.tag (mkErr ["break"]), some (mkErr ["reset"]))
        else
          let failed := (fs.zip codes).filterMap fun (f, code) => if code.toNat == 128 then some f else none
          if failed.isEmpty then (s.answer tx.tag errOk, none)
          else (s.answer tx.tag (mkErr [subErrTag failed]), none)
  | _ => (s, some (mkErr ["reset"]))

/-- `onUNSUBACK` (request.go:456-472) -/
def S.onUNSUBACK (s : S) : S × Option Err :=
  match s.peek with
  | [hi, lo] =>
    let id := beU16 hi lo
    if id == 0 then (s, some (mkErr ["reset"]))
    else if id / (Facts.unorderedIDMask + 1) * (Facts.unorderedIDMask + 1) != Facts.unsubscribeIDSpace then (s, some (mkErr ["reset"]))
    else match s.endTx id with
      | (s, none) => (s, none)
      | (s, some tx) => (s.answer tx.tag errOk, none)
  | _ => (s, some (mkErr ["reset"]))

/-- `onPINGRESP` (request.go:138-149) -/
def S.onPINGRESP (s : S) : S × Option Err :=
  if !s.peek.isEmpty then (s, some (mkErr ["reset"])) else (s.releasePing errOk, none)

/-- the dispatch `switch head >> 4` of `readSlices` for everything but PUBLISH -/
def S.dispatch (s : S) (head : UInt8) : S × Option Err :=
  let t := head.toNat / 16
  if t == Facts.typePUBACK then s.onPUBACK
  else if t == Facts.typePUBREC then s.onPUBREC
  else if t == Facts.typePUBREL then s.onPUBREL
  else if t == Facts.typePUBCOMP then s.onPUBCOMP
  else if t == Facts.typeSUBACK then s.onSUBACK
  else if t == Facts.typeUNSUBACK then s.onUNSUBACK
  else if t == Facts.typePINGRESP then s.onPINGRESP
  else (s, some (mkErr ["reset"]))   -- reserved and client-only packet types, second CONNACK

/-- A request that waited in `lockWrite` for this connect writes concurrently
with the read routine. The sequential model covers only the case where the
read routine does nothing observable meanwhile: nothing owed, nothing to
discard, and the broker silent (`block`) after the CONNACK. -/
def S.quietAfterConnect (s : S) : Bool :=
  s.pendingAck.isEmpty && s.big.isNone &&
  match s.rd? with
  | some rd => rd.buf.isEmpty && rd.err.isNone && rd.inq == [.block]
  | none => false

/-- the packet loop of `readSlices` (client.go:1228-1323) -/
def S.rsLoop : Nat → S → S × RsResult
  | 0, s => (s, .unsupported "fuel")
  | fuel + 1, s =>
    -- drop satisfied `block` markers; park when nothing is available between packets
    let s := match s.rd? with
      | some rd =>
        if rd.buf.isEmpty && rd.err.isNone && !rd.closed then
          match rd.inq with
          | .block :: c :: rest => s.setRd { rd with inq := c :: rest }
          | _ => s
        else s
      | none => s
    let parkNow : Bool := match s.rd? with
      | some rd => rd.buf.isEmpty && rd.err.isNone && !rd.closed && rd.inq == [.block]
      | none => false
    if parkNow then ({ s with parked := true }, .parked) else
    match s.peekPacket with
    | (s, .unsupported) => (s, .unsupported "block inside a packet")
    | (s, .err e) =>
      if e == mkErr ["netclosed"] then
        -- closed by either Close, Disconnect, or failed write
        let s := s.toOffline
        match s.connect false with
        | (s, .done (some e)) => (s, .err e)
        | (s, .parkedDial) => (s, .parked)
        | (s, .parkedHs) => (s, .parked)
        | (s, .unsupported w) => (s, .unsupported w)
        | (s, .done none) =>
          if !s.waiters.isEmpty then
            if !s.quietAfterConnect || s.waiters.length > 1 then (s, .unsupported "waiter races with the reader") else
            S.rsLoop fuel s.runWaiters
          else S.rsLoop fuel s
      else (s.toOffline, .err e)
    | (s, .big head size) =>
      match s.onPUBLISH head with
      | (s, .err e) => (s.toOffline, .err e)
      | (s, .dupe) =>
        let s := { s with peek := [] }
        match s.discard size with
        | (s, some e) => (s.toOffline, .err e)
        | (s, none) =>
          match s.readerWrite s.pendingAck with
          | (s, some e) => (s.toOffline, .err e)
          | (s, none) => S.rsLoop fuel { s with pendingAck := [] }
      | (s, .msg partialMessage topic) =>
        let before := s.bufSize - partialMessage.length
        let s := { s with big := some (size - before), peek := [] }
        match s.discard before with
        | (s, _) => (s, .big topic (size - before))
    | (s, .ok head) =>
      if head.toNat / 16 == Facts.typePUBLISH then
        match s.onPUBLISH head with
        | (s, .msg payload topic) => (s, .msg topic payload)
        | (s, .err e) => (s.toOffline, .err e)
        | (s, .dupe) =>
          match s.readerWrite s.pendingAck with
          | (s, some e) => (s.toOffline, .err e)
          | (s, none) =>
            let s := { s with pendingAck := [] }
            match s.discard s.peek.length with
            | (s, _) => S.rsLoop fuel { s with peek := [] }
      else
        match s.dispatch head with
        | (s, some e) => (s.toOffline, .err e)
        | (s, none) =>
          match s.discard s.peek.length with
          | (s, _) => S.rsLoop fuel { s with peek := [] }

def S.rsFuel (s : S) : Nat :=
  (match s.rd? with | some rd => rd.inqWeight | none => 0) + (s.dials.map fun d => d.reply.length + 2).sum
    + s.prefeed.length + 16

/-- `termCallbacks` (client.go:479-529) -/
def S.flushQueue (s : S) (q : List Nat) : S :=
  q.foldl (fun s ex => if s.placeholders.contains ex then s else s.emit (.exch ex (mkErr ["closed"]))) s

def S.flushLevel (s : S) (lv : Level) : S := if lv.seqClosed then s else s.flushQueue lv.queue

def S.termCallbacks (s : S) : S :=
  let s1 := s.flushLevel s.core.l1
  let s2 := s1.flushLevel s1.core.l2
  ({ s2 with core := s2.core.term }.releasePing (mkErr ["break"])).breakAll

def S.finishRs (s : S) (r : RsResult) : S × RsResult :=
  match r with
  | .err e => if e.contains "closed" then (s.termCallbacks, r) else (s, r)
  | _ => (s, r)

/-- the prologue of `readSlices` once no big message is pending any more: previous packet, owed acknowledgement, packet loop -/
def S.rsRest (s : S) : S × RsResult :=
  -- skip previous packet, if any: plain `bufr.Discard` of bytes that are in the buffer, no deadline, no error
  let s := match s.rd? with
    | some rd => s.setRd (rd.discard s.peek.length).1
    | none => s
  let s := { s with peek := [] }
  -- acknowledge previous packet, if any
  if !s.pendingAck.isEmpty then
    let isRec := match s.pendingAck with | h :: _ => h.toNat / 16 == Facts.typePUBREC | [] => false
    let (s, se) : S × Option Err :=
      if isRec then
        match s.pendingAck with
        | _ :: _ :: hi :: lo :: _ => s.save (remoteKey (beU16 hi lo)) s.pendingAck
        | _ => (s, none)
      else (s, none)
    match se with
    | some e => s.finishRs (.err e)
    | none =>
      match s.readerWrite s.pendingAck with
      | (s, some e) => s.toOffline.finishRs (.err e)
      | (s, none) =>
        let (s, r) := S.rsLoop s.rsFuel { s with pendingAck := [] }
        s.finishRs r
  else
    let (s, r) := S.rsLoop s.rsFuel s
    s.finishRs r

/-- the prologue of `readSlices` after the auto-connect (client.go:1189-1240), then the packet loop -/
def S.rsAfterConnect (s : S) : S × RsResult :=
  if !s.waiters.isEmpty && (!s.quietAfterConnect || s.waiters.length > 1) then (s, .unsupported "waiter races with the reader") else
  let s := s.runWaiters
  -- flush big message if any
  let (s, de) : S × Option Err := match s.big with
    | some remaining => ({ s with big := none }).discard remaining
    | none => (s, none)
  match de with
  | some e =>
    if e == mkErr ["netclosed"] then
      -- closed by either Close, Disconnect, or failed write: as in the packet loop (F25)
      let s := s.toOffline
      match s.connect true with
      | (s, .done (some e)) => s.finishRs (.err e)
      | (s, .parkedDial) => (s, .parked)
      | (s, .parkedHs) => (s, .parked)
      | (s, .unsupported w) => (s, .unsupported w)
      | (s, .done none) =>
        if !s.waiters.isEmpty && (!s.quietAfterConnect || s.waiters.length > 1) then (s, .unsupported "waiter races with the reader") else
        s.runWaiters.rsRest
    else s.toOffline.finishRs (.err e)
  | none => s.rsRest

/-- `ReadSlices` (client.go:1170-1274): prologue, then the packet loop. A call
that is parked (between packets, awaiting the CONNACK) continues where it was. -/
def S.readSlices (s : S) : S × RsResult :=
  if s.parked then
    let (s, r) := S.rsLoop (s.rsFuel) { s with parked := false }
    s.finishRs r
  else if s.parkedDial then (s, .parked)     -- only a cancelled context ends the dial (see `closeClient`)
  else match s.parkedHs with
  | some (clean, fromPrologue, prev) =>
    match ({ s with parkedHs := none }).connectFinish clean prev with
    | (s, .parkedHs) => ({ s with parkedHs := some (clean, fromPrologue, prev) }, .parked)
    | (s, .parkedDial) => (s, .parked)
    | (s, .unsupported w) => (s, .unsupported w)
    | (s, .done (some e)) => s.finishRs (.err e)
    | (s, .done none) =>
      if fromPrologue then s.rsAfterConnect
      else
        if !s.waiters.isEmpty && (!s.quietAfterConnect || s.waiters.length > 1) then (s, .unsupported "waiter races with the reader") else
        let (s, r) := S.rsLoop s.rsFuel s.runWaiters
        s.finishRs r
  | none =>
    -- auto connect
    if !s.readConn then
      match s.connect true with
      | (s, .done (some e)) => s.finishRs (.err e)
      | (s, .parkedDial) => (s, .parked)
      | (s, .parkedHs) => (s, .parked)
      | (s, .unsupported w) => (s, .unsupported w)
      | (s, .done none) => s.rsAfterConnect
    else s.rsAfterConnect

/-- the read loop of `BigMessage.ReadAll`: a deadline expiry that saw progress is tolerated, as in `discard`. The flag tells
whether a read failed (as opposed to the arming of the deadline on a connection closed already) -/
def readAllLoop : Nat → Rd → Nat → Bytes → Rd × Except Err Bytes × Bool
  | 0, rd, _, _ => (rd, .error (mkErr ["other"]), false)
  | fuel + 1, rd, size, acc =>
    if rd.closed then (rd, .error (mkErr [rerrTag .closed]), false) else      -- arming the deadline fails, nothing is read
    match rd.readFull (size - acc.length) with
    | (rd, bs, none) => (rd, .ok (acc ++ bs), false)
    | (rd, bs, some e) =>
      if e == .timeout && !bs.isEmpty then readAllLoop fuel rd size (acc ++ bs)
      else (rd, .error (mkErr [if e == .eof && !bs.isEmpty then "ueof" else rerrTag e]), true)

/-- `BigMessage.ReadAll` (client.go:1396-1436): after a failed read the connection stands somewhere inside the payload and is
given up (F26) -/
def S.readAll (s : S) : S × Except Err Bytes :=
  match s.big, s.rd? with
  | some size, some rd =>
    let s := { s with big := none }
    match readAllLoop (size + 1) rd size [] with
    | (rd, r, failed) => (if failed then (s.setRd rd).toOffline else s.setRd rd, r)
  | _, _ => (s, .error (mkErr ["other"]))

/-! ### Requests -/

inductive CallResult
  | ret (e : Err)       -- returned
  | blocked             -- waits (for the connect outcome or for the response)
  | unsupported (why : String)
deriving DecidableEq, Repr

/-- `lockWrite` as seen by one request: what to do next -/
inductive Lock | go | wait | fail (e : Err)

def S.lockWrite (s : S) : Lock :=
  match s.link with
  | .closed => .fail (mkErr ["closed"])
  | .down => .fail (mkErr ["down"])
  | .pending => .wait
  | .live => .go

/-- `Publish` / `PublishRetained` (request.go:488-517) -/
def S.publish0 (s : S) (tag : String) (retain : Bool) (topic msg : Bytes) : S × CallResult :=
  let head := UInt8.ofNat (Facts.typePUBLISH * 16 + (if retain then Facts.retainFlag else 0))
  match publishHead head topic 0 msg.length with
  | .error _ => (s, .ret (mkErr ["deny"]))
  | .ok hd =>
    match s.lockWrite with
    | .fail e => (s, .ret e)
    | .wait =>
      if !s.waiters.isEmpty then (s, .unsupported "second waiter") else
      ({ s with waiters := [(tag, .pub0 [hd, msg])] }, .blocked)
    | .go =>
      if !s.closers.isEmpty then (s, .unsupported "request while a closer waits") else
      if s.held.isSome then ({ s with lockq := s.lockq ++ [(tag, .pub0 [hd, msg])] }, .blocked) else
      if s.gateAhead then ({ s with held := some (tag, .pub0 [hd, msg]) }, .blocked) else
      let (s, o) := s.connWrite (writeBuffersTo · [hd, msg])
      if o == .ok then (s, .ret errOk) else
        if o == .gate then (s, .unsupported "write gate inside a packet") else
        let (s, e) := s.afterWriteErr o
        (s, .ret e)

/-- `submitPersisted` with `applySeqNoAndEnqueue` (request.go:579-635); `lvl` is 1 or 2 -/
def S.publishPersisted (s : S) (lvl : Nat) (retain : Bool) (topic msg : Bytes) : S × Err × Option Nat :=
  let lv := s.core.lv lvl
  let head := UInt8.ofNat (Facts.typePUBLISH * 16 + lvl * 2 + (if retain then Facts.retainFlag else 0))
  -- publishPacket is composed with the space as identifier first (deny rules)
  match publishHead head topic lv.space msg.length with
  | .error _ => (s, mkErr ["deny"], none)
  | .ok _ =>
    let mkHead (key : Nat) : Bytes := match publishHead head topic key msg.length with | .ok hd => hd | .error _ => []
    let ex := s.nextEx
    match s.core.accept lvl (fun key => mkHead key ++ msg) s.fSave ex with
    | (_, .closed) => (s, mkErr ["closed"], none)
    | (_, .max) => (s, mkErr ["max"], none)
    | (c, .saveFailed) =>
      (({ s with core := c, fSave := false }).emit (.saveFail (publishKey lv.space lv.acceptN)), mkErr ["store"], none)
    | (c, .ok key hadBacklog) =>
      let s := ({ s with core := c, nextEx := ex + 1 }).emit (.save key (mkHead key ++ msg) c.seqNo)
      if hadBacklog then (s.emit (.exch ex (mkErr ["down"])), errOk, some ex)
      else
        -- writeBuffersNoWait
        match s.link with
        | .closed => (s.emit (.exch ex (mkErr ["closed"])), errOk, some ex)
        | .down | .pending => (s.emit (.exch ex (mkErr ["down"])), errOk, some ex)
        | .live =>
          if s.held.isSome || s.gateAhead then (s, mkErr ["unsupported"], none) else
          let (s, o) := s.connWrite (writeBuffersTo · [mkHead key, msg])
          if o == .gate then (s, mkErr ["unsupported"], none) else
          if o == .ok then ({ s with core := s.core.markSubmitted lvl }, errOk, some ex)
          else
            let (s, e) := s.afterWriteErr o
            (s.emit (.exch ex e), errOk, some ex)

/-- `subscribeLevel` (request.go:288-341) up to the wait for the response -/
def S.subscribe (s : S) (tag : String) (filters : List Bytes) (levelMax : Nat) : S × CallResult :=
  match subscribeDeny filters with
  | some _ => (s, .ret (mkErr ["deny"]))
  | none =>
    match s.startTx tag (some filters) with
    | (s, none) => (s, .ret (mkErr ["max"]))
    | (s, some id) =>
      let packet := subscribePacket id filters levelMax
      match s.lockWrite with
      | .fail e => ((s.endTx id).1, .ret e)
      | .wait =>
        if !s.waiters.isEmpty then (s, .unsupported "second waiter") else
        ({ s with waiters := [(tag, .sub id packet)] }, .blocked)
      | .go =>
        if !s.closers.isEmpty then (s, .unsupported "request while a closer waits") else
        if s.held.isSome then ({ s with lockq := s.lockq ++ [(tag, .sub id packet)] }, .blocked) else
        if s.gateAhead then ({ s with held := some (tag, .sub id packet) }, .blocked) else
        let (s, o) := s.connWrite (writeTo · packet)
        if o == .ok then (s, .blocked) else
          if o == .gate then (s, .unsupported "write gate inside a packet") else
          let (s, e) := s.afterWriteErr o
          ((s.endTx id).1, .ret e)

/-- `Unsubscribe` (request.go:400-454) up to the wait for the response -/
def S.unsubscribe (s : S) (tag : String) (filters : List Bytes) : S × CallResult :=
  match unsubscribeDeny filters with
  | some _ => (s, .ret (mkErr ["deny"]))
  | none =>
    match s.startTx tag none with
    | (s, none) => (s, .ret (mkErr ["max"]))
    | (s, some id) =>
      let packet := unsubscribePacket id filters
      match s.lockWrite with
      | .fail e => ((s.endTx id).1, .ret e)
      | .wait =>
        if !s.waiters.isEmpty then (s, .unsupported "second waiter") else
        ({ s with waiters := [(tag, .unsub id packet)] }, .blocked)
      | .go =>
        if !s.closers.isEmpty then (s, .unsupported "request while a closer waits") else
        if s.held.isSome then ({ s with lockq := s.lockq ++ [(tag, .unsub id packet)] }, .blocked) else
        if s.gateAhead then ({ s with held := some (tag, .unsub id packet) }, .blocked) else
        let (s, o) := s.connWrite (writeTo · packet)
        if o == .ok then (s, .blocked) else
          if o == .gate then (s, .unsupported "write gate inside a packet") else
          let (s, e) := s.afterWriteErr o
          ((s.endTx id).1, .ret e)

/-- `Ping` (request.go:103-136) up to the wait for the response -/
def S.pingCall (s : S) (tag : String) : S × CallResult :=
  if s.ping.isSome then (s, .ret (mkErr ["max"])) else
  let s := { s with ping := some tag }
  match s.lockWrite with
  | .fail e => (s.dropPing tag, .ret e)
  | .wait =>
    if !s.waiters.isEmpty then (s, .unsupported "second waiter") else
    ({ s with waiters := [(tag, .ping)] }, .blocked)
  | .go =>
    if !s.closers.isEmpty then (s, .unsupported "request while a closer waits") else
    if s.held.isSome then ({ s with lockq := s.lockq ++ [(tag, .ping)] }, .blocked) else
    if s.gateAhead then ({ s with held := some (tag, .ping) }, .blocked) else
    let (s, o) := s.connWrite (writeTo · packetPINGREQ)
    if o == .ok then (s, .blocked) else
      if o == .gate then (s, .unsupported "write gate inside a packet") else
      let (s, e) := s.afterWriteErr o
      (s.dropPing tag, .ret e)

/-- the quit channel of a blocked call fires -/
def S.quit (s : S) (tag : String) : S × Option Err :=
  match (s.waiters ++ s.lockq).find? (·.1 == tag) with
  | some (_, k) =>
    -- inside lockWrite: ErrCanceled, nothing was sent
    let s := { s with waiters := s.waiters.filter (·.1 != tag), lockq := s.lockq.filter (·.1 != tag) }
    let s := match k with
      | .sub id _ | .unsub id _ => ((s.endTx id).1).dropEarly tag
      | .ping => s.dropPing tag
      | .pub0 _ => s
    (s, some (mkErr ["canceled"]))
  | none =>
    match s.txs.find? (·.tag == tag) with
    | some tx => ((s.endTx tx.id).1, some (mkErr ["abandoned"]))
    | none =>
      if s.ping == some tag then ({ s with ping := none }, some (mkErr ["abandoned"]))
      else (s, none)

/-- the semaphores are closed: every blocked closer returns (client.go:398-405, 393-397) -/
def S.finishClosers (s : S) : S :=
  let s' := s.closers.foldl (fun s (tag, isDisc) => s.emit (.ret tag (if isDisc then mkErr ["closed"] else errOk))) s
  { s' with closers := [] }

/-- `Close` (client.go:388-423) once it holds connSem and found the write semaphore `link` -/
def S.closeNow (s : S) : S :=
  let s := if s.link == .live then s.closeConn else s
  let s := { s with link := .closed, connSemClosed := true, online := false }
  (s.failWaiters (mkErr ["closed"])).finishClosers

/-- `Disconnect` (client.go:434-477) once it holds connSem and the write semaphore -/
def S.disconnectNow (s : S) : S × Err :=
  match s.link with
  | .pending | .down =>
    ((({ s with link := .closed, connSemClosed := true, online := false }).failWaiters (mkErr ["closed"])).finishClosers, mkErr ["down"])
  | .closed => (s, mkErr ["closed"])
  | .live =>
    if s.gateAhead then (s, mkErr ["unsupported"]) else
    let (s, o) := s.connWrite (writeTo · packetDISCONNECT)
    let cerr := match s.conn with | some c => c.cerr | none => false
    let s := s.closeConn
    let s := (({ s with link := .closed, connSemClosed := true, online := false }).failWaiters (mkErr ["closed"])).finishClosers
    -- a failed write wins over a failed Close; either way the error is an ErrSubmit (F27)
    (s, if o == .ok then (if cerr then mkErr ["submit", "hard"] else errOk) else mkErr ["submit", woutTag o])

inductive CloseResult | ret (e : Err) | blocked | unsupported (why : String)
deriving DecidableEq, Repr

/-- the reader was blocked in the Dialer and the context got cancelled (client.go:906-909) -/
def S.cancelDial (s : S) : S := { s with parkedDial := false, readerCancelled := true }

/-- `Close` / `Disconnect(nil)` from any state. `isDisc` selects Disconnect. -/
def S.closeCall (s : S) (tag : String) (isDisc : Bool) : S × CloseResult :=
  if s.connSemClosed then (s, .ret (if isDisc then mkErr ["closed"] else errOk)) else
  if !s.closers.isEmpty then ({ s with closers := s.closers ++ [(tag, isDisc)] }, .blocked) else
  if s.parkedDial then
    -- cancel() ends the dial: connect restores connSem and returns ErrClosed; then this call proceeds
    let s := (s.cancelDial).failWaiters (mkErr ["closed"])
    if isDisc then
      let (s, e) := s.disconnectNow
      (s, .ret e)
    else (s.closeNow, .ret errOk)
  else match s.parkedHs with
  | some (_, _, prev) =>
    -- the abort goroutine closes the connection; handshake fails; connect leaves connDown and restores connSem
    let s := s.closeConn
    let s := { s with parkedHs := none, conn := if s.hadConn then prev else none, link := .down, readerCancelled := true }
    let s := s.failWaiters (mkErr ["closed"])
    if isDisc then
      let (s, e) := s.disconnectNow
      (s, .ret e)
    else (s.closeNow, .ret errOk)
  | none =>
    match s.held with
    | some (wtag, k) =>
      if isDisc then
        -- Disconnect waits for the write lock without touching the connection
        ({ s with closers := [(tag, true)] }, .blocked)
      else
        -- Close interrupts the writer by closing the connection, then takes the lock from it
        let s := s.closeConn
        let s := s.openGateClosed
        let s := (({ s with held := none }).runWriter wtag k).afterHolder
        (s.closeNow, .ret errOk)
    | none =>
      if isDisc then
        let (s, e) := s.disconnectNow
        (s, .ret e)
      else (s.closeNow, .ret errOk)

/-- the script opens the write gate with an outcome: the blocked request goes on, then a waiting Disconnect -/
def S.release (s : S) (o : Option WPol) : S :=
  match s.held with
  | none => s
  | some (wtag, k) =>
    let s := ((({ s with held := none }).openGate o).runWriter wtag k).afterHolder
    if s.held.isSome then s else
    match s.closers with
    | (tag, true) :: rest =>
      let (s, e) := ({ s with closers := rest }).disconnectNow
      s.emit (.ret tag e)
    | _ => s

/-! ### ReadBackoff -/

/-- `ReadBackoff` idle time (client.go:1141-1170): 1 s when the connection is still there (Persistence error), the
maximum for a refusal, otherwise the doubling ramp clamped to [min, max]. Returns the idle time and the new ramp state. -/
def readBackoffIdle (wait min max : Nat) (readConnPresent refused : Bool) : Nat × Nat :=
  if readConnPresent then (1000000000, wait)
  else if refused then (max, wait)
  else
    let idle := Nat.min (Nat.max wait min) max
    (idle, idle * 2)

inductive Backoff | now | never | idle (ns : Nat)
deriving DecidableEq, Repr

/-- `ReadBackoff(err)` for the error the last ReadSlices returned (`none`: it returned a message) -/
def S.readBackoff (s : S) (err : Option Err) (minW maxW : Nat) : S × Backoff :=
  match err with
  | none => (s, .now)
  | some e =>
    if s.big.isSome then (s, .now) else
    if e.contains "closed" then (s, .never) else
    let refused := e.any (·.startsWith "refused")
    let (idle, w) := readBackoffIdle s.reconnectWait minW maxW s.readConn refused
    ({ s with reconnectWait := w }, .idle idle)

/-! ### Session set-up -/

/-- `InitSession` (request.go:769-812) on the current store -/
def S.initSession (s : S) (clientID : Bytes) (cfg : Cfg) : S × Option Err :=
  if (stringCheck clientID).isSome then (s, some (mkErr ["deny"])) else
  if cfg.valid.isSome then (s, some (mkErr ["deny"])) else
  if !s.core.store.isEmpty then (s, some (mkErr ["other"])) else
  let s0 : S := { cfg := cfg, bufSize := s.bufSize, evs := s.evs, dials := s.dials,
                  core := Core.fresh s.core.store 0 cfg.atLeastOnceMax cfg.exactlyOnceMax,
                  prefeed := s.prefeed, nconn := s.nconn, fSave := s.fSave, fDel := s.fDel, fLoad := s.fLoad }
  match s0.save Facts.clientIDKey clientID with
  | (s, some e) => (s, some e)
  | (s, none) => ({ s with noClient := false }, none)

/-- `AdoptSession` (request.go:819-979) on the current store; the previous client is abandoned -/
def S.adoptSession (s : S) (cfg : Cfg) : S × Except Err (List Warn) :=
  -- the process stops: its connection dies with it
  let s := { s with noClient := true, parked := false, waiters := [], lockq := [], early := [], held := none, txs := [], ping := none, conn := none,
                    readConn := false, hadConn := false, link := .pending, online := false }
  if cfg.valid.isSome then (s, .error (mkErr ["deny"])) else
  let outboundKeys := s.core.store.sortedKeys.filter fun k => !(k == Facts.clientIDKey)   -- every record but the identifier is loaded
  if s.fLoad && !outboundKeys.isEmpty then ({ s with fLoad := false }, .error (mkErr ["store"])) else
  -- one-shot fault: only the first Delete of a corrupt record fails
  let firstCorrupt := outboundKeys.find? fun k => match s.core.store.get k with
    | some raw => match decodeValue raw with | .error _ => true | .ok _ => false
    | none => false
  let delFails : Nat → Bool := fun k => s.fDel && firstCorrupt == some k
  -- corrupt records are deleted (with a warning) before any fatal limit check
  let cl := classify delFails s.core.store.sortedKeys { store := s.core.store }
  let dels := cl.warns.filterMap fun w => match w with | .corruptDeleted k => some (Ev.del k) | .corruptKept k => some (Ev.delFail k) | _ => none
  match adopt s.core.store cfg.atLeastOnceMax cfg.exactlyOnceMax delFails with
  | .error _ =>
    ({ s with core := { s.core with store := cl.store }, evs := dels.reverse ++ s.evs,
              fDel := s.fDel && firstCorrupt.isNone }, .error (mkErr ["other"]))
  | .ok a =>
    let n1 := a.alo.length
    let n2 := a.eo.length + a.rel.length
    let q1 := (List.range n1).map (· + 1000000)
    let q2 := (List.range n2).map (· + 1000000 + n1)
    let s1 : S := { cfg := cfg, bufSize := s.bufSize, dials := s.dials,
                    core := Core.ofAdopted a cfg.atLeastOnceMax cfg.exactlyOnceMax q1 q2,
                    prefeed := s.prefeed, nconn := s.nconn, fSave := s.fSave, fLoad := s.fLoad,
                    fDel := s.fDel && firstCorrupt.isNone,
                    evs := dels.reverse ++ s.evs, nextEx := s.nextEx,
                    placeholders := q1 ++ q2, noClient := false }
    (s1, .ok a.warns)

end Model
