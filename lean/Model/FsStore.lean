import Model.Bytes
/-! `mqtt.FileSystem` as system-call programs over a directory (mqtt.go:334-421).
Assumed OS semantics (A-os): `open(O_CREAT|O_TRUNC)`, `rename`, `unlink` are
atomic; `rename` replaces its target; data written to a file is what a later
read returns after a process stop (no power loss); a stop may cut a `write`
after any byte count. -/
namespace Model

abbrev Dir := List (String × Bytes)

def Dir.get (d : Dir) (n : String) : Option Bytes := (d.find? (·.1 == n)).map (·.2)
def Dir.remove (d : Dir) (n : String) : Dir := d.filter (·.1 != n)
def Dir.set (d : Dir) (n : String) (v : Bytes) : Dir := (n, v) :: d.remove n
def Dir.names (d : Dir) : List String := d.map (·.1)

inductive Sys
  | create (n : String)              -- openat(O_RDWR|O_CREAT|O_TRUNC)
  | write (n : String) (bs : Bytes)  -- write on the open descriptor of n
  | fsync (n : String)
  | close (n : String)
  | rename (a b : String)
  | unlink (n : String)
deriving DecidableEq, Repr

def Dir.step (d : Dir) : Sys → Dir
  | .create n => d.set n []
  | .write n bs => d.set n ((d.get n).getD [] ++ bs)
  | .fsync _ => d
  | .close _ => d
  | .rename a b => match d.get a with
    | some v => (d.remove a).set b v
    | none => d
  | .unlink n => d.remove n

def Dir.run (d : Dir) (prog : List Sys) : Dir := prog.foldl Dir.step d

def spoolName (key : String) : String := key ++ ".spool"

/-- `Save` up to the point where the new value becomes visible: create the
spool file, one write per buffer, Sync, Close -/
def savePre (key : String) (bufs : List Bytes) : List Sys :=
  [.create (spoolName key)] ++ bufs.map (.write (spoolName key)) ++ [.fsync (spoolName key), .close (spoolName key)]

/-- `Save`: …, then Rename over the key -/
def saveProg (key : String) (bufs : List Bytes) : List Sys :=
  savePre key bufs ++ [.rename (spoolName key) key]

/-- `Save` when a call fails after `i` completed ones (the rename included, `i` = all): remove the spool file, report -/
def saveFailProg (key : String) (bufs : List Bytes) (i : Nat) : List Sys :=
  (savePre key bufs).take i ++ [.unlink (spoolName key)]

def deleteProg (key : String) : List Sys := [.unlink key]

/-- directory contents a stop inside one call can leave: a write cut after any byte count -/
def partialWrites (d : Dir) : Sys → List Dir
  | .write n bs => (List.range bs.length).map fun k => d.step (.write n (bs.take k))
  | _ => []

/-- every directory content a process stop can leave behind while `prog` runs:
after any number of completed calls, the call in progress not started, or — for
a write — cut after any byte count -/
def stops (d : Dir) : List Sys → List Dir
  | [] => [d]
  | s :: rest => d :: partialWrites d s ++ stops (d.step s) rest

/-- `List`: names of exactly five hexadecimal digits below 2^17 -/
def isKeyName (n : String) : Bool :=
  n.length == 5 && (n.toList.head? == some '0' || n.toList.head? == some '1') && n.toList.all (fun c => c.isDigit || ('a' ≤ c && c ≤ 'f') || ('A' ≤ c && c ≤ 'F'))

def Dir.list (d : Dir) : List String := d.names.filter isKeyName

end Model
