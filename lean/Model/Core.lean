import Model.Adopt
/-! The outbound core of the client: the counters of `orderedTxs` and `seq`,
the two acknowledgement queues and the Persistence content, with the
operations request.go / client.go perform on them. `Model.Session` changes
this part of its state only through the functions below, so the theorems of
Props/C01–C03, C05, C16, C17 about `Core` are theorems about what the driver
executes and the correspondence check compares. -/
namespace Model

structure Level where
  acceptN : Nat := 0
  submitN : Nat := 0
  max : Nat := 0
  queue : List Nat := []      -- exchange ids awaiting the final acknowledgement, oldest first
  space : Nat := 0
  seqClosed : Bool := false   -- seqSem closed by termCallbacks
deriving DecidableEq, Repr

structure Core where
  store : Store := []
  seqNo : Nat := 0            -- ruggedPersistence.seqNo
  l1 : Level := { space := Facts.atLeastOnceIDSpace }
  l2 : Level := { space := Facts.exactlyOnceIDSpace }
  acked : Nat := 0
  received : Nat := 0
  completed : Nat := 0
deriving Repr

def publishKey (space seqNo : Nat) : Nat := seqNo % idMod + space

def Core.lv (c : Core) (lvl : Nat) : Level := if lvl == 1 then c.l1 else c.l2
def Core.setLv (c : Core) (lvl : Nat) (lv : Level) : Core :=
  if lvl == 1 then { c with l1 := lv } else { c with l2 := lv }

/-- `ruggedPersistence.Save`; the sequence number is consumed even when the delegate fails -/
def Core.save (c : Core) (key : Nat) (packet : Bytes) (fails : Bool) : Core × Bool :=
  let seq := c.seqNo + 1
  if fails then ({ c with seqNo := seq }, false)
  else ({ c with seqNo := seq, store := c.store.put key (encodeValue packet seq) }, true)

def Core.delete (c : Core) (key : Nat) (fails : Bool) : Core × Bool :=
  if fails then (c, false) else ({ c with store := c.store.erase key }, true)

/-- `ruggedPersistence.Load`: not found / corrupt / the packet -/
def Core.load (c : Core) (key : Nat) : Except DecErr (Option Bytes) :=
  match c.store.get key with
  | none => .ok none
  | some raw => (decodeValue raw).map fun (p, _) => some p

inductive Accept
  | closed                -- sequence semaphore closed (after ErrClosed from ReadSlices)
  | max                   -- queue at capacity: ErrMax, nothing consumed
  | saveFailed            -- Persistence refused: dropped, nothing consumed
  | ok (key : Nat) (hadBacklog : Bool)
deriving DecidableEq, Repr

/-- `submitPersisted` up to the enqueue (request.go:579-635): capacity check,
identifier from the sequence number, Save, then enqueue and count. -/
def Core.accept (c : Core) (lvl : Nat) (mkPacket : Nat → Bytes) (saveFails : Bool) (ex : Nat) : Core × Accept :=
  let lv := c.lv lvl
  if lv.seqClosed then (c, .closed) else
  let hasBacklog := lv.submitN < lv.acceptN
  if lv.queue.length ≥ lv.max then (c, .max) else
  let key := publishKey lv.space lv.acceptN
  match c.save key (mkPacket key) saveFails with
  | (c, false) => (c, .saveFailed)
  | (c, true) =>
    (c.setLv lvl { lv with queue := lv.queue ++ [ex], acceptN := lv.acceptN + 1 }, .ok key hasBacklog)

/-- the first transmission went out completely: `seq.submitN = seq.acceptN` -/
def Core.markSubmitted (c : Core) (lvl : Nat) : Core :=
  let lv := c.lv lvl
  c.setLv lvl { lv with submitN := lv.acceptN }

inductive AckCheck | reset | ok
deriving DecidableEq, Repr

/-- identifier checks of `onPUBACK` (request.go:672-682) -/
def Core.pubackCheck (c : Core) (id : Nat) : AckCheck :=
  if id == 0 then .reset
  else if id / idMod * idMod != Facts.atLeastOnceIDSpace then .reset
  else if publishKey Facts.atLeastOnceIDSpace c.acked != id then .reset
  else if c.l1.queue.isEmpty then .reset
  else .ok

/-- `onPUBACK` after the checks: Delete, then count and pop the exchange -/
def Core.puback (c : Core) (id : Nat) (delFails : Bool) : Core × Option Nat :=
  match c.delete id delFails with
  | (c, false) => (c, none)
  | (c, true) => ({ c with acked := c.acked + 1, l1 := { c.l1 with queue := c.l1.queue.tail } }, c.l1.queue.head?)

/-- identifier checks of `onPUBREC` (request.go:703-713) -/
def Core.pubrecCheck (c : Core) (id : Nat) : AckCheck :=
  if id == 0 then .reset
  else if id / idMod * idMod != Facts.exactlyOnceIDSpace then .reset
  else if id != publishKey Facts.exactlyOnceIDSpace c.received then .reset
  else if c.received - c.completed ≥ c.l2.queue.length then .reset
  else .ok

/-- `onPUBREC` after the checks: the PUBLISH record is overwritten by the PUBREL, then counted -/
def Core.pubrec (c : Core) (id : Nat) (rel : Bytes) (saveFails : Bool) : Core × Bool :=
  match c.save id rel saveFails with
  | (c, false) => (c, false)
  | (c, true) => ({ c with received := c.received + 1 }, true)

/-- identifier checks of `onPUBCOMP` (request.go:741-751) -/
def Core.pubcompCheck (c : Core) (id : Nat) : AckCheck :=
  if id == 0 then .reset
  else if id / idMod * idMod != Facts.exactlyOnceIDSpace then .reset
  else if id != publishKey Facts.exactlyOnceIDSpace c.completed then .reset
  else if c.completed ≥ c.received || c.l2.queue.isEmpty then .reset
  else .ok

def Core.pubcomp (c : Core) (id : Nat) (delFails : Bool) : Core × Option Nat :=
  match c.delete id delFails with
  | (c, false) => (c, none)
  | (c, true) => ({ c with completed := c.completed + 1, l2 := { c.l2 with queue := c.l2.queue.tail } }, c.l2.queue.head?)

/-- `resend` after a complete write of sequence number `seqNo` (client.go:1037-1039) -/
def Level.resent (lv : Level) (seqNo : Nat) : Level :=
  if seqNo ≥ lv.submitN then { lv with submitN := seqNo + 1 } else lv

/-- DUP decision of `resend` (client.go:1028) -/
def Level.isDup (lv : Level) (seqNo : Nat) : Bool := seqNo < lv.submitN

/-- `termCallbacks`: both sequence semaphores closed, queues flushed -/
def Core.term (c : Core) : Core :=
  { c with l1 := { c.l1 with seqClosed := true, queue := [] }, l2 := { c.l2 with seqClosed := true, queue := [] } }

/-- the client `AdoptSession` returns, given what `adopt` found (request.go:896-978) -/
def Core.ofAdopted (a : Adopted) (max1 max2 : Int) (q1 q2 : List Nat) : Core :=
  { store := a.store, seqNo := a.maxSeq,
    acked := a.ctr.acked, received := a.ctr.received, completed := a.ctr.completed,
    l1 := { space := Facts.atLeastOnceIDSpace, max := normMax max1, acceptN := a.ctr.accept1, submitN := a.ctr.accept1, queue := q1 },
    l2 := { space := Facts.exactlyOnceIDSpace, max := normMax max2, acceptN := a.ctr.accept2, submitN := a.ctr.accept2, queue := q2 } }

/-- a fresh client over an initialised store (`InitSession`) -/
def Core.fresh (store : Store) (seqNo : Nat) (max1 max2 : Int) : Core :=
  { store, seqNo,
    l1 := { space := Facts.atLeastOnceIDSpace, max := normMax max1 },
    l2 := { space := Facts.exactlyOnceIDSpace, max := normMax max2 } }

/-! ### The core as a transition system -/

/-- Everything the client ever does to the core, as operations. Faults of the
Persistence are arguments, so "for every fault sequence" is "for every list of
operations". -/
inductive COp
  | accept (lvl : Nat) (pk : Nat → Bytes) (saveFails : Bool) (ex : Nat)
  | submitted (lvl : Nat)
  | resent (lvl : Nat) (seqNo : Nat)
  | puback (id : Nat) (delFails : Bool)
  | pubrec (id : Nat) (saveFails : Bool)
  | pubcomp (id : Nat) (delFails : Bool)
  | term

def Core.lo (c : Core) (lvl : Nat) : Nat := if lvl == 1 then c.acked else c.completed

def Core.step (c : Core) : COp → Core
  | .accept lvl pk f ex => (c.accept lvl pk f ex).1
  | .submitted lvl => c.markSubmitted lvl
  | .resent lvl n =>
    -- `resend` iterates over the unacknowledged sequence numbers only
    if c.lo lvl ≤ n ∧ n < (c.lv lvl).acceptN then c.setLv lvl ((c.lv lvl).resent n) else c
  | .puback id f => match c.pubackCheck id with
    | .ok => (c.puback id f).1
    | .reset => c
  | .pubrec id f => match c.pubrecCheck id with
    | .ok => (c.pubrec id ([UInt8.ofNat (Facts.typePUBREL * 16 + 2), 2] ++ be16 id) f).1
    | .reset => c
  | .pubcomp id f => match c.pubcompCheck id with
    | .ok => (c.pubcomp id f).1
    | .reset => c
  | .term => c.term

def Core.run (c : Core) (ops : List COp) : Core := ops.foldl Core.step c

end Model
