/-! The Online/Offline signals (client.go: `onlineSig`, `offlineSig`, `blockSignalChan`, `clearSignalChan`) and the order in which
`connect`, `toOffline`, `Close` and `Disconnect` flip them relative to handing the write semaphore back. The event lists are
regenerated from the source on every run (`Facts.syn_*_signals`). -/
namespace Model

/-- which of the two signal channels are released (closed) at the moment -/
structure Sig where
  online : Bool
  offline : Bool
deriving DecidableEq, Repr

inductive SigEv
  | block (online : Bool)     -- blockSignalChan(c.onlineSig / c.offlineSig): a fresh, unreleased channel unless blocked already
  | clear (online : Bool)     -- clearSignalChan: release the current channel
  | release                   -- the write semaphore is handed back (`c.writeSem <- …`) or closed
deriving DecidableEq, Repr

def parseSigEv (s : String) : Option SigEv :=
  if s == "block:onlineSig" then some (.block true) else
  if s == "block:offlineSig" then some (.block false) else
  if s == "clear:onlineSig" then some (.clear true) else
  if s == "clear:offlineSig" then some (.clear false) else
  if s == "send:writeSem" || s == "close:writeSem" then some .release else none

def Sig.step (s : Sig) : SigEv → Sig
  | .block true => { s with online := false }
  | .block false => { s with offline := false }
  | .clear true => { s with online := true }
  | .clear false => { s with offline := true }
  | .release => s

/-- "the two are never both released" -/
def Sig.ok (s : Sig) : Bool := !(s.online && s.offline)

/-- every state on the way satisfies `ok` -/
def neverBoth (s : Sig) : List SigEv → Bool
  | [] => s.ok
  | e :: es => s.ok && neverBoth (s.step e) es

def Sig.run (s : Sig) (es : List SigEv) : Sig := es.foldl Sig.step s

/-- the signals are flipped only while the write semaphore is still held: no flip follows its release -/
def flipsUnderLock : List SigEv → Bool
  | [] => true
  | .release :: es => es.all (· == .release)
  | _ :: es => flipsUnderLock es

/-- the three states in which the two signals are not both released -/
def sigStates : List Sig := [⟨false, false⟩, ⟨true, false⟩, ⟨false, true⟩]

/-- a sequence is sound when, from every such state, the two signals are never both released on the way, all flips happen
under the write lock, and it ends as required (`wantOnline`: Online released and Offline blocked, or the reverse) -/
def soundSignals (names : List String) (wantOnline : Bool) : Bool :=
  match names.mapM parseSigEv with
  | none => false
  | some es =>
    flipsUnderLock es && sigStates.all fun s => neverBoth s es && (s.run es == ⟨wantOnline, !wantOnline⟩)

end Model
