import Model.Bytes
/-! The part of `bufio.Reader` the client uses (Go 1.23 `bufio/bufio.go`:
fill, Peek, ReadByte, Discard, Read) over a connection whose `Read` hands out
scripted chunks. Assumption A-bufio; compared with the real package every run. -/
namespace Model

inductive Chunk
  | data (bs : Bytes)   -- one or more Read calls return these bytes
  | timeout             -- one Read returns a net.Error with Timeout() = true
  | hard                -- one Read returns a non-timeout error
  | eof                 -- Read returns io.EOF (sticky)
  | block               -- nothing available yet (only legal between packets)
deriving DecidableEq, Repr

inductive RErr | timeout | hard | eof | closed | bufferFull | blocked
deriving DecidableEq, Repr

/-- read side of a connection plus the bufio.Reader on top of it -/
structure Rd where
  size : Nat                  -- len(b.buf)
  buf : Bytes := []           -- b.buf[b.r:b.w]
  err : Option RErr := none   -- b.err
  inq : List Chunk := []      -- what the peer has sent and was not read yet
  closed : Bool := false      -- the connection was closed locally
deriving DecidableEq, Repr

/-- `conn.Read(p)` with `len(p) = n > 0` -/
def Rd.connRead (r : Rd) (n : Nat) : Rd × Bytes × Option RErr :=
  if r.closed then (r, [], some .closed) else
  match r.inq with
  | [] => (r, [], some .eof)
  | .data bs :: rest =>
    if bs.length ≤ n then ({ r with inq := rest }, bs, none)
    else ({ r with inq := .data (bs.drop n) :: rest }, bs.take n, none)
  | .timeout :: rest => ({ r with inq := rest }, [], some .timeout)
  | .hard :: rest => ({ r with inq := rest }, [], some .hard)
  | .eof :: _ => (r, [], some .eof)
  | .block :: _ => (r, [], some .blocked)

/-- `b.fill()`; precondition `buf.length < size` -/
def Rd.fill (r : Rd) : Rd :=
  let (r', got, e) := r.connRead (r.size - r.buf.length)
  { r' with buf := r'.buf ++ got, err := e }

def Rd.readErr (r : Rd) : Rd × Option RErr := ({ r with err := none }, r.err)

def Rd.inqWeight (r : Rd) : Nat :=
  (r.inq.map fun c => match c with | .data bs => bs.length + 1 | _ => 1).sum + 1

/-- the filling loop of `Peek(n)` -/
def Rd.peekLoop : Nat → Rd → Nat → Rd
  | 0, r, _ => r
  | fuel + 1, r, n =>
    if r.buf.length < n ∧ r.buf.length < r.size ∧ r.err = none then Rd.peekLoop fuel r.fill n else r

/-- `b.Peek(n)`: the slice returned and the error -/
def Rd.peek (r : Rd) (n : Nat) : Rd × Bytes × Option RErr :=
  let r := Rd.peekLoop (r.inqWeight + 1) r n
  if n > r.size then (r, r.buf, some .bufferFull)   -- NB: a pending read error stays pending
  else if r.buf.length < n then
    let (r', e) := r.readErr
    (r', r.buf, some (e.getD .bufferFull))
  else (r, r.buf.take n, none)

/-- `b.ReadByte()` -/
def Rd.readByteLoop : Nat → Rd → Rd × Option UInt8 × Option RErr
  | 0, r => (r, none, some .hard)
  | fuel + 1, r =>
    match r.buf with
    | b :: rest => ({ r with buf := rest }, some b, none)
    | [] =>
      match r.err with
      | some e => ({ r with err := none }, none, some e)
      | none => Rd.readByteLoop fuel r.fill

def Rd.readByte (r : Rd) : Rd × Option UInt8 × Option RErr := Rd.readByteLoop (r.inqWeight + 1) r

/-- `b.Discard(n)`: number discarded and error -/
def Rd.discardLoop : Nat → Rd → Nat → Nat → Rd × Nat × Option RErr
  | 0, r, n, remain => (r, n - remain, some .hard)
  | fuel + 1, r, n, remain =>
    let r1 := if r.buf.isEmpty then r.fill else r
    let skip := min r1.buf.length remain
    let r2 := { r1 with buf := r1.buf.drop skip }
    let remain' := remain - skip
    if remain' = 0 then (r2, n, none)
    else match r2.err with
      | some e => ({ r2 with err := none }, n - remain', some e)
      | none => Rd.discardLoop fuel r2 n remain'

def Rd.discard (r : Rd) (n : Nat) : Rd × Nat × Option RErr :=
  if n = 0 then (r, 0, none) else Rd.discardLoop (r.inqWeight + n + 1) r n n

/-- `b.Read(p)` with `len(p) = n > 0` -/
def Rd.read (r : Rd) (n : Nat) : Rd × Bytes × Option RErr :=
  if r.buf.isEmpty then
    match r.err with
    | some e => ({ r with err := none }, [], some e)
    | none =>
      if n ≥ r.size then
        let (r', got, e) := r.connRead n
        (r', got, e)
      else
        let (r', got, e) := r.connRead r.size
        if got.isEmpty then (r', [], e)
        else
          let r'' := { r' with err := e }
          ({ r'' with buf := got.drop n }, got.take n, none)
  else ({ r with buf := r.buf.drop n }, r.buf.take n, none)

/-- `io.ReadFull(b, make([]byte, n))` -/
def Rd.readFullLoop : Nat → Rd → Nat → Bytes → Rd × Bytes × Option RErr
  | 0, r, _, acc => (r, acc, some .hard)
  | fuel + 1, r, n, acc =>
    if acc.length ≥ n then (r, acc, none) else
    let (r', got, e) := r.read (n - acc.length)
    let acc' := acc ++ got
    match e with
    | some err => if acc'.length ≥ n then (r', acc', none) else (r', acc', some err)
    | none => Rd.readFullLoop fuel r' n acc'

def Rd.readFull (r : Rd) (n : Nat) : Rd × Bytes × Option RErr :=
  if n = 0 then (r, [], none) else Rd.readFullLoop (r.inqWeight + n + 2) r n []

end Model
