import Generated.Facts
/-! Error values as Go builds them: sentinels, wrappers (`fmt.Errorf("%w")`, one child or none), joins (`errors.Join`,
`fmt.Errorf` with several `%w`: a slice of children), and the classifier `nonNilIsAny` (mqtt.go:134-168). -/
namespace Model

mutual
  inductive E where
    | leaf (id : Nat)                    -- comparable value without Unwrap
    | wrap (id : Nat) (c : E)            -- Unwrap() error, non-nil
    | wrapNil (id : Nat)                 -- Unwrap() error returning nil
    | join (id : Nat) (cs : EList)       -- Unwrap() []error
  inductive EList where
    | nil
    | cons (e : E) (r : EList)
end

def E.id : E → Nat
  | .leaf i | .wrap i _ | .wrapNil i | .join i _ => i

mutual
  /-- specification: some node of the error tree is one of the targets -/
  def E.has (m : Nat → Bool) : E → Bool
    | .leaf i => m i
    | .wrap i c => m i || c.has m
    | .wrapNil i => m i
    | .join i cs => m i || cs.has m
  def EList.has (m : Nat → Bool) : EList → Bool
    | .nil => false
    | .cons e r => e.has m || r.has m
end

mutual
  def E.size : E → Nat
    | .leaf _ => 1
    | .wrap _ c => 1 + c.size
    | .wrapNil _ => 1
    | .join _ cs => 1 + cs.size
  def EList.size : EList → Nat
    | .nil => 0
    | .cons e r => e.size + r.size
end

def EList.toList : EList → List E
  | .nil => []
  | .cons e r => e :: r.toList

def sizes (l : List E) : Nat := (l.map E.size).sum

/-- `nonNilIsAny(err, matches)`: the loop with its explicit stack `more`; the head of the list is the element the Go code
takes next (the last one of its slice), so `append(more, wrapped...)` is `wrapped.reverse ++ more` here -/
def isAnyLoop (m : Nat → Bool) : Nat → E → List E → Bool
  | 0, _, _ => false
  | fuel + 1, err, more =>
    if m err.id then true else
    let pop (st : List E) : Bool := match st with
      | [] => false
      | x :: r => isAnyLoop m fuel x r
    match err with
    | .wrap _ c => isAnyLoop m fuel c more
    | .leaf _ | .wrapNil _ => pop more
    | .join _ cs => pop (cs.toList.reverse ++ more)

def isAny (m : Nat → Bool) (err : E) : Bool := isAnyLoop m err.size err []

theorem toList_any (m : Nat → Bool) : (cs : EList) → cs.toList.any (·.has m) = cs.has m
  | .nil => by simp [EList.toList, EList.has]
  | .cons e r => by simp [EList.toList, EList.has, toList_any m r]

theorem toList_sizes : (cs : EList) → sizes cs.toList = cs.size
  | .nil => by simp [EList.toList, EList.size, sizes]
  | .cons e r => by
    have := toList_sizes r
    simp [EList.toList, EList.size, sizes] at *; omega

theorem sizes_append (a b : List E) : sizes (a ++ b) = sizes a + sizes b := by simp [sizes]
theorem sizes_reverse (a : List E) : sizes a.reverse = sizes a := by
  induction a with
  | nil => rfl
  | cons x r ih => simp [sizes] at *; omega

theorem E.size_pos (e : E) : 0 < e.size := by cases e <;> simp [E.size] <;> omega

/-- the loop decides exactly "some node of the current error or of a pending one is a target", whenever the fuel covers
the nodes still to be visited -/
theorem isAnyLoop_spec (m : Nat → Bool) :
    ∀ (fuel : Nat) (err : E) (more : List E), err.size + sizes more ≤ fuel →
      isAnyLoop m fuel err more = (err.has m || more.any (·.has m)) := by
  intro fuel
  induction fuel with
  | zero => intro err more h; have := E.size_pos err; omega
  | succ fuel ih =>
    intro err more h
    have hpop : ∀ (st : List E), sizes st ≤ fuel →
        (match st with | [] => false | x :: r => isAnyLoop m fuel x r) = st.any (·.has m) := by
      intro st hs
      cases st with
      | nil => rfl
      | cons x r =>
        simp only [List.any_cons]
        exact ih x r (by simpa [sizes] using hs)
    rw [isAnyLoop]
    cases hm : m err.id with
    | true =>
      simp only [if_true]
      cases err <;> simp_all [E.has, E.id]
    | false =>
      simp only [Bool.false_eq_true, if_false]
      cases err with
      | leaf i =>
        simp only [E.has]; simp only [E.id] at hm; rw [hm, Bool.false_or]
        exact hpop more (by simp [E.size] at h; omega)
      | wrapNil i =>
        simp only [E.has]; simp only [E.id] at hm; rw [hm, Bool.false_or]
        exact hpop more (by simp [E.size] at h; omega)
      | wrap i c =>
        simp only [E.has]; simp only [E.id] at hm; rw [hm, Bool.false_or]
        exact ih c more (by simp [E.size] at h; omega)
      | join i cs =>
        simp only [E.has]; simp only [E.id] at hm; rw [hm, Bool.false_or]
        rw [hpop (cs.toList.reverse ++ more) (by
          rw [sizes_append, sizes_reverse, toList_sizes]; simp [E.size] at h; omega)]
        simp [List.any_append, toList_any]

/-- `nonNilIsAny` is `errors.Is` against any of the targets, for every error value whatever its shape -/
theorem isAny_spec (m : Nat → Bool) (err : E) : isAny m err = err.has m := by
  unfold isAny
  rw [isAnyLoop_spec m err.size err [] (by simp [sizes])]
  simp

/-- the sentinels of the package by leaf identifier (the harness builds the same table); other identifiers are
unrelated comparable errors -/
def sentinelName : Nat → Option String
  | 1 => some "ErrClosed" | 2 => some "ErrCanceled" | 3 => some "ErrAbandoned" | 4 => some "ErrDown"
  | 5 => some "ErrSubmit" | 6 => some "ErrBreak" | 7 => some "ErrMax"
  | 10 => some "errPacketMax" | 11 => some "errStringMax" | 12 => some "errUTF8" | 13 => some "errNull"
  | 14 => some "errZero" | 15 => some "errSubscribeNone" | 16 => some "errUnsubscribeNone"
  | _ => none

def isTarget (names : List String) (id : Nat) : Bool :=
  match sentinelName id with
  | some n => names.contains n
  | none => false

/-- `IsDeny(err)` and `IsEnd(err)` for a non-nil error (mqtt.go:170-185): the classifier over the regenerated tables -/
def isDeny (e : E) : Bool := isAny (isTarget Facts.denyErrs) e
def isEnd (e : E) : Bool := isAny (isTarget Facts.endErrs) e

end Model
