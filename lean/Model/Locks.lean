/-! Lock discipline of the client's semaphores: ranks, acquisition orders as extracted from the source, and the
wait-for relation between actors. -/
namespace Model

/-- an actor of the client holding some semaphores (by rank) and waiting for another one -/
structure Waiter where
  held : List Nat
  want : Nat

/-- the lock discipline: whatever is waited for ranks above everything held -/
def Waiter.Disciplined (a : Waiter) : Prop := ∀ h ∈ a.held, h < a.want

def WaitsFor (a b : Waiter) : Prop := a.want ∈ b.held

/-- a chain `a → p₁ → … → pₙ` of waits -/
def WaitChain : Waiter → List Waiter → Prop
  | _, [] => True
  | a, b :: rest => WaitsFor a b ∧ WaitChain b rest

/-- ranks of the client's semaphores: connection control, the two sequence locks, the write lock -/
def lockRank : String → Option Nat
  | "connSem" => some 0
  | "atLeastOnce.seqSem" => some 1
  | "exactlyOnce.seqSem" => some 2
  | "out.seqSem" => some 2       -- either sequence lock (submitPersisted serves both levels)
  | "writeSem" => some 3
  | _ => none

def increasing : List Nat → Bool
  | a :: b :: r => a < b && increasing (b :: r)
  | _ => true

/-- an acquisition order (as extracted from the source) follows the discipline -/
def orderOK (names : List String) : Bool :=
  match names.mapM lockRank with
  | some rs => increasing rs
  | none => false

end Model
