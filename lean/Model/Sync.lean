/-! The synchronisation skeleton of the client as a labelled transition system:
the write semaphore (`writeSem`), the connection-control semaphore
(`connSem`), the Online/Offline signals, one read routine, and *any number* of
concurrent writers (Publish, Subscribe, Unsubscribe, Ping, persisted publish
all use `lockWrite` + write + unlock) and closers (Close). Every interleaving
of the steps below is an execution; invariants are proved over `Reachable`.

Assumption A-atomic: each step is one channel operation (linearisable by the
Go memory model) plus statements that touch only data owned by the actor or
protected by a token it holds. -/
namespace Model.Sync

/-- content of `writeSem` (capacity 1): a marker, the live connection, taken, or closed -/
inductive WSem | pending | down | live | empty | closed
deriving DecidableEq, Repr

/-- content of `connSem` -/
inductive CSem | free | taken | closed
deriving DecidableEq, Repr

/-- program counters of writers and closers -/
inductive Pc
  | idle                -- not started / returned
  | wHold               -- writer: holds the write lock, inside conn.Write
  | cHold               -- closer: holds connSem, about to select on writeSem
  | cWait               -- closer: holds connSem, closed the connection, waits for writeSem
deriving DecidableEq, Repr

/-- program counter of the read routine -/
inductive RPc
  | idle                -- between ReadSlices calls or before connect
  | dial                -- holds connSem: dialAndConnect
  | resend              -- holds connSem→released, holds the write lock: resend
  | read                -- blocked in / between reads on the live connection
  | offline             -- toOffline took writeSem
  | closedSeen          -- got ErrClosed
deriving DecidableEq, Repr

structure Cfg where
  wsem : WSem := .pending
  csem : CSem := .free
  online : Bool := false        -- Online channel released
  offline : Bool := true        -- Offline channel released
  connOpen : Bool := false      -- the connection object last dialled is open
  pc : Nat → Pc := fun _ => .idle
  rpc : RPc := .idle
  wholder : Option Nat := none  -- which writer holds the write lock (none: nobody or the reader)

def setPc (f : Nat → Pc) (a : Nat) (v : Pc) : Nat → Pc := fun b => if b = a then v else f b

inductive Step : Cfg → Cfg → Prop
  /-- writer: `lockWrite` takes the live connection (client.go:607-619) -/
  | wTake (c : Cfg) (a : Nat) (h1 : c.pc a = .idle) (h2 : c.wsem = .live) :
      Step c { c with wsem := .empty, pc := setPc c.pc a .wHold, wholder := some a }
  /-- writer: the transfer succeeded, unlock with the connection (client.go:655) -/
  | wOk (c : Cfg) (a : Nat) (h1 : c.pc a = .wHold) :
      Step c { c with wsem := .live, pc := setPc c.pc a .idle, wholder := none }
  /-- writer: the transfer failed: close the connection, leave the pending marker (client.go:647-652) -/
  | wFail (c : Cfg) (a : Nat) (h1 : c.pc a = .wHold) :
      Step c { c with wsem := .pending, connOpen := false, pc := setPc c.pc a .idle, wholder := none }
  /-- writer: `lockWrite` sees a marker, puts it back, and polls / returns ErrDown (client.go:611-616) -/
  | wPeek (c : Cfg) (a : Nat) (h1 : c.pc a = .idle) (h2 : c.wsem = .pending ∨ c.wsem = .down) : Step c c
  /-- closer: takes connSem (client.go:393) -/
  | cTake (c : Cfg) (a : Nat) (h1 : c.pc a = .idle) (h2 : c.csem = .free) :
      Step c { c with csem := .taken, pc := setPc c.pc a .cHold }
  /-- closer: writeSem is available: take it, close the connection when live, then finish (client.go:408-414, 398-405) -/
  | cFinish (c : Cfg) (a : Nat) (h1 : c.pc a = .cHold ∨ c.pc a = .cWait) (h2 : c.wsem ≠ .empty) (h3 : c.wsem ≠ .closed) :
      Step c { c with wsem := .closed, csem := .closed, online := false, offline := true, connOpen := false,
                      pc := setPc c.pc a .idle }
  /-- closer: writeSem is taken: close the connection to interrupt the writer, then wait (client.go:415-421) -/
  | cInterrupt (c : Cfg) (a : Nat) (h1 : c.pc a = .cHold) (h2 : c.wsem = .empty) :
      Step c { c with connOpen := false, pc := setPc c.pc a .cWait }
  /-- reader: `connect` takes connSem (client.go:889) -/
  | rConnect (c : Cfg) (h1 : c.rpc = .idle) (h2 : c.csem = .free) : Step c { c with csem := .taken, rpc := .dial }
  /-- reader: connSem closed: ErrClosed (client.go:890-892) -/
  | rClosed (c : Cfg) (h1 : c.rpc = .idle) (h2 : c.csem = .closed) : Step c { c with rpc := .closedSeen }
  /-- reader: dial or handshake failed: writeSem marker becomes connDown, connSem restored (client.go:911-918) -/
  | rDialFail (c : Cfg) (h1 : c.rpc = .dial) (h2 : c.wsem = .pending ∨ c.wsem = .down) :
      Step c { c with wsem := .down, csem := .free, connOpen := false, rpc := .idle }
  /-- reader: handshake done: take the write lock, release connSem with the new connection (client.go:920-927) -/
  | rDialOk (c : Cfg) (h1 : c.rpc = .dial) (h2 : c.wsem = .pending ∨ c.wsem = .down) :
      Step c { c with wsem := .empty, csem := .free, connOpen := true, rpc := .resend, wholder := none }
  /-- reader: resend failed (client.go:931-943) -/
  | rResendFail (c : Cfg) (h1 : c.rpc = .resend) :
      Step c { c with wsem := .down, connOpen := false, rpc := .idle }
  /-- reader: resend done: signals flip, the connection goes into writeSem (client.go:945-954) -/
  | rOnline (c : Cfg) (h1 : c.rpc = .resend) (h2 : c.connOpen = true) :
      Step c { c with wsem := .live, online := true, offline := false, rpc := .read }
  /-- reader: a read failed or a protocol violation: `toOffline` takes writeSem (client.go:566-582) -/
  | rOffline (c : Cfg) (h1 : c.rpc = .read) (h2 : c.wsem = .live ∨ c.wsem = .pending) :
      Step c { c with wsem := .pending, connOpen := false, online := false, offline := true, rpc := .idle }
  /-- reader: `toOffline` finds writeSem closed (client.go:569-571, 576-578) -/
  | rOfflineClosed (c : Cfg) (h1 : c.rpc = .read) (h2 : c.wsem = .closed) : Step c { c with rpc := .idle }
  /-- reader: `toOffline` finds writeSem taken: close the connection to interrupt the writer, stay (client.go:573-575) -/
  | rInterrupt (c : Cfg) (h1 : c.rpc = .read) (h2 : c.wsem = .empty) : Step c { c with connOpen := false }

inductive Reachable : Cfg → Prop
  | init : Reachable {}
  | step {c c' : Cfg} : Reachable c → Step c c' → Reachable c'

end Model.Sync
