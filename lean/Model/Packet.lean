import Model.Utf8
import Model.Varint
/-! Structured MQTT 3.1.1 control packets and the *reference decoder*, written
from the specification tables (it shares no code with `Model.Compose`). It is
the oracle for C08, C09, C13 and C18. -/
namespace Model

structure WillP where
  topic : Bytes
  message : Bytes
  qos : Nat
  retain : Bool
deriving DecidableEq, Repr

inductive Packet
  | connect (clean : Bool) (keepAlive : Nat) (clientId : Bytes) (will : Option WillP)
      (user : Option Bytes) (pass : Option Bytes)
  | connack (sessionPresent : Bool) (code : Nat)
  | publish (dup : Bool) (qos : Nat) (retain : Bool) (topic : Bytes) (id : Option Nat) (payload : Bytes)
  | puback (id : Nat) | pubrec (id : Nat) | pubrel (id : Nat) | pubcomp (id : Nat)
  | subscribe (id : Nat) (filters : List (Bytes × Nat))
  | suback (id : Nat) (codes : List Nat)
  | unsubscribe (id : Nat) (filters : List Bytes)
  | unsuback (id : Nat)
  | pingreq | pingresp | disconnect
deriving DecidableEq, Repr

inductive Frame
  | complete (head : UInt8) (body : Bytes) (rest : Bytes)
  | incomplete
  | malformed
deriving DecidableEq, Repr

/-- Split the first packet off a byte stream: fixed header byte, remaining
length of at most four bytes, body. -/
def splitFrame : Bytes → Frame
  | [] => .incomplete
  | h :: r =>
    match decodeVarint r with
    | some (n, r') => if r'.length < n then .incomplete else .complete h (r'.take n) (r'.drop n)
    | none =>
      -- fewer than four bytes, all with the continuation bit: may still complete
      if r.length < 4 && r.all (· ≥ 128) then .incomplete else .malformed

/-- 2-byte length prefix + data -/
def takeStr : Bytes → Option (Bytes × Bytes)
  | hi :: lo :: r =>
    let n := beU16 hi lo
    if r.length < n then none else some (r.take n, r.drop n)
  | _ => none

def takeUtf8 (bs : Bytes) : Option (Bytes × Bytes) :=
  match takeStr bs with
  | some (s, r) => if utf8Valid s && !s.contains 0 then some (s, r) else none
  | none => none

def takeId : Bytes → Option (Nat × Bytes)
  | hi :: lo :: r => if beU16 hi lo = 0 then none else some (beU16 hi lo, r)
  | _ => none

def parseSubFilters : Nat → Bytes → Option (List (Bytes × Nat))
  | 0, _ => none
  | _, [] => some []
  | fuel + 1, bs =>
    match takeUtf8 bs with
    | some (s, q :: r) =>
      if s.isEmpty || q.toNat > 2 then none
      else (parseSubFilters fuel r).map ((s, q.toNat) :: ·)
    | _ => none

def parseUnsubFilters : Nat → Bytes → Option (List Bytes)
  | 0, _ => none
  | _, [] => some []
  | fuel + 1, bs =>
    match takeUtf8 bs with
    | some (s, r) => if s.isEmpty then none else (parseUnsubFilters fuel r).map (s :: ·)
    | none => none

def bit (b : UInt8) (i : Nat) : Bool := b.toNat / 2^i % 2 = 1

def parseConnect (body : Bytes) : Option Packet :=
  match body with
  | 0 :: 4 :: 0x4D :: 0x51 :: 0x54 :: 0x54 :: 4 :: fl :: kh :: kl :: r =>
    if bit fl 0 then none else
    let willFlag := bit fl 2
    let willQos := fl.toNat / 8 % 4
    let willRetain := bit fl 5
    if willQos = 3 then none else
    if !willFlag && (willQos ≠ 0 || willRetain) then none else
    if bit fl 6 && !bit fl 7 then none else
    match takeUtf8 r with
    | none => none
    | some (cid, r1) =>
      let willRes : Option (Option WillP × Bytes) :=
        if willFlag then
          match takeUtf8 r1 with
          | some (wt, r2) =>
            match takeStr r2 with
            | some (wm, r3) => if wt.isEmpty then none else some (some ⟨wt, wm, willQos, willRetain⟩, r3)
            | none => none
          | none => none
        else some (none, r1)
      match willRes with
      | none => none
      | some (will, r4) =>
        let userRes : Option (Option Bytes × Bytes) :=
          if bit fl 7 then (takeUtf8 r4).map fun (u, r) => (some u, r) else some (none, r4)
        match userRes with
        | none => none
        | some (user, r5) =>
          let passRes : Option (Option Bytes × Bytes) :=
            if bit fl 6 then (takeStr r5).map fun (p, r) => (some p, r) else some (none, r5)
          match passRes with
          | some (pass, []) => some (.connect (bit fl 1) (beU16 kh kl) cid will user pass)
          | _ => none
  | _ => none

/-- Decode one packet body given its fixed-header byte. Rejects everything
malformed: reserved flag bits, wrong lengths, QoS 3, zero identifiers, bad
UTF-8, empty subscribe payloads, illegal SUBACK codes. -/
def parseBody (head : UInt8) (body : Bytes) : Option Packet :=
  let t := head.toNat / 16
  let fl := head.toNat % 16
  if t = 1 then (if fl = 0 then parseConnect body else none)
  else if t = 2 then
    match fl, body with
    | 0, [f, c] => if f.toNat ≤ 1 then some (.connack (f.toNat = 1) c.toNat) else none
    | _, _ => none
  else if t = 3 then
    let dup := fl / 8 % 2 = 1
    let qos := fl / 2 % 4
    let retain := fl % 2 = 1
    if qos = 3 then none else
    if qos = 0 && dup then none else
    match takeUtf8 body with
    | some (topic, r) =>
      if topic.isEmpty then none
      else if qos = 0 then some (.publish dup qos retain topic none r)
      else match takeId r with
        | some (id, payload) => some (.publish dup qos retain topic (some id) payload)
        | none => none
    | none => none
  else if t = 4 ∨ t = 5 ∨ t = 6 ∨ t = 7 ∨ t = 11 then
    let wantFl := if t = 6 then 2 else 0
    if fl ≠ wantFl then none else
    match takeId body with
    | some (id, []) =>
      some (if t = 4 then .puback id else if t = 5 then .pubrec id else if t = 6 then .pubrel id
            else if t = 7 then .pubcomp id else .unsuback id)
    | _ => none
  else if t = 8 then
    if fl ≠ 2 then none else
    match takeId body with
    | some (id, r) =>
      match parseSubFilters (r.length + 1) r with
      | some (f :: fs) => some (.subscribe id (f :: fs))
      | _ => none
    | none => none
  else if t = 9 then
    if fl ≠ 0 then none else
    match takeId body with
    | some (id, c :: cs) =>
      if (c :: cs).all (fun x => x.toNat ≤ 2 || x.toNat = 128) then some (.suback id ((c :: cs).map (·.toNat))) else none
    | _ => none
  else if t = 10 then
    if fl ≠ 2 then none else
    match takeId body with
    | some (id, r) =>
      match parseUnsubFilters (r.length + 1) r with
      | some (f :: fs) => some (.unsubscribe id (f :: fs))
      | _ => none
    | none => none
  else if t = 12 ∨ t = 13 ∨ t = 14 then
    if fl ≠ 0 ∨ body ≠ [] then none
    else some (if t = 12 then .pingreq else if t = 13 then .pingresp else .disconnect)
  else none

/-- Decode exactly one packet from the front of a stream. -/
def decodePacket (bs : Bytes) : Option (Packet × Bytes) :=
  match splitFrame bs with
  | .complete h body rest => (parseBody h body).map (·, rest)
  | _ => none

/-- Result of parsing a connection log: complete packets, then a trailing
incomplete packet (possibly empty), or a malformed position. -/
structure WireParse where
  frames : List (UInt8 × Bytes)
  partialTail : Bytes
  malformedAt : Option Nat
deriving Repr

def parseWireAux : Nat → Bytes → Nat → List (UInt8 × Bytes) → WireParse
  | 0, bs, _, acc => ⟨acc.reverse, bs, none⟩
  | _, [], _, acc => ⟨acc.reverse, [], none⟩
  | fuel + 1, bs, off, acc =>
    match splitFrame bs with
    | .complete h body rest => parseWireAux fuel rest (off + (bs.length - rest.length)) ((h, body) :: acc)
    | .incomplete => ⟨acc.reverse, bs, none⟩
    | .malformed => ⟨acc.reverse, bs, some off⟩

def parseWire (bs : Bytes) : WireParse := parseWireAux (bs.length + 1) bs 0 []

end Model
