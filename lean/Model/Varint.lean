import Model.Bytes
import Generated.Facts
/-! The "remaining length" encoding of MQTT 3.1.1 §2.2.3. -/
namespace Model

/-- The loop used by every packet composer of the client:
`for ; l > 0x7f; l >>= 7 { append(byte(l|0x80)) }; append(byte(l))` -/
def encodeVarint (n : Nat) : Bytes :=
  if h : n > 0x7f then UInt8.ofNat (n % 128 + 128) :: encodeVarint (n / 128)
  else [UInt8.ofNat n]
termination_by n
decreasing_by omega

/-- Reference decoder (from the specification, not from the client): at most
`fuel` bytes; the last byte has the continuation bit clear. -/
def decodeVarintAux : Nat → Bytes → Option (Nat × Bytes)
  | 0, _ => none
  | _, [] => none
  | fuel + 1, b :: rest =>
    if b < 128 then some (b.toNat, rest)
    else match decodeVarintAux fuel rest with
      | some (m, r) => some (b.toNat - 128 + 128 * m, r)
      | none => none

def decodeVarint (bs : Bytes) : Option (Nat × Bytes) := decodeVarintAux 4 bs

/-- one step of the client's remaining-length loop in `peekPacket` (client.go:795-818) -/
inductive RemStep | done (size : Nat) | more (size : Nat) | tooLong
deriving DecidableEq, Repr

def remLenStep (shift size : Nat) (b : UInt8) : RemStep :=
  let size := size + (b.toNat % 128) * 2 ^ shift
  if b.toNat < 128 then .done size else if shift ≥ 21 then .tooLong else .more size

/-- the client's loop over a byte list: `none` = more bytes needed -/
def clientRemLen : Bytes → Nat → Nat → Option (Option (Nat × Bytes))
  | [], _, _ => none
  | b :: rest, shift, size =>
    match remLenStep shift size b with
    | .done n => some (some (n, rest))
    | .tooLong => some none
    | .more n => clientRemLen rest (shift + 7) n

end Model
