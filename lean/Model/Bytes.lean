/-! Byte-string helpers shared by every model component (core Lean only). -/
namespace Model

abbrev Bytes := List UInt8

/-- big-endian 16-bit -/
def be16 (n : Nat) : Bytes := [UInt8.ofNat (n / 256 % 256), UInt8.ofNat (n % 256)]

def beU16 (hi lo : UInt8) : Nat := hi.toNat * 256 + lo.toNat

/-- little-endian 64-bit, as `binary.LittleEndian.PutUint64` -/
def le64 (n : Nat) : Bytes :=
  [UInt8.ofNat (n % 256), UInt8.ofNat (n / 256 % 256), UInt8.ofNat (n / 256^2 % 256),
   UInt8.ofNat (n / 256^3 % 256), UInt8.ofNat (n / 256^4 % 256), UInt8.ofNat (n / 256^5 % 256),
   UInt8.ofNat (n / 256^6 % 256), UInt8.ofNat (n / 256^7 % 256)]

/-- little-endian decode of any number of bytes -/
def leNat : Bytes → Nat
  | [] => 0
  | b :: bs => b.toNat + 256 * leNat bs

/-- big-endian decode of any number of bytes -/
def beNat (bs : Bytes) : Nat := bs.foldl (fun acc b => acc * 256 + b.toNat) 0

/-- big-endian 32-bit, as `binary.BigEndian.PutUint32` -/
def be32 (n : Nat) : Bytes :=
  [UInt8.ofNat (n / 256^3 % 256), UInt8.ofNat (n / 256^2 % 256), UInt8.ofNat (n / 256 % 256), UInt8.ofNat (n % 256)]

def hexDigit (n : Nat) : Char :=
  if n < 10 then Char.ofNat (48 + n) else Char.ofNat (87 + n)

def toHex (bs : Bytes) : String :=
  String.ofList (bs.flatMap fun b => [hexDigit (b.toNat / 16), hexDigit (b.toNat % 16)])

def hexVal (c : Char) : Option Nat :=
  if '0' ≤ c ∧ c ≤ '9' then some (c.toNat - 48)
  else if 'a' ≤ c ∧ c ≤ 'f' then some (c.toNat - 87)
  else if 'A' ≤ c ∧ c ≤ 'F' then some (c.toNat - 55)
  else none

def ofHexChars : List Char → Option Bytes
  | [] => some []
  | [_] => none
  | a :: b :: rest => do
    let x ← hexVal a
    let y ← hexVal b
    let r ← ofHexChars rest
    pure (UInt8.ofNat (x * 16 + y) :: r)

/-- "-" denotes the empty string in the line protocol -/
def ofHex (s : String) : Option Bytes :=
  if s == "-" then some [] else ofHexChars s.toList

def hexOrDash (bs : Bytes) : String := if bs.isEmpty then "-" else toHex bs

end Model
