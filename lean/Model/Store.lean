import Model.Record
/-! The user's Persistence as a finite map with one-shot fault injection
(assumption A-store: atomic operations, a failing call is a no-op), and the
`ruggedPersistence` wrapper (storage sequence number + checksum). -/
namespace Model

abbrev Store := List (Nat × Bytes)

def Store.get (s : Store) (k : Nat) : Option Bytes := (s.find? (·.1 == k)).map (·.2)
def Store.erase (s : Store) (k : Nat) : Store := s.filter (·.1 != k)
def Store.put (s : Store) (k : Nat) (v : Bytes) : Store := (k, v) :: s.erase k
def Store.keys (s : Store) : List Nat := s.map (·.1)

/-- insertion sort on a key function (stable) -/
def insertBy (f : α → Nat) (x : α) : List α → List α
  | [] => [x]
  | y :: ys => if f x ≤ f y then x :: y :: ys else y :: insertBy f x ys

def sortBy (f : α → Nat) (l : List α) : List α := l.foldr (insertBy f) []

/-- keys in ascending order (the harness store lists them sorted) -/
def Store.sortedKeys (s : Store) : List Nat := sortBy id s.keys

end Model
