import Model.Bytes
import Generated.Facts
/-! UTF-8 validation as `unicode/utf8.ValidString` implements it (accept ranges
per leading byte), and the checks of mqtt.go built on it. -/
namespace Model

def isCont (b : UInt8) : Bool := 0x80 ≤ b && b ≤ 0xBF

/-- mirrors utf8.ValidString -/
def utf8Valid : Bytes → Bool
  | [] => true
  | b :: rest =>
    if b < 0x80 then utf8Valid rest
    else if 0xC2 ≤ b && b ≤ 0xDF then
      match rest with
      | c1 :: r => isCont c1 && utf8Valid r
      | _ => false
    else if 0xE0 ≤ b && b ≤ 0xEF then
      match rest with
      | c1 :: c2 :: r =>
        (if b == 0xE0 then 0xA0 ≤ c1 && c1 ≤ 0xBF
         else if b == 0xED then 0x80 ≤ c1 && c1 ≤ 0x9F
         else isCont c1) && isCont c2 && utf8Valid r
      | _ => false
    else if 0xF0 ≤ b && b ≤ 0xF4 then
      match rest with
      | c1 :: c2 :: c3 :: r =>
        (if b == 0xF0 then 0x90 ≤ c1 && c1 ≤ 0xBF
         else if b == 0xF4 then 0x80 ≤ c1 && c1 ≤ 0x8F
         else isCont c1) && isCont c2 && isCont c3 && utf8Valid r
      | _ => false
    else false

inductive Deny | stringMax | utf8 | null | zero | packetMax | subscribeNone | unsubscribeNone
deriving DecidableEq, Repr

/-- `stringCheck` of mqtt.go -/
def stringCheck (s : Bytes) : Option Deny :=
  if s.length > Facts.stringMax then some .stringMax
  else if !utf8Valid s then some .utf8
  else if s.contains 0 then some .null
  else none

/-- `topicCheck` of mqtt.go -/
def topicCheck (s : Bytes) : Option Deny :=
  if s.isEmpty then some .zero else stringCheck s

end Model
