import Model.Bytes
/-! `writeTo` and `writeBuffersTo` of client.go over a connection whose `Write`
follows a *policy*: one entry per call. `net.Buffers.WriteTo` (plain io.Writer
path, including `consume`) is modelled as the standard library implements it. -/
namespace Model

inductive WOut | ok | timeout | hard | closed
  | gate   -- the call blocks (until released by the script or the connection is closed)
deriving DecidableEq, Repr

/-- one `conn.Write` call: how many bytes are accepted at most, and the outcome.
`ok` accepts everything offered (io.Writer contract: a short write has an error); an error outcome
accepts strictly less than what was offered (assumption A-conn: all bytes taken means success). -/
structure WPol where
  accept : Nat
  out : WOut
deriving DecidableEq, Repr

structure WConn where
  policy : List WPol := []
  log : Bytes := []
  writes : Nat := 0
deriving DecidableEq, Repr

/-- `conn.Write(p)`: returns the new connection, the count accepted and the outcome -/
def WConn.write (c : WConn) (p : Bytes) : WConn × Nat × WOut :=
  -- writing nothing succeeds on any open connection and tells nothing about it
  if p.isEmpty then ({ c with writes := c.writes + 1 }, 0, .ok) else
  match c.policy with
  | [] => ({ c with log := c.log ++ p, writes := c.writes + 1 }, p.length, .ok)
  | e :: rest =>
    match e.out with
    | .ok => ({ policy := rest, log := c.log ++ p, writes := c.writes + 1 }, p.length, .ok)
    | .gate => (c, 0, .gate)    -- nothing happens until the gate opens; the entry stays
    | o =>
      -- A-conn: a Write that reports an error accepted fewer bytes than it was given
      let n := min e.accept (p.length - 1)
      ({ policy := rest, log := c.log ++ p.take n, writes := c.writes + 1 }, n, o)

/-- `writeTo(conn, p, idleTimeout)`: retry after a deadline expiry that made progress -/
def writeToAux : Nat → WConn → Bytes → WConn × WOut
  | 0, c, _ => (c, .hard)  -- unreachable: fuel is |p| + 1
  | fuel + 1, c, p =>
    match c.write p with
    | (c', _, .ok) => (c', .ok)
    | (c', n, .timeout) => if n = 0 then (c', .timeout) else writeToAux fuel c' (p.drop n)
    | (c', _, o) => (c', o)

def writeTo (c : WConn) (p : Bytes) : WConn × WOut := writeToAux (p.length + 1) c p

/-- `(*Buffers).consume(n)` -/
def consume : List Bytes → Nat → List Bytes
  | [], _ => []
  | b :: rest, n => if b.length > n then b.drop n :: rest else consume rest (n - b.length)

/-- `(*Buffers).WriteTo(w)` for a plain io.Writer: one Write per buffer; the
receiver is consumed by what was written. Returns conn, n, outcome, the consumed vector. -/
def buffersWriteToAux (c : WConn) (n : Nat) : List Bytes → WConn × Nat × WOut
  | [] => (c, n, .ok)
  | b :: rest =>
    match c.write b with
    | (c', nb, .ok) => buffersWriteToAux c' (n + nb) rest
    | (c', nb, o) => (c', n + nb, o)

def buffersWriteTo (c : WConn) (v : List Bytes) : WConn × Nat × WOut × List Bytes :=
  let (c', n, o) := buffersWriteToAux c 0 v
  (c', n, o, consume v n)

def bufsLen (v : List Bytes) : Nat := (v.map (·.length)).sum

/-- `writeBuffersTo(conn, p, idleTimeout)`: after a progress-making expiry it
continues with what `WriteTo` left in the vector. -/
def writeBuffersToAux : Nat → WConn → List Bytes → WConn × WOut
  | 0, c, _ => (c, .hard)
  | fuel + 1, c, v =>
    match buffersWriteTo c v with
    | (c', _, .ok, _) => (c', .ok)
    | (c', n, .timeout, v') => if n = 0 then (c', .timeout) else writeBuffersToAux fuel c' v'
    | (c', _, o, _) => (c', o)

def writeBuffersTo (c : WConn) (v : List Bytes) : WConn × WOut := writeBuffersToAux (bufsLen v + 1) c v

end Model
