import Model.Bytes
import Generated.Facts
/-! `encodeValue` / `decodeValue` of mqtt.go with FNV-1a (32 bit).
The hash is over `BitVec 32` because property C15 is about modular arithmetic. -/
namespace Model

def fnvOffset : BitVec 32 := 2166136261#32
def fnvPrime : BitVec 32 := 16777619#32

def fnvStep (h : BitVec 32) (b : UInt8) : BitVec 32 :=
  (h ^^^ BitVec.ofNat 32 b.toNat) * fnvPrime

/-- `hash/fnv` New32a: Write then Sum32 -/
def fnv1a (bs : Bytes) : BitVec 32 := bs.foldl fnvStep fnvOffset

/-- trailer length: 8-byte sequence number + 4-byte checksum -/
def trailerLen : Nat := 12

inductive DecErr | truncated | corrupt
deriving DecidableEq, Repr

/-- `encodeValue(packet, seqNo)` with the buffers joined -/
def encodeValue (packet : Bytes) (seq : Nat) : Bytes :=
  let body := packet ++ le64 seq
  body ++ be32 (fnv1a body).toNat

/-- `decodeValue(buf)` -/
def decodeValue (buf : Bytes) : Except DecErr (Bytes × Nat) :=
  if buf.length < trailerLen then .error .truncated
  else
    let body := buf.take (buf.length - 4)
    let sum := buf.drop (buf.length - 4)
    if (fnv1a body).toNat != beNat sum then .error .corrupt
    else .ok (buf.take (buf.length - 12), leNat (body.drop (buf.length - 12)))

end Model
