import Model.Store
import Model.Compose
/-! `AdoptSession` (request.go) as a total function on an arbitrary store:
list, decode, partition by packet type and key space, sort by storage sequence
number, `cleanSequence`, PUBREL→PUBLISH gap rule, limit check, counter
reconstruction with the 14-bit wrap rule. -/
namespace Model

def idMask : Nat := Facts.publishIDMask
def idMod : Nat := Facts.publishIDMask + 1

/-- `cfg.AtLeastOnceMax` / `ExactlyOnceMax` as normalised by `newClient` -/
def normMax (m : Int) : Nat :=
  if m < 0 ∨ m > (Facts.publishIDMask : Int) then Facts.publishIDMask + 1 else m.toNat

inductive Warn
  | corruptDeleted (key : Nat)
  | corruptKept (key : Nat)
  | gap (first lastKey next : Nat)            -- cleanSequence: first–lastKey dropped due gap until next
  | relGap (first lastKey next : Nat)         -- PUBREL first–lastKey dropped due gap until PUBLISH next
deriving DecidableEq, Repr

/-- consecutive 14-bit identifiers: `n-p == 1 || n == 0 && p == publishIDMask` -/
def consecutive (p n : Nat) : Bool :=
  (n % idMod == p % idMod + 1) || (n % idMod == 0 && p % idMod == idMask)

/-- `cleanSequence`: keeps the contiguous tail; one warning per gap. `seg` is the
current candidate (reversed), `first` its first key. -/
def cleanSeqAux : Nat → Nat → List Nat → List Nat → List Nat × List Warn
  | _, _, acc, [] => (acc.reverse, [])
  | first, prev, acc, n :: rest =>
    if consecutive prev n then cleanSeqAux first n (n :: acc) rest
    else
      let (out, ws) := cleanSeqAux n n [n] rest
      (out, .gap first prev n :: ws)

def cleanSeq : List Nat → List Nat × List Warn
  | [] => ([], [])
  | k :: rest => cleanSeqAux k k [k] rest

structure Counters where
  acked : Nat := 0
  accept1 : Nat := 0
  completed : Nat := 0
  received : Nat := 0
  accept2 : Nat := 0
deriving DecidableEq, Repr

/-- level 1: `Acked` from the first key, `acceptN` from the last with the wrap rule (request.go:906-925) -/
def recon1 (alo : List Nat) : Nat × Nat :=
  match alo.head?, alo.getLast? with
  | some f, some l =>
    let a := f % idMod
    (a, (if l % idMod < a then l % idMod + idMod else l % idMod) + 1)
  | _, _ => (0, 0)

/-- level 2: `Completed` and `Received` (request.go:933-944) -/
def recon2cr (eo rel : List Nat) : Nat × Nat :=
  match rel.head?, rel.getLast? with
  | some f, some l =>
    let c := f % idMod
    let r := l % idMod + 1
    (c, if r ≤ c then r + idMod else r)
  | _, _ =>
    match eo.head? with
    | some f => (f % idMod, f % idMod)
    | none => (0, 0)

/-- level 2: `acceptN` (request.go:946-957) -/
def recon2a (eo : List Nat) (received : Nat) : Nat :=
  match eo.getLast? with
  | some l => (if l % idMod < received then l % idMod + idMod else l % idMod) + 1
  | none => received

/-- counter reconstruction from the cleaned key lists -/
def reconstruct (alo eo rel : List Nat) : Counters :=
  let (acked, accept1) := recon1 alo
  let (completed, received) := recon2cr eo rel
  { acked, accept1, completed, received, accept2 := recon2a eo received }

inductive AdoptFatal | deny | load | limit | panic
deriving DecidableEq, Repr

structure Adopted where
  store : Store              -- after the deletes AdoptSession performed
  warns : List Warn
  alo : List Nat             -- keys, in order
  eo : List Nat
  rel : List Nat
  ctr : Counters
  maxSeq : Nat               -- largest storage sequence number seen
deriving Repr

structure Classified where
  store : Store
  warns : List Warn := []
  alo : List (Nat × Nat) := []   -- (key, storage seq)
  eo : List (Nat × Nat) := []
  rel : List (Nat × Nat) := []
  maxSeq : Nat := 0
  panic : Bool := false

/-- the classification loop over the listed keys. `delFails` tells whether the
Delete of a corrupt record fails (fault injection). -/
def classify (delFails : Nat → Bool) : List Nat → Classified → Classified
  | [], c => c
  | key :: rest, c =>
    if key == Facts.clientIDKey then classify delFails rest c else
    match c.store.get key with
    | none => classify delFails rest c   -- listed but not loadable: decodeValue(nil) is "truncated"
    | some raw =>
      match decodeValue raw with
      | .error _ =>
        if delFails key then classify delFails rest { c with warns := c.warns ++ [.corruptKept key] }
        else classify delFails rest { c with store := c.store.erase key, warns := c.warns ++ [.corruptDeleted key] }
      | .ok (packet, seq) =>
        -- an intact marker of the receive side stays as it is: nothing to resend
        if key / Facts.remoteIDKeyFlag % 2 == 1 then classify delFails rest c else
        match packet with
        | [] => { c with panic := true }     -- packet[0] index out of range
        | h :: _ =>
          let c := { c with maxSeq := max c.maxSeq seq }
          let t := h.toNat / 16
          let space := key / idMod * idMod
          if t == Facts.typePUBLISH then
            if space == Facts.atLeastOnceIDSpace then classify delFails rest { c with alo := c.alo ++ [(key, seq)] }
            else if space == Facts.exactlyOnceIDSpace then classify delFails rest { c with eo := c.eo ++ [(key, seq)] }
            else classify delFails rest c
          else if t == Facts.typePUBREL then classify delFails rest { c with rel := c.rel ++ [(key, seq)] }
          else classify delFails rest c

/-- the PUBREL→PUBLISH gap rule (request.go:887-894): without continuity the PUBRELs are dropped -/
def relRule (eo rel : List Nat) : List Nat × List Warn :=
  match eo.head?, rel.head?, rel.getLast? with
  | some n, some rf, some rl => if consecutive rl n then (rel, []) else ([], [Warn.relGap rf rl n])
  | _, _, _ => (rel, [])

/-- sort by storage sequence number, clean each sequence, apply the gap rule -/
def cleanLists (c : Classified) : List Nat × List Nat × List Nat × List Warn :=
  let a := cleanSeq ((sortBy (·.2) c.alo).map (·.1))
  let e := cleanSeq ((sortBy (·.2) c.eo).map (·.1))
  let r := cleanSeq ((sortBy (·.2) c.rel).map (·.1))
  let r' := relRule e.1 r.1
  (a.1, e.1, r'.1, a.2 ++ e.2 ++ r.2 ++ r'.2)

/-- AdoptSession after `Config.valid` (the deny rules are in `Cfg.valid`). -/
def adopt (store : Store) (max1 max2 : Int) (delFails : Nat → Bool := fun _ => false) :
    Except AdoptFatal Adopted :=
  let c := classify delFails store.sortedKeys { store := store }
  if c.panic then .error .panic else
  let l := cleanLists c
  if l.1.length > normMax max1 then .error .limit
  else if l.2.1.length + l.2.2.1.length > normMax max2 then .error .limit
  else .ok { store := c.store, warns := c.warns ++ l.2.2.2, alo := l.1, eo := l.2.1, rel := l.2.2.1,
             ctr := reconstruct l.1 l.2.1 l.2.2.1, maxSeq := c.maxSeq }

end Model
