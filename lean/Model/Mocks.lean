import Model.Bytes
/-! The mqtttest doubles as pure functions over call sequences (mqtttest.go). -/
namespace Model

/-- error tokens of the line protocol: `nil`, plain errors, ErrClosed (plain or wrapped), blocks -/
inductive MErr
  | nil | plain (n : Nat) | closed | wrappedClosed | block (ms : Nat)
deriving DecidableEq, Repr

def MErr.isClosed : MErr → Bool
  | .closed | .wrappedClosed => true
  | _ => false

structure Transfer where
  msg : Bytes
  topic : Bytes
  err : MErr
deriving DecidableEq, Repr

structure MockState where
  index : Nat := 0       -- wantIndex
  fails : Nat := 0       -- failures recorded on the testing.TB
deriving DecidableEq, Repr

/-- `NewPublishMock`: one invocation. Returns the new state and the returned error (`none` = ErrCanceled). -/
def publishMockCall (want : List Transfer) (st : MockState) (quitClosed : Bool) (msg topic : Bytes) : MockState × Option MErr :=
  if quitClosed then (st, none) else
  let i := st.index
  let st := { st with index := i + 1 }
  match want[i]? with
  | none => ({ st with fails := st.fails + 1 }, some .nil)
  | some t =>
    if msg != t.msg || topic != t.topic then ({ st with fails := st.fails + 1 }, some t.err)
    else (st, some t.err)

/-- the Cleanup of the counting mocks: `uint64(len(want)) - wantIndex > 0` (wraps when there were too many calls) -/
def mockCleanup (nwant : Nat) (st : MockState) : MockState :=
  if st.index != nwant then { st with fails := st.fails + 1 } else st

structure Filter where
  topics : List Bytes
  err : MErr
deriving DecidableEq, Repr

inductive SubRet | canceled | fatal | ret (e : MErr)
deriving DecidableEq, Repr

/-- `newSubscribeMock`: one invocation -/
def subscribeMockCall (want : List Filter) (st : MockState) (quitClosed : Bool) (filters : List Bytes) : MockState × SubRet :=
  if filters.isEmpty then ({ st with fails := st.fails + 1 }, .fatal) else
  if quitClosed then (st, .canceled) else
  let i := st.index
  let st := { st with index := i + 1 }
  match want[i]? with
  | none => ({ st with fails := st.fails + 1 }, .ret .nil)
  | some f =>
    -- todo-set semantics: each expected topic can be matched once
    let (todo, wrong) := filters.foldl (fun (acc : List Bytes × List Bytes) x =>
        if acc.1.contains x then (acc.1.erase x, acc.2) else (acc.1, acc.2 ++ [x])) (f.topics.eraseDups, [])
    let st := if !wrong.isEmpty then { st with fails := st.fails + 1 } else st
    let st := if !todo.isEmpty then { st with fails := st.fails + 1 } else st
    (st, .ret f.err)

/-- `NewReadSlicesMock`: one invocation returns the next Transfer or records a failure -/
def readSlicesMockCall (want : List Transfer) (st : MockState) : MockState × Option Transfer :=
  let i := st.index
  let st := { st with index := i + 1 }
  match want[i]? with
  | none => ({ st with fails := st.fails + 1 }, none)
  | some t => (st, some t)

/-- `NewPublishExchangeStub` script validation: does the constructor panic? -/
def exchangeScriptPanics (errFix : MErr) : List MErr → Bool
  | [] => false
  | script =>
    if errFix != .nil then true else
    let n := script.length
    (List.range n).any fun i =>
      match script[i]? with
      | some .nil => true
      | some e => (e.isClosed && i + 1 < n) || (e == .block 0 && i + 1 < n)
      | none => false

/-- what the exchange channel delivers and whether it is closed afterwards -/
def exchangeRun : List MErr → List MErr × Bool
  | [] => ([], true)
  | e :: rest =>
    if e.isClosed then ([e], false)
    else match e with
      | .block 0 => ([], false)
      | .block _ => exchangeRun rest
      | _ => let (d, c) := exchangeRun rest; (e :: d, c)

end Model
