import Model.Session
import Proofs.Signals
/-! helpers: what a successful connect leaves behind -/
namespace Model

def ConnectGood (r : S × ConnectResult) : Prop :=
  r.2 = .done none → r.1.online = true ∧ r.1.link = .live ∧ r.1.readConn = true

theorem connectFail_good (s : S) (prev : Option Conn) (e : Err) : ConnectGood (s.connectFail prev e) := by
  intro h; cases h

/-- a connect attempt that reports success leaves the Online signal released and the live connection in the write semaphore -/
theorem connectFinish_good (s : S) (clean : Bool) (prev : Option Conn) : ConnectGood (s.connectFinish clean prev) := by
  unfold S.connectFinish
  repeat' (first | split | dsimp only)
  all_goals first
    | exact connectFail_good _ _ _
    | (intro h; cases h; done)
    | (intro _; exact ⟨rfl, rfl, rfl⟩)
def ConnectDown (r : S × ConnectResult) : Prop :=
  ∀ e, r.2 = .done (some e) → r.1.link = .down ∧ r.1.waiters = []

theorem failWaiters_waiters (s : S) (e : Err) : (s.failWaiters e).waiters = [] := by
  unfold S.failWaiters; rfl

theorem connectFail_down (s : S) (prev : Option Conn) (e : Err) : ConnectDown (s.connectFail prev e) := by
  intro e' _
  unfold S.connectFail
  simp only
  exact ⟨by rw [(failWaiters_sig _ _).2], failWaiters_waiters _ _⟩

theorem connectFinish_down (s : S) (clean : Bool) (prev : Option Conn) (hc : s.conn.isSome) : ConnectDown (s.connectFinish clean prev) := by
  unfold S.connectFinish
  repeat' (first | split | dsimp only)
  all_goals first
    | exact connectFail_down _ _ _
    | (intro e h; cases h; done)
    | (intro e _; exact ⟨by rw [(failWaiters_sig _ _).2], failWaiters_waiters _ _⟩)
    | (simp_all; done)
theorem connWrite_conn_isSome (s : S) (f : WConn → WConn × WOut) (h : s.conn.isSome) : (s.connWrite f).1.conn.isSome := by
  unfold S.connWrite
  cases hc : s.conn with
  | none => simp [hc] at h
  | some c =>
    simp only
    split
    · simp [hc]
    · dsimp only
      split <;> simp [S.emit]

end Model
