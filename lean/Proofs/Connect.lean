import Model.Session
/-! helpers: what a successful connect leaves behind -/
namespace Model

def ConnectGood (r : S × ConnectResult) : Prop :=
  r.2 = .done none → r.1.online = true ∧ r.1.link = .live ∧ r.1.readConn = true

theorem connectFail_good (s : S) (prev : Option Conn) (e : Err) : ConnectGood (s.connectFail prev e) := by
  intro h; cases h

/-- a connect attempt that reports success leaves the Online signal released and the live connection in the write semaphore -/
theorem connectFinish_good (s : S) (clean : Bool) (prev : Option Conn) : ConnectGood (s.connectFinish clean prev) := by
  unfold S.connectFinish
  repeat' (first | split | dsimp only)
  all_goals first
    | exact connectFail_good _ _ _
    | (intro h; cases h; done)
    | (intro _; exact ⟨rfl, rfl, rfl⟩)
end Model
