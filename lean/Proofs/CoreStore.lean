import Proofs.Core
/-! The store part of the core invariant: every pending transfer has its record,
at the right stage; by induction over operation sequences of any length. -/
namespace Model

def isPublish (p : Bytes) : Prop := ∃ h rest, p = h :: rest ∧ h.toNat / 16 = Facts.typePUBLISH

def relPacket (id : Nat) : Bytes := [UInt8.ofNat (Facts.typePUBREL * 16 + 2), 2] ++ be16 id

def key1 (n : Nat) : Nat := publishKey Facts.atLeastOnceIDSpace n
def key2 (n : Nat) : Nat := publishKey Facts.exactlyOnceIDSpace n

/-- a stored value written by the rugged wrapper for packet `p` -/
def Holds (st : Store) (k : Nat) (P : Bytes → Prop) : Prop :=
  ∃ p seq, st.get k = some (encodeValue p seq) ∧ P p

structure Core.StoreInv (c : Core) : Prop where
  s1 : ∀ n, c.acked ≤ n → n < c.l1.acceptN → Holds c.store (key1 n) isPublish
  rel : ∀ n, c.completed ≤ n → n < c.received → Holds c.store (key2 n) (· = relPacket (key2 n))
  s2 : ∀ n, c.received ≤ n → n < c.l2.acceptN → Holds c.store (key2 n) isPublish

theorem key1_lt (n : Nat) : 0x8000 ≤ key1 n ∧ key1 n < 0xc000 := by
  have := publishKey_range Facts.atLeastOnceIDSpace n
  have : Facts.atLeastOnceIDSpace = 0x8000 := rfl
  have : idMod = 0x4000 := rfl
  unfold key1; omega

theorem key2_lt (n : Nat) : 0xc000 ≤ key2 n ∧ key2 n < 0x10000 := by
  have := publishKey_range Facts.exactlyOnceIDSpace n
  have : Facts.exactlyOnceIDSpace = 0xc000 := rfl
  have : idMod = 0x4000 := rfl
  unfold key2; omega

theorem key1_ne_key2 (n m : Nat) : key1 n ≠ key2 m := by
  have := key1_lt n; have := key2_lt m; omega

theorem Holds.put_other {st : Store} {k k' : Nat} {P : Bytes → Prop} (v : Bytes) (h : Holds st k' P) (hne : k' ≠ k) :
    Holds (st.put k v) k' P := by
  obtain ⟨p, seq, hg, hp⟩ := h
  exact ⟨p, seq, by rw [Store.get_put_other st v hne]; exact hg, hp⟩

theorem Holds.erase_other {st : Store} {k k' : Nat} {P : Bytes → Prop} (h : Holds st k' P) (hne : k' ≠ k) :
    Holds (st.erase k) k' P := by
  obtain ⟨p, seq, hg, hp⟩ := h
  exact ⟨p, seq, by rw [Store.get_erase_other st hne]; exact hg, hp⟩

theorem Holds.put_same (st : Store) (k : Nat) (p : Bytes) (seq : Nat) {P : Bytes → Prop} (hp : P p) :
    Holds (st.put k (encodeValue p seq)) k P :=
  ⟨p, seq, Store.get_put_same st k _, hp⟩

/-- keys of one level are distinct inside the in-flight window -/
theorem key1_inj_window {c : Core} (h : c.Inv) {n m : Nat} (hn : c.acked ≤ n ∧ n ≤ c.l1.acceptN)
    (hm : c.acked ≤ m ∧ m ≤ c.l1.acceptN) (hlt : c.l1.acceptN - c.acked < idMod) (he : key1 n = key1 m) : n = m := by
  exact publishKey_inj (lo := c.acked) (c.l1.acceptN - c.acked + 1) (by omega) ⟨hn.1, by omega⟩ ⟨hm.1, by omega⟩ he

theorem key2_inj_window {c : Core} (h : c.Inv) {n m : Nat} (hn : c.completed ≤ n ∧ n ≤ c.l2.acceptN)
    (hm : c.completed ≤ m ∧ m ≤ c.l2.acceptN) (hlt : c.l2.acceptN - c.completed < idMod) (he : key2 n = key2 m) : n = m := by
  exact publishKey_inj (lo := c.completed) (c.l2.acceptN - c.completed + 1) (by omega) ⟨hn.1, by omega⟩ ⟨hm.1, by omega⟩ he

theorem Core.pubackCheck_ok {c : Core} {id : Nat} (h : c.pubackCheck id = .ok) :
    id = key1 c.acked ∧ c.l1.queue.isEmpty = false := by
  unfold Core.pubackCheck at h
  repeat' split at h
  all_goals first | exact absurd h (by decide) | skip
  rename_i h1 h2 h3 h4
  simp at h3 h4
  exact ⟨h3.symm, by cases hq : c.l1.queue <;> simp_all⟩

theorem Core.pubrecCheck_ok {c : Core} {id : Nat} (h : c.pubrecCheck id = .ok) :
    id = key2 c.received ∧ c.received - c.completed < c.l2.queue.length := by
  unfold Core.pubrecCheck at h
  repeat' split at h
  all_goals first | exact absurd h (by decide) | skip
  rename_i h1 h2 h3 h4
  simp at h3 h4
  exact ⟨h3, h4⟩

theorem Core.pubcompCheck_ok {c : Core} {id : Nat} (h : c.pubcompCheck id = .ok) :
    id = key2 c.completed ∧ c.completed < c.received ∧ c.l2.queue.isEmpty = false := by
  unfold Core.pubcompCheck at h
  repeat' split at h
  all_goals first | exact absurd h (by decide) | skip
  rename_i h1 h2 h3 h4
  simp at h3 h4
  exact ⟨h3, h4.1, by cases hq : c.l2.queue <;> simp_all⟩

/-- operations whose packets are what the client composes: PUBLISH on accept -/
def COp.wf : COp → Prop
  | .accept _ pk _ _ => ∀ k, isPublish (pk k)
  | _ => True

theorem Core.StoreInv.of_eq {c c' : Core} (h : c.StoreInv) (e0 : c'.store = c.store) (e1 : c'.l1.acceptN = c.l1.acceptN)
    (e2 : c'.l2.acceptN = c.l2.acceptN) (e3 : c'.acked = c.acked) (e4 : c'.received = c.received)
    (e5 : c'.completed = c.completed) : c'.StoreInv := by
  refine ⟨?_, ?_, ?_⟩
  · intro n a b; rw [e0]; exact h.s1 n (by omega) (by omega)
  · intro n a b; rw [e0]; exact h.rel n (by omega) (by omega)
  · intro n a b; rw [e0]; exact h.s2 n (by omega) (by omega)

theorem Core.accept_storeInv (c : Core) (hi : c.Inv) (h : c.StoreInv) (lvl : Nat) (pk : Nat → Bytes)
    (hpk : ∀ k, isPublish (pk k)) (f : Bool) (ex : Nat) : (c.accept lvl pk f ex).1.StoreInv := by
  unfold Core.accept
  by_cases hcl : (c.lv lvl).seqClosed = true
  · simp [hcl, h]
  · simp only [hcl, Bool.false_eq_true, if_false]
    have hcl' : (c.lv lvl).seqClosed = false := by simpa using hcl
    by_cases hq : (c.lv lvl).queue.length ≥ (c.lv lvl).max
    · simp [hq, h]
    · simp only [hq, if_false]
      unfold Core.save
      cases f with
      | true => simp only [if_true]; exact h.of_eq rfl rfl rfl rfl rfl rfl
      | false =>
        simp only [Bool.false_eq_true, if_false]
        unfold Core.setLv Core.lv at *
        by_cases h1 : (lvl == 1) = true
        · simp only [h1, if_true] at *
          have hw := hi.l1.window hcl'
          have hm := hi.l1.max_le
          rw [hi.sp1]
          refine ⟨?_, ?_, ?_⟩
          · intro n a b
            simp only at a b ⊢
            by_cases hn : n = c.l1.acceptN
            · subst hn; exact Holds.put_same _ _ _ _ (hpk _)
            · refine (h.s1 n a (by omega)).put_other _ ?_
              intro he
              exact hn (key1_inj_window hi ⟨a, by omega⟩ ⟨hi.l1.lo_le, Nat.le_refl _⟩ (by omega) he)
          · intro n a b; exact (h.rel n a b).put_other _ (fun e => key1_ne_key2 _ _ e.symm)
          · intro n a b; exact (h.s2 n a b).put_other _ (fun e => key1_ne_key2 _ _ e.symm)
        · simp only [h1, Bool.false_eq_true, if_false] at *
          have hw := hi.l2.window hcl'
          have hm := hi.l2.max_le
          have hr := hi.rec_lo
          have hr2 := hi.rec_hi
          have hlo := hi.l2.lo_le
          have hlt : c.l2.acceptN - c.completed < idMod := by omega
          rw [hi.sp2]
          refine ⟨?_, ?_, ?_⟩
          · intro n a b; exact (h.s1 n a b).put_other _ (key1_ne_key2 _ _)
          · intro n a b
            simp only at a b ⊢
            refine (h.rel n a b).put_other _ ?_
            intro he
            have := key2_inj_window hi ⟨a, by omega⟩ ⟨hlo, Nat.le_refl _⟩ hlt he
            omega
          · intro n a b
            simp only at a b ⊢
            by_cases hn : n = c.l2.acceptN
            · subst hn; exact Holds.put_same _ _ _ _ (hpk _)
            · refine (h.s2 n a (by omega)).put_other _ ?_
              intro he
              exact hn (key2_inj_window hi ⟨by omega, by omega⟩ ⟨hlo, Nat.le_refl _⟩ hlt he)

theorem Core.puback_storeInv (c : Core) (hi : c.Inv) (h : c.StoreInv) (id : Nat) (f : Bool)
    (hc : c.pubackCheck id = .ok) : (c.puback id f).1.StoreInv := by
  obtain ⟨hid, _⟩ := Core.pubackCheck_ok hc
  unfold Core.puback Core.delete
  cases f with
  | true => simp only [if_true]; exact h
  | false =>
    simp only [Bool.false_eq_true, if_false]
    have hs := hi.l1.span
    have hm := hi.l1.max_le
    refine ⟨?_, ?_, ?_⟩
    · intro n a b
      simp only at a b ⊢
      refine (h.s1 n (by omega) b).erase_other ?_
      intro he
      rw [hid] at he
      have := publishKey_inj (lo := c.acked) (c.l1.acceptN - c.acked) (by omega) ⟨by omega, by omega⟩
        ⟨Nat.le_refl _, by omega⟩ he
      omega
    · intro n a b; exact (h.rel n a b).erase_other (by rw [hid]; exact fun e => key1_ne_key2 _ _ e.symm)
    · intro n a b; exact (h.s2 n a b).erase_other (by rw [hid]; exact fun e => key1_ne_key2 _ _ e.symm)

theorem Core.pubcomp_storeInv (c : Core) (hi : c.Inv) (h : c.StoreInv) (id : Nat) (f : Bool)
    (hc : c.pubcompCheck id = .ok) : (c.pubcomp id f).1.StoreInv := by
  obtain ⟨hid, hlt, _⟩ := Core.pubcompCheck_ok hc
  unfold Core.pubcomp Core.delete
  cases f with
  | true => simp only [if_true]; exact h
  | false =>
    simp only [Bool.false_eq_true, if_false]
    have hs := hi.l2.span
    have hm := hi.l2.max_le
    have hr2 := hi.rec_hi
    have ne : ∀ n, c.completed + 1 ≤ n → n < c.l2.acceptN → key2 n ≠ id := by
      intro n a b he
      rw [hid] at he
      have := publishKey_inj (lo := c.completed) (c.l2.acceptN - c.completed) (by omega) ⟨by omega, by omega⟩
        ⟨Nat.le_refl _, by omega⟩ he
      omega
    refine ⟨?_, ?_, ?_⟩
    · intro n a b; exact (h.s1 n a b).erase_other (by rw [hid]; exact key1_ne_key2 _ _)
    · intro n a b
      simp only at a b ⊢
      exact (h.rel n (by omega) b).erase_other (ne n a (by omega))
    · intro n a b
      simp only at a b ⊢
      exact (h.s2 n a b).erase_other (ne n (by omega) b)

theorem Core.pubrec_storeInv (c : Core) (hi : c.Inv) (h : c.StoreInv) (id : Nat) (f : Bool)
    (hc : c.pubrecCheck id = .ok) : (c.pubrec id (relPacket id) f).1.StoreInv := by
  obtain ⟨hid, hlt⟩ := Core.pubrecCheck_ok hc
  unfold Core.pubrec Core.save
  cases f with
  | true => simp only [if_true]; exact h.of_eq rfl rfl rfl rfl rfl rfl
  | false =>
    simp only [Bool.false_eq_true, if_false]
    have hs := hi.l2.span
    have hm := hi.l2.max_le
    have hr := hi.rec_lo
    have hr2 := hi.rec_hi
    have hq := hi.l2.qlen
    have hcl : c.l2.seqClosed = false := by
      cases hcc : c.l2.seqClosed with
      | false => rfl
      | true => have := hi.l2.closedq hcc; simp [this] at hlt
    have hw := hi.l2.window hcl
    have ne : ∀ n, c.completed ≤ n → n < c.l2.acceptN → n ≠ c.received → key2 n ≠ id := by
      intro n a b hn he
      rw [hid] at he
      exact hn (publishKey_inj (lo := c.completed) (c.l2.acceptN - c.completed) (by omega) ⟨a, by omega⟩
        ⟨hr, by omega⟩ he)
    refine ⟨?_, ?_, ?_⟩
    · intro n a b; exact (h.s1 n a b).put_other _ (by rw [hid]; exact key1_ne_key2 _ _)
    · intro n a b
      simp only at a b ⊢
      by_cases hn : n = c.received
      · subst hn; rw [hid]; exact Holds.put_same _ _ _ _ rfl
      · exact (h.rel n a (by omega)).put_other _ (ne n a (by omega) hn)
    · intro n a b
      simp only at a b ⊢
      exact (h.s2 n (by omega) b).put_other _ (ne n (by omega) b (by omega))

theorem Core.step_storeInv (c : Core) (hi : c.Inv) (h : c.StoreInv) (op : COp) (hwf : op.wf) : (c.step op).StoreInv := by
  cases op with
  | accept lvl pk f ex => exact Core.accept_storeInv c hi h lvl pk hwf f ex
  | submitted lvl =>
    simp only [Core.step, Core.markSubmitted, Core.setLv, Core.lv]
    split <;> exact h.of_eq rfl rfl rfl rfl rfl rfl
  | resent lvl n =>
    simp only [Core.step, Level.resent, Core.setLv, Core.lv]
    repeat' split
    all_goals exact h.of_eq rfl rfl rfl rfl rfl rfl
  | puback id f =>
    simp only [Core.step]
    split
    · rename_i hc; exact Core.puback_storeInv c hi h id f hc
    · exact h
  | pubrec id f =>
    simp only [Core.step]
    split
    · rename_i hc; exact Core.pubrec_storeInv c hi h id f hc
    · exact h
  | pubcomp id f =>
    simp only [Core.step]
    split
    · rename_i hc; exact Core.pubcomp_storeInv c hi h id f hc
    · exact h
  | term => exact h.of_eq rfl rfl rfl rfl rfl rfl

/-- counters and records stay consistent over every operation sequence -/
theorem Core.run_storeInv (c : Core) (hi : c.Inv) (h : c.StoreInv) (ops : List COp) (hwf : ∀ op ∈ ops, op.wf) :
    (c.run ops).Inv ∧ (c.run ops).StoreInv := by
  induction ops generalizing c with
  | nil => exact ⟨hi, h⟩
  | cons op ops ih =>
    exact ih _ (Core.step_inv c hi op) (Core.step_storeInv c hi h op (hwf op (by simp)))
      (fun o ho => hwf o (by simp [ho]))

theorem Core.fresh_storeInv (store : Store) (seqNo : Nat) (m1 m2 : Int) : (Core.fresh store seqNo m1 m2).StoreInv := by
  refine ⟨?_, ?_, ?_⟩ <;> intro n a b <;> simp [Core.fresh] at a b <;> omega

theorem Store.put_keeps (st : Store) (k k' : Nat) (v : Bytes) (h : (st.get k).isSome) : ((st.put k' v).get k).isSome := by
  by_cases hk : k = k'
  · subst hk; simp [Store.get_put_same]
  · rw [Store.get_put_other _ _ hk]; exact h

/-- accepting a publish never removes a record -/
theorem Core.accept_keeps (c : Core) (lvl : Nat) (pk : Nat → Bytes) (f : Bool) (ex : Nat) (k : Nat)
    (h : (c.store.get k).isSome) : ((c.accept lvl pk f ex).1.store.get k).isSome := by
  unfold Core.accept
  by_cases hcl : (c.lv lvl).seqClosed = true
  · simp [hcl, h]
  · simp only [hcl, Bool.false_eq_true, if_false]
    by_cases hq : (c.lv lvl).queue.length ≥ (c.lv lvl).max
    · simp [hq, h]
    · simp only [hq, if_false]
      unfold Core.save
      cases f with
      | true => simpa using h
      | false =>
        simp only [Bool.false_eq_true, if_false]
        unfold Core.setLv
        split <;> exact Store.put_keeps _ _ _ _ h

end Model
