import Model.Locks
/-! Lemmas on the lock discipline (used by Props/C10, Props/C12). -/
namespace Model

theorem chain_increasing (a : Waiter) (ps : List Waiter) (hne : ps ≠ [])
    (hd : ∀ p ∈ ps, p.Disciplined) (hc : WaitChain a ps) :
    a.want < (ps.getLast hne).want := by
  induction ps generalizing a with
  | nil => exact absurd rfl hne
  | cons b rest ih =>
    obtain ⟨hab, hrest⟩ := hc
    have hb : b.Disciplined := hd b (by simp)
    have h1 : a.want < b.want := hb _ hab
    cases rest with
    | nil => simpa using h1
    | cons c rest' =>
      have := ih b (by simp) (fun p hp => hd p (by simp [hp])) hrest
      simp only [List.getLast_cons (show c :: rest' ≠ [] by simp)]
      omega

/-- no circular wait among disciplined actors: a cycle of waits would make a rank smaller than itself -/
theorem no_deadlock_cycle (a : Waiter) (ps : List Waiter) (ha : a.Disciplined) (hd : ∀ p ∈ ps, p.Disciplined)
    (hc : WaitChain a ps) (hne : ps ≠ []) (hback : WaitsFor (ps.getLast hne) a) : False := by
  have h1 := chain_increasing a ps hne hd hc
  have h2 : (ps.getLast hne).want < a.want := ha _ hback
  omega

theorem increasing_head_lt : ∀ (a : Nat) (r : List Nat), increasing (a :: r) = true → ∀ x ∈ r, a < x
  | _, [], _, x, hx => by simp at hx
  | a, b :: r, h, x, hx => by
    simp only [increasing, Bool.and_eq_true, decide_eq_true_eq] at h
    rcases List.mem_cons.mp hx with rfl | hx'
    · exact h.1
    · have := increasing_head_lt b r h.2 x hx'
      omega

theorem increasing_tail : ∀ (a : Nat) (r : List Nat), increasing (a :: r) = true → increasing r = true
  | _, [], _ => rfl
  | _, _ :: _, h => by
    simp only [increasing, Bool.and_eq_true] at h
    exact h.2

/-- in an increasing acquisition order, whoever waits for the i-th semaphore holds only lower-ranked ones -/
theorem increasing_prefix_lt : ∀ (rs : List Nat), increasing rs = true → ∀ (i : Nat) (hi : i < rs.length), ∀ h ∈ rs.take i, h < rs[i]
  | [], _, i, hi, _, _ => by simp at hi
  | a :: r, hinc, 0, _, h, hh => by simp at hh
  | a :: r, hinc, i + 1, hi, h, hh => by
    simp only [List.take_succ_cons, List.mem_cons] at hh
    simp only [List.getElem_cons_succ]
    rcases hh with rfl | hh
    · exact increasing_head_lt _ r hinc _ (List.getElem_mem _)
    · exact increasing_prefix_lt r (increasing_tail a r hinc) i (by simpa using hi) h hh

/-- the actor that follows an acquisition order accepted by `orderOK` is disciplined at every point of it -/
theorem orderOK_disciplined (names : List String) (rs : List Nat) (hr : names.mapM lockRank = some rs) (hok : orderOK names = true)
    (i : Nat) (hi : i < rs.length) : (Waiter.mk (rs.take i) rs[i]).Disciplined := by
  unfold orderOK at hok
  rw [hr] at hok
  exact fun h hh => increasing_prefix_lt rs hok i hi h hh

end Model
