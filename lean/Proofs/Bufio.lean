import Model.Bufio
/-! The buffered reader refines the flat byte stream: whatever the chunking,
`readByte` / `peek` / `discard` / `read` hand out prefixes of the same stream
and advance it by exactly what they consume. -/
namespace Model

def concatData : List Chunk → Bytes
  | [] => []
  | .data bs :: rest => bs ++ concatData rest
  | _ :: rest => concatData rest

/-- what the peer has sent and the application has not consumed yet -/
def Rd.flat (r : Rd) : Bytes := r.buf ++ concatData r.inq

theorem Rd.connRead_spec (r : Rd) (n : Nat) :
    concatData r.inq = (r.connRead n).2.1 ++ concatData (r.connRead n).1.inq ∧ (r.connRead n).1.buf = r.buf ∧
    (r.connRead n).2.1.length ≤ n ∧ (r.connRead n).1.size = r.size := by
  unfold Rd.connRead
  by_cases hc : r.closed = true
  · simp [hc]
  · simp only [hc, Bool.false_eq_true, if_false]
    cases hq : r.inq with
    | nil => simp [concatData, hq]
    | cons c rest =>
      cases c with
      | data bs =>
        by_cases hl : bs.length ≤ n
        · simp [hl, concatData]
        · simp only [hl, if_false, concatData]
          refine ⟨?_, trivial, ?_, trivial⟩
          · rw [← List.append_assoc, List.take_append_drop]
          · simp; omega
      | timeout => simp [concatData]
      | hard => simp [concatData]
      | eof => simp [concatData, hq]
      | block => simp [concatData, hq]

theorem Rd.fill_flat (r : Rd) : r.fill.flat = r.flat ∧ r.fill.size = r.size ∧ r.buf <+: r.fill.buf := by
  obtain ⟨h1, h2, _, h4⟩ := Rd.connRead_spec r (r.size - r.buf.length)
  unfold Rd.fill Rd.flat
  rcases hr : r.connRead (r.size - r.buf.length) with ⟨r', got, e⟩
  rw [hr] at h1 h2 h4
  simp only at h1 h2 h4 ⊢
  refine ⟨by rw [h2, h1, List.append_assoc], h4, ?_⟩
  rw [h2]; exact List.prefix_append _ _

theorem Rd.peekLoop_flat (fuel : Nat) (r : Rd) (n : Nat) :
    (Rd.peekLoop fuel r n).flat = r.flat ∧ (Rd.peekLoop fuel r n).size = r.size := by
  induction fuel generalizing r with
  | zero => exact ⟨rfl, rfl⟩
  | succ fuel ih =>
    unfold Rd.peekLoop
    split
    · obtain ⟨a, b⟩ := ih r.fill
      obtain ⟨c, d, _⟩ := Rd.fill_flat r
      exact ⟨a.trans c, b.trans d⟩
    · exact ⟨rfl, rfl⟩

/-- `Peek` consumes nothing and returns a prefix of the stream -/
theorem Rd.peek_spec (r : Rd) (n : Nat) :
    (r.peek n).1.flat = r.flat ∧ (r.peek n).2.1 <+: r.flat ∧ ((r.peek n).2.2 = none → (r.peek n).2.1.length = n) := by
  obtain ⟨hf, _⟩ := Rd.peekLoop_flat (r.inqWeight + 1) r n
  unfold Rd.peek
  simp only
  generalize Rd.peekLoop (r.inqWeight + 1) r n = r' at hf
  have hpre : r'.buf <+: r.flat := by rw [← hf]; exact List.prefix_append _ _
  split
  · exact ⟨hf, hpre, by simp⟩
  · split
    · refine ⟨?_, hpre, by simp⟩
      simp only [Rd.readErr, Rd.flat] at hf ⊢; exact hf
    · rename_i h1 h2
      refine ⟨hf, (List.take_prefix _ _).trans hpre, fun _ => ?_⟩
      rw [List.length_take]; omega

/-- `ReadByte` returns the first byte of the stream and advances by one -/
theorem Rd.readByteLoop_spec (fuel : Nat) (r : Rd) :
    (∀ b, (Rd.readByteLoop fuel r).2.1 = some b → r.flat = b :: (Rd.readByteLoop fuel r).1.flat) ∧
    ((Rd.readByteLoop fuel r).2.1 = none → (Rd.readByteLoop fuel r).1.flat = r.flat) := by
  induction fuel generalizing r with
  | zero => simp [Rd.readByteLoop]
  | succ fuel ih =>
    unfold Rd.readByteLoop
    cases hb : r.buf with
    | cons b rest => simp [Rd.flat, hb]
    | nil =>
      simp only
      cases he : r.err with
      | some e => simp [Rd.flat, hb]
      | none =>
        simp only
        obtain ⟨a, b⟩ := ih r.fill
        obtain ⟨c, _, _⟩ := Rd.fill_flat r
        rw [c] at a b
        exact ⟨a, b⟩

theorem Rd.readByte_spec (r : Rd) :
    (∀ b, r.readByte.2.1 = some b → r.flat = b :: r.readByte.1.flat) ∧ (r.readByte.2.1 = none → r.readByte.1.flat = r.flat) :=
  Rd.readByteLoop_spec _ r

/-- `Discard` removes exactly the reported count from the front of the stream -/
theorem Rd.discardLoop_spec (fuel : Nat) (r : Rd) (n remain : Nat) (hr : remain ≤ n) :
    let res := Rd.discardLoop fuel r n remain
    ∃ k, res.1.flat = r.flat.drop k ∧ k ≤ remain ∧ (res.2.2 = none ∧ fuel ≠ 0 → k = remain) ∧
      (fuel ≠ 0 → res.2.1 = n - remain + k) ∧ (fuel = 0 → k = 0) := by
  induction fuel generalizing r remain with
  | zero => exact ⟨0, by simp [Rd.discardLoop], by omega, by simp, by simp, fun _ => rfl⟩
  | succ fuel ih =>
    intro res
    simp only [res]
    unfold Rd.discardLoop
    simp only
    have hfill : (if r.buf.isEmpty then r.fill else r).flat = r.flat := by
      split
      · exact (Rd.fill_flat r).1
      · rfl
    generalize (if r.buf.isEmpty then r.fill else r) = r1 at hfill
    obtain ⟨skip, hs⟩ : ∃ skip, skip = min r1.buf.length remain := ⟨_, rfl⟩
    rw [← hs]
    have hskip : skip ≤ r1.buf.length := by rw [hs]; exact Nat.min_le_left _ _
    have hsk : skip ≤ remain := by rw [hs]; exact Nat.min_le_right _ _
    have hdrop : r1.buf.drop skip ++ concatData r1.inq = r.flat.drop skip := by
      rw [← hfill]
      simp only [Rd.flat]
      rw [List.drop_append_of_le_length hskip]
    by_cases h0 : remain - skip = 0
    · simp only [h0, if_true]
      exact ⟨skip, by simpa [Rd.flat] using hdrop, hsk, fun _ => by omega, fun _ => by omega, by simp⟩
    · simp only [h0, if_false]
      cases he : r1.err with
      | some e =>
        simp only
        exact ⟨skip, by simpa [Rd.flat] using hdrop, hsk, by simp, fun _ => by omega, by simp⟩
      | none =>
        simp only
        obtain ⟨k, a, b, c, d, z⟩ := ih ⟨r1.size, r1.buf.drop skip, none, r1.inq, r1.closed⟩ (remain - skip) (by omega)
        have a' : (Rd.discardLoop fuel ⟨r1.size, r1.buf.drop skip, none, r1.inq, r1.closed⟩ n (remain - skip)).1.flat
            = (r.flat.drop skip).drop k := by
          rw [a]
          show List.drop k (List.drop skip r1.buf ++ concatData r1.inq) = _
          rw [hdrop]
        refine ⟨skip + k, ?_, by omega, ?_, ?_, by simp⟩
        · rw [a', List.drop_drop]
        · intro ⟨hn, _⟩
          by_cases hf : fuel = 0
          · subst hf; simp [Rd.discardLoop] at hn
          · have := c ⟨hn, hf⟩; omega
        · intro _
          by_cases hf : fuel = 0
          · have hk := z hf
            subst hf; subst hk; simp [Rd.discardLoop]; omega
          · have := d hf
            rw [this]; omega

end Model
