import Model.Session
/-! helper: what `S.connWrite` does on an open connection -/
namespace Model

theorem connWrite_open (s : S) (c : Conn) (f : WConn → WConn × WOut) (hc : s.conn = some c) (ho : c.rd.closed = false) :
    let r := f c.wconn
    let added := r.1.log.drop c.log.length
    (s.connWrite f).2 = r.2 ∧
    (s.connWrite f).1.conn = some { c with wpol := r.1.policy, log := r.1.log, rd := if r.2 == .closed then { c.rd with closed := true } else c.rd } ∧
    (s.connWrite f).1.evs = (if added.isEmpty then s.evs else Ev.w c.id added :: s.evs) := by
  intro r added
  unfold S.connWrite
  simp only [hc, ho, Bool.false_eq_true, if_false]
  by_cases hq : added.isEmpty = true
  · simp only [added, r] at hq; simp [hq, added, r]
  · simp only [added, r] at hq; simp [hq, S.emit, added, r]

end Model
