import Model.Sync
/-! Invariants of the synchronisation skeleton, for every interleaving and any number of actors. -/
namespace Model.Sync

theorem setPc_same (f : Nat → Pc) (a : Nat) (v : Pc) : setPc f a v a = v := by simp [setPc]
theorem setPc_other (f : Nat → Pc) {a b : Nat} (v : Pc) (h : b ≠ a) : setPc f a v b = f b := by simp [setPc, h]

structure Inv (c : Cfg) : Prop where
  /-- the write lock is taken exactly when a writer is inside its transfer or the reader resends -/
  lock : c.wsem = .empty ↔ ((∃ a, c.pc a = .wHold) ∨ c.rpc = .resend)
  /-- at most one writer is inside a transfer -/
  excl : ∀ a b, c.pc a = .wHold → c.pc b = .wHold → a = b
  /-- never a writer and the resending reader together -/
  exclR : c.rpc = .resend → ∀ a, c.pc a ≠ .wHold
  /-- connection control is taken exactly when a closer or the connecting reader holds it -/
  ctl : c.csem = .taken ↔ ((∃ a, c.pc a = .cHold ∨ c.pc a = .cWait) ∨ c.rpc = .dial)
  ctlExcl : ∀ a b, (c.pc a = .cHold ∨ c.pc a = .cWait) → (c.pc b = .cHold ∨ c.pc b = .cWait) → a = b
  ctlExclR : c.rpc = .dial → ∀ a, c.pc a ≠ .cHold ∧ c.pc a ≠ .cWait
  /-- Online and Offline are never both released -/
  sig : ¬ (c.online = true ∧ c.offline = true)
  /-- closed for good: after the semaphores are closed the client is offline, permanently -/
  closedC : c.csem = .closed → c.wsem = .closed ∧ c.offline = true ∧ c.online = false
  closedW : c.wsem = .closed → c.csem = .closed
  /-- a connection found in the write semaphore was signalled Online -/
  live : c.wsem = .live → c.online = true
  holdOnline : (∃ a, c.pc a = .wHold) → c.online = true
  /-- the read routine never reads while a connect attempt is marked failed -/
  readNotDown : c.rpc = .read → c.wsem ≠ .down
  dialMarker : c.rpc = .dial → (c.wsem = .pending ∨ c.wsem = .down)
  idleMarker : c.rpc = .idle → (c.wsem = .pending ∨ c.wsem = .down ∨ c.wsem = .closed)

theorem inv_init : Inv {} := by
  refine ⟨?_, ?_, ?_, ?_, ?_, ?_, ?_, ?_, ?_, ?_, ?_, ?_, ?_, ?_⟩ <;> simp

/-- facts about `setPc` for the acting actor and for everybody else -/
theorem pc_cases (f : Nat → Pc) (a b : Nat) (v : Pc) : (b = a ∧ setPc f a v b = v) ∨ (b ≠ a ∧ setPc f a v b = f b) := by
  by_cases h : b = a
  · exact Or.inl ⟨h, by rw [h, setPc_same]⟩
  · exact Or.inr ⟨h, setPc_other f v h⟩

/-- every step of every actor preserves the invariant -/
theorem step_inv {c c' : Cfg} (h : Inv c) (hs : Step c c') : Inv c' := by
  obtain ⟨lock, excl, exclR, ctl, ctlExcl, ctlExclR, sig, closedC, closedW, live, holdOnline, readNotDown, dialMarker, idleMarker⟩ := h
  cases hs <;>
    (refine ⟨?_, ?_, ?_, ?_, ?_, ?_, ?_, ?_, ?_, ?_, ?_, ?_, ?_, ?_⟩ <;> (try simp only [setPc]) <;> grind)

/-- the invariant holds in every reachable configuration: every interleaving, any number of writers and closers -/
theorem reachable_inv {c : Cfg} (h : Reachable c) : Inv c := by
  induction h with
  | init => exact inv_init
  | step _ hs ih => exact step_inv ih hs

end Model.Sync
