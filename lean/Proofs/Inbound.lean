import Model.Session
/-! Lemmas about the inbound handlers of the session model. -/
namespace Model

theorem S.load_frame (s : S) (k : Nat) :
    (s.load k).1.conn = s.conn ∧ (s.load k).1.evs = s.evs ∧ (s.load k).1.pendingAck = s.pendingAck ∧
    (s.load k).1.core = s.core ∧ (s.load k).1.peek = s.peek := by
  unfold S.load
  split
  · simp
  · split <;> simp

theorem S.enqueueAck_frame (s : S) (ack : Bytes) (r : PubResult) :
    (s.enqueueAck ack r).1.conn = s.conn ∧ (s.enqueueAck ack r).1.evs = s.evs ∧ (s.enqueueAck ack r).1.core = s.core := by
  unfold S.enqueueAck
  split <;> simp

/-- `onPUBLISH` only enqueues: it writes nothing, saves nothing, deletes nothing. -/
theorem S.onPUBLISH_silent (s : S) (head : UInt8) :
    (s.onPUBLISH head).1.conn = s.conn ∧ (s.onPUBLISH head).1.evs = s.evs ∧ (s.onPUBLISH head).1.core = s.core := by
  unfold S.onPUBLISH
  split
  · exact ⟨rfl, rfl, rfl⟩
  · exact ⟨rfl, rfl, rfl⟩
  · exact S.enqueueAck_frame s _ _
  · rename_i id payload topic _
    obtain ⟨l1, l2, _, l4, _⟩ := S.load_frame s (remoteKey id)
    split
    · rename_i s' e hl
      rw [hl] at l1 l2 l4
      exact ⟨l1, l2, l4⟩
    · rename_i s' v hl
      rw [hl] at l1 l2 l4
      obtain ⟨e1, e2, e3⟩ := S.enqueueAck_frame s' (ackPacket Facts.typePUBREC 0 id) .dupe
      exact ⟨e1.trans l1, e2.trans l2, e3.trans l4⟩
    · rename_i s' hl
      rw [hl] at l1 l2 l4
      obtain ⟨e1, e2, e3⟩ := S.enqueueAck_frame s' (ackPacket Facts.typePUBREC 0 id) (.msg payload topic)
      exact ⟨e1.trans l1, e2.trans l2, e3.trans l4⟩

/-- which acknowledgement is owed after `onPUBLISH` returned a message -/
theorem S.onPUBLISH_owes (s : S) (head : UInt8) (payload topic : Bytes)
    (h : (s.onPUBLISH head).2 = .msg payload topic) :
    (∃ p t, parsePublish head s.peek = .atMostOnce p t ∧ (s.onPUBLISH head).1.pendingAck = s.pendingAck) ∨
    (∃ id p t, parsePublish head s.peek = .atLeastOnce id p t ∧ s.pendingAck = [] ∧
      (s.onPUBLISH head).1.pendingAck = ackPacket Facts.typePUBACK 0 id) ∨
    (∃ id p t, parsePublish head s.peek = .exactlyOnce id p t ∧ s.pendingAck = [] ∧
      (s.onPUBLISH head).1.pendingAck = ackPacket Facts.typePUBREC 0 id ∧ s.core.load (remoteKey id) = .ok none ∧ s.fLoad = false) := by
  unfold S.onPUBLISH at h ⊢
  cases hp : parsePublish head s.peek with
  | violation => simp [hp] at h
  | atMostOnce p t => exact Or.inl ⟨p, t, rfl, by simp⟩
  | atLeastOnce id p t =>
    simp only [hp, S.enqueueAck] at h ⊢
    by_cases he : s.pendingAck.isEmpty = true
    · have : s.pendingAck = [] := by cases hq : s.pendingAck <;> simp_all
      exact Or.inr (Or.inl ⟨id, p, t, rfl, this, by simp [he]⟩)
    · simp [he] at h
  | exactlyOnce id p t =>
    simp only [hp] at h ⊢
    obtain ⟨_, _, l3, _, _⟩ := S.load_frame s (remoteKey id)
    unfold S.load at h l3 ⊢
    by_cases hf : s.fLoad = true
    · simp [hf] at h
    · simp only [hf, Bool.false_eq_true, if_false] at h l3 ⊢
      cases hl : s.core.load (remoteKey id) with
      | error e => simp [hl] at h
      | ok v =>
        simp only [hl] at h l3 ⊢
        cases v with
        | some x =>
          simp only [S.enqueueAck] at h
          split at h <;> simp at h
        | none =>
          simp only [S.enqueueAck] at h ⊢
          by_cases he : s.pendingAck.isEmpty = true
          · have : s.pendingAck = [] := by cases hq : s.pendingAck <;> simp_all
            exact Or.inr (Or.inr ⟨id, p, t, rfl, this, by simp [he], hl, by simpa using hf⟩)
          · simp [he] at h

/-- a suppressed duplicate: the marker is there, and the PUBREC is owed again -/
theorem S.onPUBLISH_dupe (s : S) (head : UInt8) (h : (s.onPUBLISH head).2 = .dupe) :
    ∃ id p t v, parsePublish head s.peek = .exactlyOnce id p t ∧ s.core.load (remoteKey id) = .ok (some v) ∧
      (s.onPUBLISH head).1.pendingAck = ackPacket Facts.typePUBREC 0 id := by
  unfold S.onPUBLISH at h ⊢
  cases hp : parsePublish head s.peek with
  | violation => simp [hp] at h
  | atMostOnce p t => simp [hp] at h
  | atLeastOnce id p t =>
    simp only [hp, S.enqueueAck] at h
    split at h <;> simp at h
  | exactlyOnce id p t =>
    simp only [hp] at h ⊢
    unfold S.load at h ⊢
    by_cases hf : s.fLoad = true
    · simp [hf] at h
    · simp only [hf, Bool.false_eq_true, if_false] at h ⊢
      cases hl : s.core.load (remoteKey id) with
      | error e => simp [hl] at h
      | ok v =>
        simp only [hl] at h ⊢
        cases v with
        | none =>
          simp only [S.enqueueAck] at h
          split at h <;> simp at h
        | some x =>
          simp only [S.enqueueAck] at h ⊢
          by_cases he : s.pendingAck.isEmpty = true
          · exact ⟨id, p, t, x, rfl, hl, by simp [he]⟩
          · simp [he] at h

theorem S.delete_ok (s : S) (k : Nat) (h : (s.delete k).2 = none) :
    (s.delete k).1.core.store = s.core.store.erase k ∧ (s.delete k).1.pendingAck = s.pendingAck ∧ s.fDel = false := by
  unfold S.delete Core.delete at h ⊢
  cases hf : s.fDel <;> simp_all [S.emit]

end Model
