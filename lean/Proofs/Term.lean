import Model.Session
/-! Lemmas on `termCallbacks` and the events sent to exchange channels (used by Props/C12). -/
namespace Model

def Ev.isExch : Ev → Bool
  | .exch .. => true
  | _ => false

theorem answer_exch (s : S) (tag : String) (e : Err) : (s.answer tag e).evs.filter Ev.isExch = s.evs.filter Ev.isExch := by
  unfold S.answer
  split <;> simp [S.emit, Ev.isExch]

theorem breakAll_exch (s : S) : s.breakAll.evs.filter Ev.isExch = s.evs.filter Ev.isExch := by
  unfold S.breakAll
  have key : ∀ (l : List Tx) (s0 : S), (l.foldl (fun s t => s.answer t.tag (mkErr ["break"])) s0).evs.filter Ev.isExch = s0.evs.filter Ev.isExch := by
    intro l
    induction l with
    | nil => intro s0; rfl
    | cons x r ih => intro s0; simp only [List.foldl_cons]; rw [ih, answer_exch]
  exact key _ _

theorem releasePing_exch (s : S) (e : Err) : (s.releasePing e).evs.filter Ev.isExch = s.evs.filter Ev.isExch := by
  unfold S.releasePing
  split
  · rw [answer_exch]
  · rfl

/-- the queue flush of `termCallbacks`: every queued exchange that is not a placeholder gets ErrClosed exactly once, in queue order -/
theorem flushQueue_spec (ph : List Nat) :
    ∀ (q : List Nat) (s0 : S), s0.placeholders = ph →
      (s0.flushQueue q).placeholders = ph ∧ (s0.flushQueue q).core = s0.core ∧
      (s0.flushQueue q).evs.filter Ev.isExch =
        ((q.filter (fun ex => !ph.contains ex)).map (fun ex => Ev.exch ex (mkErr ["closed"]))).reverse ++ s0.evs.filter Ev.isExch := by
  intro q
  induction q with
  | nil => intro s0 h; exact ⟨h, rfl, by simp [S.flushQueue]⟩
  | cons x r ih =>
    intro s0 h
    simp only [S.flushQueue, List.foldl_cons]
    by_cases hx : s0.placeholders.contains x = true
    · simp only [hx, if_true]
      obtain ⟨h1, hc, h2⟩ := ih s0 h
      simp only [S.flushQueue] at h1 hc h2
      refine ⟨h1, hc, ?_⟩
      rw [h2]; rw [h] at hx
      have hx' : x ∈ ph := by simpa using hx
      simp [List.filter_cons, hx']
    · simp only [hx, Bool.false_eq_true, if_false]
      obtain ⟨h1, hc, h2⟩ := ih (s0.emit (.exch x (mkErr ["closed"]))) (by simpa [S.emit] using h)
      simp only [S.flushQueue] at h1 hc h2
      refine ⟨h1, by rw [hc]; simp [S.emit], ?_⟩
      rw [h2]; rw [h] at hx
      have hx' : x ∉ ph := by simpa using hx
      simp [List.filter_cons, hx', S.emit, Ev.isExch]

theorem answer_core (s : S) (tag : String) (e : Err) : (s.answer tag e).core = s.core ∧ (s.answer tag e).placeholders = s.placeholders := by
  unfold S.answer; split <;> simp [S.emit]

theorem breakAll_core (s : S) : s.breakAll.core = s.core ∧ s.breakAll.placeholders = s.placeholders := by
  unfold S.breakAll
  have key : ∀ (l : List Tx) (s0 : S), (l.foldl (fun s t => s.answer t.tag (mkErr ["break"])) s0).core = s0.core ∧
      (l.foldl (fun s t => s.answer t.tag (mkErr ["break"])) s0).placeholders = s0.placeholders := by
    intro l
    induction l with
    | nil => intro s0; exact ⟨rfl, rfl⟩
    | cons x r ih =>
      intro s0; simp only [List.foldl_cons]
      obtain ⟨a, b⟩ := ih (s0.answer x.tag (mkErr ["break"]))
      obtain ⟨c, d⟩ := answer_core s0 x.tag (mkErr ["break"])
      exact ⟨a.trans c, b.trans d⟩
  exact key _ _

theorem releasePing_core (s : S) (e : Err) : (s.releasePing e).core = s.core := by
  unfold S.releasePing
  split
  · exact (answer_core _ _ _).1
  · rfl

def closedEvs (ph q : List Nat) : List Ev := ((q.filter (fun ex => !ph.contains ex)).map (fun ex => Ev.exch ex (mkErr ["closed"]))).reverse

end Model
