import Proofs.CoreStore
/-! Liveness as a terminating function: whenever the environment grants the
in-order final acknowledgements, everything pending completes. -/
namespace Model

theorem key1_div (n : Nat) : key1 n / idMod * idMod = Facts.atLeastOnceIDSpace := by
  have h1 : Facts.atLeastOnceIDSpace = 2 * idMod := rfl
  have h2 : idMod = 16384 := rfl
  unfold key1 publishKey
  rw [h1, h2]
  omega

theorem key2_div (n : Nat) : key2 n / idMod * idMod = Facts.exactlyOnceIDSpace := by
  have h1 : Facts.exactlyOnceIDSpace = 3 * idMod := rfl
  have h2 : idMod = 16384 := rfl
  unfold key2 publishKey
  rw [h1, h2]
  omega

/-- the in-order PUBACK is always accepted while something is pending -/
theorem Core.pubackCheck_next (c : Core) (h : c.Inv) (hcl : c.l1.seqClosed = false) (hp : c.acked < c.l1.acceptN) :
    c.pubackCheck (key1 c.acked) = .ok := by
  have hw := h.l1.window hcl
  have hne : c.l1.queue.isEmpty = false := by cases hq : c.l1.queue <;> simp_all <;> omega
  have h0 := (key1_lt c.acked).1
  unfold Core.pubackCheck
  have e1 : (key1 c.acked == 0) = false := by simp; omega
  have e2 : (key1 c.acked / idMod * idMod != Facts.atLeastOnceIDSpace) = false := by simp [key1_div]
  have e3 : (publishKey Facts.atLeastOnceIDSpace c.acked != key1 c.acked) = false := by simp [key1]
  simp [e1, e2, e3, hne]

theorem Core.pubcompCheck_next (c : Core) (h : c.Inv) (hcl : c.l2.seqClosed = false) (hp : c.completed < c.received) :
    c.pubcompCheck (key2 c.completed) = .ok := by
  have hw := h.l2.window hcl
  have hr := h.rec_hi
  have hne : c.l2.queue.isEmpty = false := by cases hq : c.l2.queue <;> simp_all <;> omega
  have h0 := (key2_lt c.completed).1
  unfold Core.pubcompCheck
  have e1 : (key2 c.completed == 0) = false := by simp; omega
  have e2 : (key2 c.completed / idMod * idMod != Facts.exactlyOnceIDSpace) = false := by simp [key2_div]
  have e3 : (key2 c.completed != publishKey Facts.exactlyOnceIDSpace c.completed) = false := by simp [key2]
  have e4 : decide (c.completed ≥ c.received) = false := by simp; omega
  simp [e1, e2, e3, e4, hne]

theorem Core.pubrecCheck_next (c : Core) (h : c.Inv) (hcl : c.l2.seqClosed = false) (hp : c.received < c.l2.acceptN) :
    c.pubrecCheck (key2 c.received) = .ok := by
  have hw := h.l2.window hcl
  have hr := h.rec_lo
  have h0 := (key2_lt c.received).1
  unfold Core.pubrecCheck
  have e1 : (key2 c.received == 0) = false := by simp; omega
  have e2 : (key2 c.received / idMod * idMod != Facts.exactlyOnceIDSpace) = false := by simp [key2_div]
  have e3 : (key2 c.received != publishKey Facts.exactlyOnceIDSpace c.received) = false := by simp [key2]
  have e4 : ¬ (c.received - c.completed ≥ c.l2.queue.length) := by omega
  simp [e1, e2, e3, e4]

def iter (f : α → α) : Nat → α → α
  | 0, a => a
  | n + 1, a => iter f n (f a)
theorem iter_zero (f : α → α) (a : α) : iter f 0 a = a := rfl
theorem iter_succ (f : α → α) (n : Nat) (a : α) : iter f (n + 1) a = iter f n (f a) := rfl

/-- the conforming broker's next final acknowledgement at level 1, no fault -/
def Core.ackNext (c : Core) : Core := c.step (.puback (key1 c.acked) false)
def Core.recNext (c : Core) : Core := c.step (.pubrec (key2 c.received) false)
def Core.compNext (c : Core) : Core := c.step (.pubcomp (key2 c.completed) false)

/-- the conforming broker's acknowledgements for everything pending, in order -/
def Core.drain1 (k : Nat) (c : Core) : Core := iter Core.ackNext k c
def Core.drainRec (k : Nat) (c : Core) : Core := iter Core.recNext k c
def Core.drainComp (k : Nat) (c : Core) : Core := iter Core.compNext k c

theorem Core.puback_ok_effect (c : Core) (id : Nat) :
    (c.puback id false).1.acked = c.acked + 1 ∧ (c.puback id false).1.l1.acceptN = c.l1.acceptN ∧
    (c.puback id false).1.l1.seqClosed = c.l1.seqClosed ∧ (c.puback id false).1.store = c.store.erase id ∧
    (c.puback id false).1.l2 = c.l2 ∧ (c.puback id false).1.received = c.received ∧
    (c.puback id false).1.completed = c.completed := by
  unfold Core.puback Core.delete
  simp

theorem Core.step_puback_ok (c : Core) (id : Nat) (hck : c.pubackCheck id = .ok) :
    c.step (.puback id false) = (c.puback id false).1 := by
  simp only [Core.step, hck]

theorem Core.step_puback_next (c : Core) (h : c.Inv) (hcl : c.l1.seqClosed = false) (hp : c.acked < c.l1.acceptN) :
    c.step (.puback (key1 c.acked) false) = (c.puback (key1 c.acked) false).1 :=
  Core.step_puback_ok c _ (Core.pubackCheck_next c h hcl hp)

/-- after the in-order PUBACKs for everything pending, nothing is pending at level 1 -/
theorem Core.drain1_spec (k : Nat) (c : Core) (h : c.Inv) (hcl : c.l1.seqClosed = false)
    (hk : c.acked + k = c.l1.acceptN) :
    (Core.drain1 k c).acked = c.l1.acceptN ∧ (Core.drain1 k c).l1.acceptN = c.l1.acceptN ∧ (Core.drain1 k c).Inv := by
  unfold Core.drain1
  induction k generalizing c with
  | zero => rw [iter_zero]; exact ⟨by omega, rfl, h⟩
  | succ k ih =>
    have hs : c.ackNext = (c.puback (key1 c.acked) false).1 := Core.step_puback_next c h hcl (by omega)
    obtain ⟨e1, e2, e3, _⟩ := Core.puback_ok_effect c (key1 c.acked)
    have hi' : c.ackNext.Inv := Core.step_inv c h (.puback (key1 c.acked) false)
    rw [iter_succ]
    rw [hs] at hi' ⊢
    have := ih _ hi' (by rw [e3]; exact hcl) (by rw [e1, e2]; omega)
    rw [e2] at this
    exact this

theorem Core.pubrec_ok_effect (c : Core) (id : Nat) (rel : Bytes) :
    (c.pubrec id rel false).1.received = c.received + 1 ∧ (c.pubrec id rel false).1.l2 = c.l2 ∧
    (c.pubrec id rel false).1.completed = c.completed ∧ (c.pubrec id rel false).1.acked = c.acked ∧
    (c.pubrec id rel false).1.l1 = c.l1 := by
  unfold Core.pubrec Core.save
  simp

theorem Core.pubcomp_ok_effect (c : Core) (id : Nat) :
    (c.pubcomp id false).1.completed = c.completed + 1 ∧ (c.pubcomp id false).1.l2.acceptN = c.l2.acceptN ∧
    (c.pubcomp id false).1.l2.seqClosed = c.l2.seqClosed ∧ (c.pubcomp id false).1.received = c.received ∧
    (c.pubcomp id false).1.acked = c.acked ∧ (c.pubcomp id false).1.l1 = c.l1 := by
  unfold Core.pubcomp Core.delete
  simp

theorem Core.step_pubrec_ok (c : Core) (id : Nat) (hck : c.pubrecCheck id = .ok) :
    c.step (.pubrec id false) = (c.pubrec id (relPacket id) false).1 := by
  simp only [Core.step, hck, relPacket]

theorem Core.step_pubcomp_ok (c : Core) (id : Nat) (hck : c.pubcompCheck id = .ok) :
    c.step (.pubcomp id false) = (c.pubcomp id false).1 := by
  simp only [Core.step, hck]

/-- after the in-order PUBRECs for everything not yet received, every exactly-once transfer is at the PUBREL stage -/
theorem Core.drainRec_spec (k : Nat) (c : Core) (h : c.Inv) (hcl : c.l2.seqClosed = false)
    (hk : c.received + k = c.l2.acceptN) :
    (Core.drainRec k c).received = c.l2.acceptN ∧ (Core.drainRec k c).l2 = c.l2 ∧
    (Core.drainRec k c).completed = c.completed ∧ (Core.drainRec k c).Inv := by
  unfold Core.drainRec
  induction k generalizing c with
  | zero => rw [iter_zero]; exact ⟨by omega, rfl, rfl, h⟩
  | succ k ih =>
    have hs : c.recNext = (c.pubrec (key2 c.received) (relPacket (key2 c.received)) false).1 :=
      Core.step_pubrec_ok c _ (Core.pubrecCheck_next c h hcl (by omega))
    obtain ⟨e1, e2, e3, _⟩ := Core.pubrec_ok_effect c (key2 c.received) (relPacket (key2 c.received))
    have hi' : c.recNext.Inv := Core.step_inv c h (.pubrec (key2 c.received) false)
    rw [iter_succ]
    rw [hs] at hi' ⊢
    have := ih _ hi' (by rw [e2]; exact hcl) (by rw [e1, e2]; omega)
    rw [e2, e3] at this
    exact this

/-- after the in-order PUBCOMPs nothing is pending at level 2 -/
theorem Core.drainComp_spec (k : Nat) (c : Core) (h : c.Inv) (hcl : c.l2.seqClosed = false)
    (hk : c.completed + k = c.received) :
    (Core.drainComp k c).completed = c.received ∧ (Core.drainComp k c).received = c.received ∧
    (Core.drainComp k c).l2.acceptN = c.l2.acceptN ∧ (Core.drainComp k c).Inv := by
  unfold Core.drainComp
  induction k generalizing c with
  | zero => rw [iter_zero]; exact ⟨by omega, rfl, rfl, h⟩
  | succ k ih =>
    have hs : c.compNext = (c.pubcomp (key2 c.completed) false).1 :=
      Core.step_pubcomp_ok c _ (Core.pubcompCheck_next c h hcl (by omega))
    obtain ⟨e1, e2, e3, e4, _⟩ := Core.pubcomp_ok_effect c (key2 c.completed)
    have hi' : c.compNext.Inv := Core.step_inv c h (.pubcomp (key2 c.completed) false)
    rw [iter_succ]
    rw [hs] at hi' ⊢
    have := ih _ hi' (by rw [e3]; exact hcl) (by rw [e1, e4]; omega)
    rw [e2, e4] at this
    exact this

/-- PUBACK handling never touches the exactly-once side -/
theorem Core.step_puback_frame2 (c : Core) (id : Nat) (f : Bool) :
    (c.step (.puback id f)).l2 = c.l2 ∧ (c.step (.puback id f)).received = c.received ∧
    (c.step (.puback id f)).completed = c.completed := by
  simp only [Core.step]
  split
  · unfold Core.puback Core.delete
    cases f <;> simp
  · exact ⟨rfl, rfl, rfl⟩

theorem Core.drain1_frame2 (k : Nat) (c : Core) :
    (Core.drain1 k c).l2 = c.l2 ∧ (Core.drain1 k c).received = c.received ∧ (Core.drain1 k c).completed = c.completed := by
  unfold Core.drain1
  induction k generalizing c with
  | zero => rw [iter_zero]; exact ⟨rfl, rfl, rfl⟩
  | succ k ih =>
    rw [iter_succ]
    obtain ⟨i1, i2, i3⟩ := ih c.ackNext
    obtain ⟨j1, j2, j3⟩ : c.ackNext.l2 = c.l2 ∧ c.ackNext.received = c.received ∧ c.ackNext.completed = c.completed :=
      Core.step_puback_frame2 c _ false
    exact ⟨i1.trans j1, i2.trans j2, i3.trans j3⟩

end Model
