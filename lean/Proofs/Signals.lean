import Model.Session
/-! helpers: which functions leave the Online signal and the write semaphore's state alone -/
namespace Model

theorem foldl_pres {α β γ : Type} (g : β → γ) (f : β → α → β) (h : ∀ b a, g (f b a) = g b) (l : List α) (b : β) :
    g (l.foldl f b) = g b := by
  induction l generalizing b with
  | nil => rfl
  | cons a l ih => simp only [List.foldl]; rw [ih, h]

theorem failWaiters_sig (s : S) (e : Err) : (s.failWaiters e).online = s.online ∧ (s.failWaiters e).link = s.link := by
  unfold S.failWaiters
  constructor
  · show (S.online ∘ id) _ = _
    simp only [Function.comp, id]
    exact foldl_pres S.online _ (by
      intro b a; rcases a with ⟨tag, k⟩
      cases k <;> simp [S.emit, S.endTx, S.dropEarly, S.dropPing]) _ _
  · simp only
    exact foldl_pres S.link _ (by
      intro b a; rcases a with ⟨tag, k⟩
      cases k <;> simp [S.emit, S.endTx, S.dropEarly, S.dropPing]) _ _

theorem finishClosers_sig (s : S) : s.finishClosers.online = s.online ∧ s.finishClosers.link = s.link := by
  unfold S.finishClosers
  constructor
  · simp only
    exact foldl_pres S.online _ (by intro b a; rcases a with ⟨t, d⟩; simp [S.emit]) _ _
  · simp only
    exact foldl_pres S.link _ (by intro b a; rcases a with ⟨t, d⟩; simp [S.emit]) _ _

theorem answer_online (s : S) (tag : String) (e : Err) : (s.answer tag e).online = s.online := by
  unfold S.answer; split <;> simp [S.emit]

theorem breakAll_online (s : S) : s.breakAll.online = s.online := by
  unfold S.breakAll
  simp only
  exact foldl_pres S.online _ (fun b (a : Tx) => answer_online b a.tag _) _ _

theorem releasePing_online (s : S) (e : Err) : (s.releasePing e).online = s.online := by
  unfold S.releasePing
  split
  · exact answer_online _ _ _
  · rfl

theorem closeNow_closed (s : S) : s.closeNow.connSemClosed = true := by
  unfold S.closeNow
  simp only
  have h1 : ∀ (t : S) (e : Err), (t.failWaiters e).connSemClosed = t.connSemClosed := by
    intro t e
    unfold S.failWaiters
    simp only
    exact foldl_pres S.connSemClosed _ (by
      intro b a; rcases a with ⟨tag, k⟩
      cases k <;> simp [S.emit, S.endTx, S.dropEarly, S.dropPing]) _ _
  have h2 : ∀ (t : S), t.finishClosers.connSemClosed = t.connSemClosed := by
    intro t
    unfold S.finishClosers
    simp only
    exact foldl_pres S.connSemClosed _ (by intro b a; rcases a with ⟨t, d⟩; simp [S.emit]) _ _
  rw [h2, h1]

theorem answer_ping (s : S) (tag : String) (e : Err) : (s.answer tag e).ping = s.ping := by
  unfold S.answer; split <;> simp [S.emit]

theorem breakAll_ping (s : S) : s.breakAll.ping = s.ping := by
  unfold S.breakAll
  simp only
  exact foldl_pres S.ping _ (fun b (a : Tx) => answer_ping b a.tag _) _ _

theorem releasePing_none (s : S) (e : Err) : (s.releasePing e).ping = none := by
  unfold S.releasePing
  split
  · rw [answer_ping]
  · assumption

end Model
