import Model.Session
/-! helpers: which functions leave the Online signal and the write semaphore's state alone -/
namespace Model

theorem foldl_pres {α β γ : Type} (g : β → γ) (f : β → α → β) (h : ∀ b a, g (f b a) = g b) (l : List α) (b : β) :
    g (l.foldl f b) = g b := by
  induction l generalizing b with
  | nil => rfl
  | cons a l ih => simp only [List.foldl]; rw [ih, h]

theorem failWaiters_sig (s : S) (e : Err) : (s.failWaiters e).online = s.online ∧ (s.failWaiters e).link = s.link := by
  unfold S.failWaiters
  constructor
  · show (S.online ∘ id) _ = _
    simp only [Function.comp, id]
    exact foldl_pres S.online _ (by
      intro b a; rcases a with ⟨tag, k⟩
      cases k <;> simp [S.emit, S.endTx, S.dropEarly, S.dropPing]) _ _
  · simp only
    exact foldl_pres S.link _ (by
      intro b a; rcases a with ⟨tag, k⟩
      cases k <;> simp [S.emit, S.endTx, S.dropEarly, S.dropPing]) _ _

theorem finishClosers_sig (s : S) : s.finishClosers.online = s.online ∧ s.finishClosers.link = s.link := by
  unfold S.finishClosers
  constructor
  · simp only
    exact foldl_pres S.online _ (by intro b a; rcases a with ⟨t, d⟩; simp [S.emit]) _ _
  · simp only
    exact foldl_pres S.link _ (by intro b a; rcases a with ⟨t, d⟩; simp [S.emit]) _ _

theorem answer_online (s : S) (tag : String) (e : Err) : (s.answer tag e).online = s.online := by
  unfold S.answer; split <;> simp [S.emit]

theorem breakAll_online (s : S) : s.breakAll.online = s.online := by
  unfold S.breakAll
  simp only
  exact foldl_pres S.online _ (fun b (a : Tx) => answer_online b a.tag _) _ _

theorem releasePing_online (s : S) (e : Err) : (s.releasePing e).online = s.online := by
  unfold S.releasePing
  split
  · exact answer_online _ _ _
  · rfl

end Model
