import Model.Session
/-! helpers: what `toOffline` and `ReadAll` leave behind -/
namespace Model

theorem answer_rd (s : S) (tag : String) (e : Err) :
    (s.answer tag e).readConn = s.readConn ∧ (s.answer tag e).big = s.big ∧ (s.answer tag e).link = s.link := by
  unfold S.answer; split <;> simp [S.emit]

theorem foldl_answer_rd (ts : List Tx) (s : S) (e : Err) :
    (ts.foldl (fun s t => s.answer t.tag e) s).readConn = s.readConn ∧ (ts.foldl (fun s t => s.answer t.tag e) s).big = s.big ∧
    (ts.foldl (fun s t => s.answer t.tag e) s).link = s.link := by
  induction ts generalizing s with
  | nil => simp
  | cons t ts ih =>
    simp only [List.foldl]
    obtain ⟨a, b, c⟩ := ih (s.answer t.tag e)
    obtain ⟨a', b', c'⟩ := answer_rd s t.tag e
    exact ⟨a.trans a', b.trans b', c.trans c'⟩

theorem breakAll_rd (s : S) : s.breakAll.readConn = s.readConn ∧ s.breakAll.big = s.big ∧ s.breakAll.link = s.link := by
  unfold S.breakAll
  exact foldl_answer_rd s.txs s _

theorem releasePing_rd (s : S) (e : Err) :
    (s.releasePing e).readConn = s.readConn ∧ (s.releasePing e).big = s.big ∧ (s.releasePing e).link = s.link := by
  unfold S.releasePing
  split
  · exact answer_rd _ _ _
  · exact ⟨rfl, rfl, rfl⟩

def interruptHolder (s : S) : S :=
  match s.held with
  | some (wtag, k) => ((({ s with held := none }).openGateClosed).runWriter wtag k).afterHolder
  | none => s

def offTail (s1 : S) : S :=
  (({ s1 with link := .pending, readConn := false, big := none, peek := [], online := false } : S).releasePing (mkErr ["break"])).breakAll

theorem toOffline_eq (s : S) : s.toOffline =
    if s.link == .closed then { s with readConn := false, big := none, peek := [] } else offTail (interruptHolder s.closeConn) := rfl

theorem offTail_rd (s1 : S) : (offTail s1).readConn = false ∧ (offTail s1).big = none ∧ (offTail s1).link = .pending := by
  unfold offTail
  obtain ⟨a, b, c⟩ := breakAll_rd (({ s1 with link := .pending, readConn := false, big := none, peek := [], online := false } : S).releasePing (mkErr ["break"]))
  obtain ⟨a', b', c'⟩ := releasePing_rd ({ s1 with link := .pending, readConn := false, big := none, peek := [], online := false } : S) (mkErr ["break"])
  exact ⟨a.trans a', b.trans b', c.trans c'⟩

theorem readAllLoop_failed_error (fuel : Nat) (rd : Rd) (size : Nat) (acc : Bytes) :
    (readAllLoop fuel rd size acc).2.2 = true → ∃ e, (readAllLoop fuel rd size acc).2.1 = .error e := by
  induction fuel generalizing rd acc with
  | zero => simp [readAllLoop]
  | succ n ih =>
    unfold readAllLoop
    split
    · simp
    · rcases hr : rd.readFull (size - acc.length) with ⟨rd', bs, oe⟩
      cases oe with
      | none => simp
      | some e =>
        simp only
        split
        · exact ih _ _
        · intro _; exact ⟨_, rfl⟩

end Model
