import Model.Record
/-! Helper lemmas for C15. -/
namespace Model

theorem fnvPrime_inv : fnvPrime * 899433627#32 = 1#32 := by decide

theorem mul_prime_cancel {a b : BitVec 32} (h : a * fnvPrime = b * fnvPrime) : a = b := by
  have := congrArg (· * 899433627#32) h
  simp only [BitVec.mul_assoc, fnvPrime_inv, BitVec.mul_one] at this
  exact this

theorem xor_cancel_left {h a b : BitVec 32} (e : h ^^^ a = h ^^^ b) : a = b := by
  have := congrArg (h ^^^ ·) e
  simp only [← BitVec.xor_assoc, BitVec.xor_self, BitVec.zero_xor] at this
  exact this

theorem xor_cancel_right {h g a : BitVec 32} (e : h ^^^ a = g ^^^ a) : h = g := by
  have := congrArg (· ^^^ a) e
  simp only [BitVec.xor_assoc, BitVec.xor_self, BitVec.xor_zero] at this
  exact this

theorem byte_ofNat_inj {x y : UInt8} (e : BitVec.ofNat 32 x.toNat = BitVec.ofNat 32 y.toNat) : x = y := by
  have := congrArg BitVec.toNat e
  simp only [BitVec.toNat_ofNat] at this
  have hx := x.toNat_lt
  have hy := y.toNat_lt
  rw [Nat.mod_eq_of_lt (by omega), Nat.mod_eq_of_lt (by omega)] at this
  exact UInt8.toNat_inj.mp this

/-- For a fixed byte the step is injective in the hash state. -/
theorem fnvStep_inj_state {h g : BitVec 32} {b : UInt8} (e : fnvStep h b = fnvStep g b) : h = g :=
  xor_cancel_right (mul_prime_cancel e)

/-- For a fixed hash state the step is injective in the byte. -/
theorem fnvStep_inj_byte {h : BitVec 32} {a b : UInt8} (e : fnvStep h a = fnvStep h b) : a = b :=
  byte_ofNat_inj (xor_cancel_left (mul_prime_cancel e))

theorem foldl_fnvStep_inj (bs : Bytes) {h g : BitVec 32}
    (e : bs.foldl fnvStep h = bs.foldl fnvStep g) : h = g := by
  induction bs generalizing h g with
  | nil => simpa using e
  | cons b bs ih => exact fnvStep_inj_state (ih e)

/-- Changing exactly one byte changes the FNV-1a sum. -/
theorem fnv1a_set_ne (bs : Bytes) (i : Nat) (b : UInt8) (hi : i < bs.length) (hb : b ≠ bs[i]) :
    fnv1a (bs.set i b) ≠ fnv1a bs := by
  unfold fnv1a
  generalize fnvOffset = h0
  induction bs generalizing i h0 with
  | nil => simp at hi
  | cons x xs ih =>
    cases i with
    | zero =>
      simp only [List.set_cons_zero, List.foldl_cons]
      intro e
      have := fnvStep_inj_byte (foldl_fnvStep_inj xs e)
      exact hb (by simpa using this)
    | succ j =>
      simp only [List.set_cons_succ, List.foldl_cons]
      exact ih j (by simpa using hi) (by simpa using hb) (fnvStep h0 x)

theorem le64_length (n : Nat) : (le64 n).length = 8 := rfl
theorem be32_length (n : Nat) : (be32 n).length = 4 := rfl

theorem toNat_ofNat_mod (n : Nat) : (UInt8.ofNat (n % 256)).toNat = n % 256 := by
  simp [UInt8.toNat_ofNat']

theorem leNat_le64 (n : Nat) (h : n < 2^64) : leNat (le64 n) = n := by
  simp only [le64, leNat, toNat_ofNat_mod]
  omega

theorem beNat_be32 (n : Nat) (h : n < 2^32) : beNat (be32 n) = n := by
  simp only [be32, beNat, List.foldl, toNat_ofNat_mod]
  omega

/-- big-endian decoding of four bytes is injective -/
theorem beNat4_inj (a b : Bytes) (ha : a.length = 4) (hb : b.length = 4) (e : beNat a = beNat b) : a = b := by
  match a, b, ha, hb with
  | [a0, a1, a2, a3], [b0, b1, b2, b3], _, _ =>
    simp only [beNat, List.foldl] at e
    have := a0.toNat_lt; have := a1.toNat_lt; have := a2.toNat_lt; have := a3.toNat_lt
    have := b0.toNat_lt; have := b1.toNat_lt; have := b2.toNat_lt; have := b3.toNat_lt
    have e0 : a0.toNat = b0.toNat := by omega
    have e1 : a1.toNat = b1.toNat := by omega
    have e2 : a2.toNat = b2.toNat := by omega
    have e3 : a3.toNat = b3.toNat := by omega
    rw [UInt8.toNat_inj.mp e0, UInt8.toNat_inj.mp e1, UInt8.toNat_inj.mp e2, UInt8.toNat_inj.mp e3]

/-! inverses of the byte-order helpers in the other direction (used by `C15_accepted_is_encoding`) -/
theorem leNat_cons_mod (b : UInt8) (bs : Bytes) : leNat (b :: bs) % 256 = b.toNat := by
  have := b.toNat_lt; simp only [leNat]; omega
theorem leNat_cons_div (b : UInt8) (bs : Bytes) : leNat (b :: bs) / 256 = leNat bs := by
  have := b.toNat_lt; simp only [leNat]; omega

theorem le64_iter (n : Nat) : le64 n =
    [UInt8.ofNat (n % 256), UInt8.ofNat (n / 256 % 256), UInt8.ofNat (n / 256 / 256 % 256),
     UInt8.ofNat (n / 256 / 256 / 256 % 256), UInt8.ofNat (n / 256 / 256 / 256 / 256 % 256),
     UInt8.ofNat (n / 256 / 256 / 256 / 256 / 256 % 256), UInt8.ofNat (n / 256 / 256 / 256 / 256 / 256 / 256 % 256),
     UInt8.ofNat (n / 256 / 256 / 256 / 256 / 256 / 256 / 256 % 256)] := by
  simp only [le64, Nat.div_div_eq_div_mul]

theorem le64_leNat (a : Bytes) (ha : a.length = 8) : le64 (leNat a) = a := by
  match a, ha with
  | [a0, a1, a2, a3, a4, a5, a6, a7], _ =>
    rw [le64_iter]
    simp only [leNat_cons_mod, leNat_cons_div, UInt8.ofNat_toNat]

theorem leNat_lt (a : Bytes) : leNat a < 256 ^ a.length := by
  induction a with
  | nil => simp [leNat]
  | cons b bs ih =>
    have := b.toNat_lt
    simp only [leNat, List.length_cons, Nat.pow_succ]
    omega
theorem be32_beNat (a : Bytes) (ha : a.length = 4) : be32 (beNat a) = a := by
  match a, ha with
  | [a0, a1, a2, a3], _ =>
    have := a0.toNat_lt; have := a1.toNat_lt; have := a2.toNat_lt; have := a3.toNat_lt
    simp only [beNat, List.foldl, be32]
    have e0 : ((((0 * 256 + a0.toNat) * 256 + a1.toNat) * 256 + a2.toNat) * 256 + a3.toNat) / 256^3 % 256 = a0.toNat := by omega
    have e1 : ((((0 * 256 + a0.toNat) * 256 + a1.toNat) * 256 + a2.toNat) * 256 + a3.toNat) / 256^2 % 256 = a1.toNat := by omega
    have e2 : ((((0 * 256 + a0.toNat) * 256 + a1.toNat) * 256 + a2.toNat) * 256 + a3.toNat) / 256 % 256 = a2.toNat := by omega
    have e3 : ((((0 * 256 + a0.toNat) * 256 + a1.toNat) * 256 + a2.toNat) * 256 + a3.toNat) % 256 = a3.toNat := by omega
    rw [e0, e1, e2, e3]; simp

end Model
