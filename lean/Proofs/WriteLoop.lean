import Model.WriteLoop
/-! Helper lemmas for C08 (write loops). -/
namespace Model

theorem write_spec (c : WConn) (p : Bytes) :
    (c.write p).1.log = c.log ++ p.take (c.write p).2.1 ∧ (c.write p).2.1 ≤ p.length ∧
    ((c.write p).2.2 = .ok → (c.write p).2.1 = p.length) := by
  unfold WConn.write
  by_cases he : p.isEmpty = true
  · have : p = [] := by cases p <;> simp_all
    subst this; simp
  simp only [he, Bool.false_eq_true, if_false]
  cases hp : c.policy with
  | nil => simp
  | cons e rest =>
    rcases e with ⟨acc, out⟩
    cases out <;> simp <;> omega

theorem writeToAux_spec (fuel : Nat) (c : WConn) (p : Bytes) :
    ∃ q, (writeToAux fuel c p).1.log = c.log ++ q ∧ q <+: p ∧ ((writeToAux fuel c p).2 = .ok → q = p) := by
  induction fuel generalizing c p with
  | zero => exact ⟨[], by simp [writeToAux], List.nil_prefix, by simp [writeToAux]⟩
  | succ fuel ih =>
    obtain ⟨hlog, hle, hok⟩ := write_spec c p
    unfold writeToAux
    rcases hw : c.write p with ⟨c', n, o⟩
    rw [hw] at hlog hle hok
    simp only at hlog hle hok
    cases o with
    | ok =>
      refine ⟨p, ?_, List.prefix_refl p, fun _ => rfl⟩
      simp only [hlog, hok rfl, List.take_length]
    | timeout =>
      by_cases hn : n = 0
      · simp only [hn, if_true]
        exact ⟨p.take n, by simp [hlog, hn], List.take_prefix n p, by simp⟩
      · simp only [hn, if_false]
        obtain ⟨q, h1, h2, h3⟩ := ih c' (p.drop n)
        refine ⟨p.take n ++ q, by rw [h1, hlog, List.append_assoc], ?_, ?_⟩
        · obtain ⟨t, ht⟩ := h2
          exact ⟨t, by rw [List.append_assoc, ht, List.take_append_drop]⟩
        · intro hk; rw [h3 hk, List.take_append_drop]
    | hard => exact ⟨p.take n, hlog, List.take_prefix n p, by simp⟩
    | closed => exact ⟨p.take n, hlog, List.take_prefix n p, by simp⟩
    | gate => exact ⟨p.take n, hlog, List.take_prefix n p, by simp⟩

theorem bufsLen_eq (v : List Bytes) : bufsLen v = v.flatten.length := by
  induction v with
  | nil => rfl
  | cons b r ih => simp [bufsLen, List.length_flatten] at *

theorem consume_flatten (v : List Bytes) (n : Nat) : (consume v n).flatten = v.flatten.drop n := by
  induction v generalizing n with
  | nil => simp [consume]
  | cons b r ih =>
    unfold consume
    by_cases h : b.length > n
    · simp only [h, if_true, List.flatten_cons]
      rw [List.drop_append_of_le_length (by omega)]
    · simp only [h, if_false, List.flatten_cons, ih]
      have hb : b.length ≤ n := by omega
      rw [List.drop_append, List.drop_of_length_le hb]
      simp

theorem buffersWriteToAux_spec (c : WConn) (n : Nat) (v : List Bytes) :
    ∃ k, (buffersWriteToAux c n v).2.1 = n + k ∧ k ≤ v.flatten.length ∧
      (buffersWriteToAux c n v).1.log = c.log ++ v.flatten.take k ∧
      ((buffersWriteToAux c n v).2.2 = .ok → k = v.flatten.length) := by
  induction v generalizing c n with
  | nil => exact ⟨0, by simp [buffersWriteToAux]⟩
  | cons b r ih =>
    obtain ⟨hlog, hle, hok⟩ := write_spec c b
    unfold buffersWriteToAux
    rcases hw : c.write b with ⟨c', nb, o⟩
    rw [hw] at hlog hle hok
    simp only at hlog hle hok
    cases o with
    | ok =>
      have hnb := hok rfl
      obtain ⟨k, h1, h2, h3, h4⟩ := ih c' (n + nb)
      refine ⟨nb + k, by simp only [h1]; omega, by simp only [List.flatten_cons, List.length_append]; omega, ?_, ?_⟩
      · rw [h3, hlog, hnb, List.take_length, List.flatten_cons, List.append_assoc]
        congr 1
        rw [List.take_length_add_append]
      · intro hk; simp only at hk; rw [h4 hk, hnb]; simp
    | timeout =>
      refine ⟨nb, rfl, by simp only [List.flatten_cons, List.length_append]; omega, ?_, by simp⟩
      simp only [hlog, List.flatten_cons]
      rw [List.take_append_of_le_length hle]
    | hard =>
      refine ⟨nb, rfl, by simp only [List.flatten_cons, List.length_append]; omega, ?_, by simp⟩
      simp only [hlog, List.flatten_cons]
      rw [List.take_append_of_le_length hle]
    | closed =>
      refine ⟨nb, rfl, by simp only [List.flatten_cons, List.length_append]; omega, ?_, by simp⟩
      simp only [hlog, List.flatten_cons]
      rw [List.take_append_of_le_length hle]
    | gate =>
      refine ⟨nb, rfl, by simp only [List.flatten_cons, List.length_append]; omega, ?_, by simp⟩
      simp only [hlog, List.flatten_cons]
      rw [List.take_append_of_le_length hle]

theorem writeBuffersToAux_spec (fuel : Nat) (c : WConn) (v : List Bytes) :
    ∃ q, (writeBuffersToAux fuel c v).1.log = c.log ++ q ∧ q <+: v.flatten ∧
      ((writeBuffersToAux fuel c v).2 = .ok → q = v.flatten) := by
  induction fuel generalizing c v with
  | zero => exact ⟨[], by simp [writeBuffersToAux], List.nil_prefix, by simp [writeBuffersToAux]⟩
  | succ fuel ih =>
    obtain ⟨k, h1, h2, h3, h4⟩ := buffersWriteToAux_spec c 0 v
    unfold writeBuffersToAux buffersWriteTo
    rcases hw : buffersWriteToAux c 0 v with ⟨c', n, o⟩
    rw [hw] at h1 h3 h4
    simp only [Nat.zero_add] at h1 h3 h4
    subst h1
    cases o with
    | ok =>
      refine ⟨v.flatten, ?_, List.prefix_refl _, fun _ => rfl⟩
      simp only [h3, h4 rfl, List.take_length]
    | timeout =>
      by_cases hn : n = 0
      · simp only [hn, if_true]
        exact ⟨v.flatten.take n, by simp [h3, hn], List.take_prefix _ _, by simp⟩
      · simp only [hn, if_false]
        obtain ⟨q, g1, g2, g3⟩ := ih c' (consume v n)
        rw [consume_flatten] at g2 g3
        refine ⟨v.flatten.take n ++ q, by rw [g1, h3, List.append_assoc], ?_, ?_⟩
        · obtain ⟨t, ht⟩ := g2
          exact ⟨t, by rw [List.append_assoc, ht, List.take_append_drop]⟩
        · intro hk; rw [g3 hk, List.take_append_drop]
    | hard => exact ⟨v.flatten.take n, h3, List.take_prefix _ _, by simp⟩
    | closed => exact ⟨v.flatten.take n, h3, List.take_prefix _ _, by simp⟩
    | gate => exact ⟨v.flatten.take n, h3, List.take_prefix _ _, by simp⟩

end Model
