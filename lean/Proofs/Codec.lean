import Model.Compose
/-! Helper lemmas for C09 (and the framing used by C08/C13). -/
namespace Model

@[simp] theorem u8_toNat_ofNat (n : Nat) : (UInt8.ofNat n).toNat = n % 256 := by
  simp [UInt8.toNat_ofNat']

theorem u8_lt_iff (a b : UInt8) : a < b ↔ a.toNat < b.toNat := UInt8.lt_iff_toNat_lt

theorem beU16_be16 (n : Nat) (h : n < 65536) :
    beU16 (UInt8.ofNat (n / 256 % 256)) (UInt8.ofNat (n % 256)) = n := by
  simp only [beU16, u8_toNat_ofNat]
  omega

theorem be16_length (n : Nat) : (be16 n).length = 2 := rfl

theorem strField_length (s : Bytes) : (strField s).length = 2 + s.length := by
  simp [strField, be16_length]

theorem takeStr_strField (s r : Bytes) (h : s.length ≤ 65535) :
    takeStr (strField s ++ r) = some (s, r) := by
  simp only [strField, be16, List.cons_append, List.nil_append, takeStr]
  rw [beU16_be16 _ (by omega)]
  simp

theorem takeUtf8_strField (s r : Bytes) (h : s.length ≤ 65535) (hv : utf8Valid s = true)
    (hn : s.contains 0 = false) : takeUtf8 (strField s ++ r) = some (s, r) := by
  have hn' : ¬ (0 : UInt8) ∈ s := by simpa using hn
  simp [takeUtf8, takeStr_strField s r h, hv, hn']

theorem takeId_be16 (n : Nat) (r : Bytes) (h0 : 0 < n) (h : n < 65536) :
    takeId (be16 n ++ r) = some (n, r) := by
  simp only [be16, List.cons_append, List.nil_append, takeId]
  rw [beU16_be16 _ h]
  simp; omega

/-! ### remaining length -/

theorem encodeVarint_small (n : Nat) (h : n < 128) : encodeVarint n = [UInt8.ofNat n] := by
  rw [encodeVarint]; simp; omega

theorem encodeVarint_big (n : Nat) (h : 128 ≤ n) :
    encodeVarint n = UInt8.ofNat (n % 128 + 128) :: encodeVarint (n / 128) := by
  rw [encodeVarint]; simp; omega

theorem dva_small (fuel : Nat) (n : Nat) (r : Bytes) (h : n < 128) :
    decodeVarintAux (fuel + 1) (UInt8.ofNat n :: r) = some (n, r) := by
  have : UInt8.ofNat n < 128 := by
    rw [u8_lt_iff]; simp; omega
  simp [decodeVarintAux, this]; omega

theorem dva_big (fuel : Nat) (n : Nat) (r : Bytes) :
    decodeVarintAux (fuel + 1) (UInt8.ofNat (n % 128 + 128) :: r) =
      match decodeVarintAux fuel r with
      | some (m, r') => some (n % 128 + 128 * m, r')
      | none => none := by
  have : ¬ (UInt8.ofNat (n % 128 + 128) < 128) := by
    rw [u8_lt_iff]; simp; omega
  simp only [decodeVarintAux, this, if_false, u8_toNat_ofNat]
  have e : (n % 128 + 128) % 256 - 128 = n % 128 := by omega
  rw [e]
  cases decodeVarintAux fuel r <;> rfl

/-- The client's remaining-length encoding is decoded by the reference decoder,
for every size up to the packet limit, in at most four bytes. -/
theorem decodeVarint_encodeVarint (n : Nat) (r : Bytes) (h : n ≤ Facts.packetMax) :
    decodeVarint (encodeVarint n ++ r) = some (n, r) ∧ (encodeVarint n).length ≤ 4 := by
  have hp : Facts.packetMax = 268435455 := rfl
  unfold decodeVarint
  by_cases h1 : n < 128
  · rw [encodeVarint_small n h1]; simp [dva_small _ n r h1]
  · rw [encodeVarint_big n (by omega)]
    by_cases h2 : n / 128 < 128
    · rw [encodeVarint_small _ h2]
      simp only [List.cons_append, List.nil_append, dva_big, dva_small _ _ r h2]
      simp; omega
    · rw [encodeVarint_big _ (by omega)]
      by_cases h3 : n / 128 / 128 < 128
      · rw [encodeVarint_small _ h3]
        simp only [List.cons_append, List.nil_append, dva_big, dva_small _ _ r h3]
        simp; omega
      · rw [encodeVarint_big _ (by omega)]
        have h4 : n / 128 / 128 / 128 < 128 := by omega
        rw [encodeVarint_small _ h4]
        simp only [List.cons_append, List.nil_append, dva_big, dva_small _ _ r h4]
        simp; omega

theorem splitFrame_compose (h : UInt8) (body rest : Bytes) (hb : body.length ≤ Facts.packetMax) :
    splitFrame ([h] ++ encodeVarint body.length ++ body ++ rest) = .complete h body rest := by
  have := (decodeVarint_encodeVarint body.length (body ++ rest) hb).1
  simp only [List.cons_append, List.nil_append, List.append_assoc, splitFrame, this]
  simp

/-- four continuation bytes in front: the reference decoder refuses, whatever follows -/
theorem dva4_none (b0 b1 b2 b3 : UInt8) (r : Bytes) (h0 : ¬ b0 < 128) (h1 : ¬ b1 < 128) (h2 : ¬ b2 < 128) (h3 : ¬ b3 < 128) :
    decodeVarint (b0 :: b1 :: b2 :: b3 :: r) = none := by
  simp [decodeVarint, decodeVarintAux, h0, h1, h2, h3]

end Model
