import Proofs.CoreStore
/-! Lemmas about `AdoptSession`'s sequence cleaning and counter reconstruction. -/
namespace Model

/-- adjacent keys are consecutive 14-bit identifiers -/
def Contig : List Nat → Prop
  | [] => True
  | [_] => True
  | p :: n :: rest => consecutive p n = true ∧ Contig (n :: rest)

theorem consecutive_iff (p n : Nat) : consecutive p n = true ↔ n % idMod = (p % idMod + 1) % idMod := by
  have hM : idMod = 16384 := rfl
  have hK : idMask = 16383 := rfl
  unfold consecutive
  rw [hM, hK]
  have hp := Nat.mod_lt p (show 16384 > 0 by decide)
  have hn := Nat.mod_lt n (show 16384 > 0 by decide)
  simp only [Bool.or_eq_true, Bool.and_eq_true, beq_iff_eq]
  omega

theorem Contig.tail {a : Nat} {l : List Nat} (h : Contig (a :: l)) : Contig l := by
  cases l with
  | nil => trivial
  | cons b r => exact h.2

/-- appending a consecutive key to a contiguous list ending in `prev` -/
theorem Contig.snoc {l : List Nat} {prev n : Nat} (h : Contig (l ++ [prev])) (hc : consecutive prev n = true) :
    Contig (l ++ [prev, n]) := by
  induction l with
  | nil => exact ⟨hc, trivial⟩
  | cons a r ih =>
    cases r with
    | nil => exact ⟨h.1, hc, trivial⟩
    | cons b r' =>
      refine ⟨h.1, ?_⟩
      exact ih h.2

/-- `cleanSequence` always returns a contiguous list, whatever it is given -/
theorem cleanSeqAux_contig (first prev : Nat) (acc rest : List Nat) (h : Contig (acc.reverse))
    (hp : acc.head? = some prev) : Contig (cleanSeqAux first prev acc rest).1 := by
  induction rest generalizing first prev acc with
  | nil => simpa [cleanSeqAux] using h
  | cons n rest ih =>
    unfold cleanSeqAux
    by_cases hc : consecutive prev n = true
    · simp only [hc, if_true]
      apply ih
      · cases acc with
        | nil => simp at hp
        | cons a acc' =>
          simp only [List.head?_cons, Option.some.injEq] at hp
          subst hp
          simp only [List.reverse_cons, List.append_assoc, List.cons_append, List.nil_append] at h ⊢
          exact Contig.snoc h hc
      · rfl
    · simp only [hc, Bool.false_eq_true, if_false]
      exact ih n n [n] trivial rfl

theorem cleanSeq_contig (keys : List Nat) : Contig (cleanSeq keys).1 := by
  cases keys with
  | nil => trivial
  | cons k rest => exact cleanSeqAux_contig k k [k] rest trivial rfl

/-- a contiguous list is left alone, without warnings -/
theorem cleanSeqAux_id (first prev : Nat) (acc rest : List Nat) (h : Contig (prev :: rest)) :
    cleanSeqAux first prev acc rest = (acc.reverse ++ rest, []) := by
  induction rest generalizing prev acc with
  | nil => simp [cleanSeqAux]
  | cons n rest ih =>
    unfold cleanSeqAux
    simp only [h.1, if_true]
    rw [ih n (n :: acc) h.2]
    simp

theorem cleanSeq_id (keys : List Nat) (h : Contig keys) : cleanSeq keys = (keys, []) := by
  cases keys with
  | nil => rfl
  | cons k rest => simpa [cleanSeq] using cleanSeqAux_id k k [k] rest h

/-- element `i` of a contiguous list is `i` identifiers after the first one -/
theorem Contig.get_mod {l : List Nat} (h : Contig l) (i : Nat) (hi : i < l.length) (h0 : 0 < l.length) :
    l[i] % idMod = (l[0] % idMod + i) % idMod := by
  induction l generalizing i with
  | nil => simp at hi
  | cons a r ih =>
    cases i with
    | zero => simp
    | succ j =>
      cases r with
      | nil => simp at hi
      | cons b r' =>
        have hb := (consecutive_iff a b).mp h.1
        have := ih h.2 j (by simpa using hi) (by simp)
        simp only [List.getElem_cons_succ, List.getElem_cons_zero] at this ⊢
        have hM : idMod = 16384 := rfl
        simp only [hM] at hb this ⊢
        omega

/-- sequence-number window of a level: key `publishKey space (lo + i)` for `i < k` -/
def windowKeys (space lo k : Nat) : List Nat := (List.range k).map fun i => publishKey space (lo + i)

theorem publishKey_mod (space n : Nat) (hs : space % idMod = 0) : publishKey space n % idMod = n % idMod := by
  unfold publishKey
  have hM : idMod = 16384 := rfl
  simp only [hM] at hs ⊢
  omega

theorem head?_eq (l : List Nat) (h : 0 < l.length) : l.head? = some l[0] := by
  cases l with
  | nil => simp at h
  | cons a r => rfl

theorem getLast?_eq (l : List Nat) (h : 0 < l.length) : l.getLast? = some (l[l.length - 1]'(by omega)) := by
  rw [List.getLast?_eq_getElem?]
  exact List.getElem?_eq_getElem _

/-- level 1: counters rebuilt from a contiguous key list span exactly its length -/
theorem recon1_exact (alo : List Nat) (hc : Contig alo) (h0 : 0 < alo.length) (hM : alo.length ≤ idMod) :
    (recon1 alo).1 = alo[0] % idMod ∧ (recon1 alo).2 = alo[0] % idMod + alo.length := by
  have hlast := hc.get_mod (alo.length - 1) (by omega) h0
  have hm : idMod = 16384 := rfl
  have := Nat.mod_lt alo[0] (show 16384 > 0 by decide)
  unfold recon1
  simp only [head?_eq alo h0, getLast?_eq alo h0]
  simp only [hm] at hlast hM ⊢
  refine ⟨trivial, ?_⟩
  split <;> omega

theorem recon1_nil : recon1 [] = (0, 0) := rfl

/-- level 2, with PUBRELs: `Completed`/`Received` span the PUBREL list -/
theorem recon2cr_rel (eo rel : List Nat) (hcr : Contig rel) (hr : 0 < rel.length) (hM : rel.length ≤ idMod) :
    (recon2cr eo rel).1 = rel[0] % idMod ∧ (recon2cr eo rel).2 = rel[0] % idMod + rel.length := by
  have hlast := hcr.get_mod (rel.length - 1) (by omega) hr
  have hm : idMod = 16384 := rfl
  have := Nat.mod_lt rel[0] (show 16384 > 0 by decide)
  unfold recon2cr
  simp only [head?_eq rel hr, getLast?_eq rel hr]
  simp only [hm] at hlast hM ⊢
  refine ⟨trivial, ?_⟩
  split <;> omega

theorem recon2cr_norel (eo : List Nat) (he : 0 < eo.length) :
    (recon2cr eo []).1 = eo[0] % idMod ∧ (recon2cr eo []).2 = eo[0] % idMod := by
  unfold recon2cr
  simp [head?_eq eo he]

/-- level 2 `acceptN`: the PUBLISH list continues at `received` (mod 2^14) -/
theorem recon2a_exact (eo : List Nat) (received : Nat) (hce : Contig eo) (he : 0 < eo.length)
    (hstart : eo[0] % idMod = received % idMod) (hr : received < 2 * idMod)
    (hfit : received + eo.length ≤ received / idMod * idMod + idMod ∨ received < idMod ∧ received + eo.length ≤ 2 * idMod)
    (hM : eo.length ≤ idMod) :
    recon2a eo received = received + eo.length := by
  have hlast := hce.get_mod (eo.length - 1) (by omega) he
  have hm : idMod = 16384 := rfl
  unfold recon2a
  simp only [getLast?_eq eo he]
  simp only [hm] at hlast hM hstart hr hfit ⊢
  split <;> omega

theorem recon2a_nil (received : Nat) : recon2a [] received = received := rfl

theorem relRule_nil (eo : List Nat) : relRule eo [] = ([], []) := by
  unfold relRule
  cases eo.head? <;> rfl

theorem relRule_spec (eo rel : List Nat) (hc : Contig rel) :
    Contig (relRule eo rel).1 ∧
    (∀ rl n, (relRule eo rel).1.getLast? = some rl → eo.head? = some n → consecutive rl n = true) := by
  unfold relRule
  cases he : eo.head? with
  | none => exact ⟨hc, fun _ _ _ h => by cases h⟩
  | some n =>
    cases hr : rel.head? with
    | none =>
      have : rel = [] := by cases rel <;> simp_all
      subst this
      exact ⟨trivial, fun _ _ h _ => by simp at h⟩
    | some rf =>
      cases hl : rel.getLast? with
      | none =>
        have : rel = [] := by cases rel <;> simp_all
        subst this
        simp at hr
      | some rl =>
        simp only
        by_cases hk : consecutive rl n = true
        · simp only [hk, if_true]
          refine ⟨hc, fun rl' n' h1 h2 => ?_⟩
          rw [hl] at h1
          cases h1; cases h2
          exact hk
        · simp only [hk, Bool.false_eq_true, if_false]
          exact ⟨trivial, fun _ _ h _ => by simp at h⟩

/-- what `adopt` hands to the new client, for an arbitrary store -/
theorem adopt_lists (store : Store) (m1 m2 : Int) (df : Nat → Bool) (a : Adopted) (h : adopt store m1 m2 df = .ok a) :
    Contig a.alo ∧ Contig a.eo ∧ Contig a.rel ∧
    a.alo.length ≤ normMax m1 ∧ a.eo.length + a.rel.length ≤ normMax m2 ∧
    a.ctr = reconstruct a.alo a.eo a.rel ∧
    (∀ rl n, a.rel.getLast? = some rl → a.eo.head? = some n → consecutive rl n = true) := by
  unfold adopt at h
  simp only at h
  split at h
  · cases h
  · split at h
    · cases h
    · split at h
      · cases h
      · rename_i h1 h2
        injection h with h
        subst h
        simp only [cleanLists]
        have hr := relRule_spec (cleanSeq ((sortBy (·.2) (classify df store.sortedKeys { store := store }).eo).map (·.1))).1
          (cleanSeq ((sortBy (·.2) (classify df store.sortedKeys { store := store }).rel).map (·.1))).1 (cleanSeq_contig _)
        simp only [cleanLists] at h1 h2
        exact ⟨cleanSeq_contig _, cleanSeq_contig _, hr.1, by omega, by omega, trivial, hr.2⟩

theorem windowKeys_length (space lo k : Nat) : (windowKeys space lo k).length = k := by simp [windowKeys]

theorem windowKeys_get (space lo k i : Nat) (hi : i < (windowKeys space lo k).length) :
    (windowKeys space lo k)[i] = publishKey space (lo + i) := by
  simp [windowKeys]

theorem contig_of_get (l : List Nat) (h : ∀ i (hi : i + 1 < l.length), consecutive l[i] l[i + 1] = true) : Contig l := by
  induction l with
  | nil => trivial
  | cons a r ih =>
    cases r with
    | nil => trivial
    | cons b r' =>
      refine ⟨by simpa using h 0 (by simp), ih ?_⟩
      intro i hi
      have := h (i + 1) (by simp at hi ⊢; omega)
      simpa using this

theorem windowKeys_contig (space lo k : Nat) (hs : space % idMod = 0) : Contig (windowKeys space lo k) := by
  apply contig_of_get
  intro i hi
  rw [windowKeys_get, windowKeys_get, consecutive_iff, publishKey_mod _ _ hs, publishKey_mod _ _ hs]
  have hm : idMod = 16384 := rfl
  simp only [hm]
  omega

end Model
