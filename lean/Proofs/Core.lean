import Model.Core
/-! Invariants of the outbound core (`Model.Core`), by induction over
operation sequences of any length. -/
namespace Model

theorem idMod_eq : idMod = 16384 := rfl
theorem idMask_eq : idMask = 16383 := rfl

/-- For a window of at most 2^14 sequence numbers, the 14-bit identifier is injective. -/
theorem wrap_window {lo n m : Nat} (w : Nat) (hw : w ≤ idMod)
    (hn : lo ≤ n ∧ n < lo + w) (hm : lo ≤ m ∧ m < lo + w) (h : n % idMod = m % idMod) : n = m := by
  rw [idMod_eq] at *
  omega

theorem publishKey_inj {space lo n m : Nat} (w : Nat) (hw : w ≤ idMod)
    (hn : lo ≤ n ∧ n < lo + w) (hm : lo ≤ m ∧ m < lo + w)
    (h : publishKey space n = publishKey space m) : n = m := by
  unfold publishKey at h
  exact wrap_window w hw hn hm (by omega)

theorem publishKey_range (space n : Nat) : space ≤ publishKey space n ∧ publishKey space n < space + idMod := by
  unfold publishKey
  have := Nat.mod_lt n (show idMod > 0 by decide)
  omega

/-! ### Store lemmas -/

theorem Store.get_put_same (s : Store) (k : Nat) (v : Bytes) : (s.put k v).get k = some v := by
  simp [Store.put, Store.get]

theorem Store.get_erase_other (s : Store) {k k' : Nat} (h : k' ≠ k) : (s.erase k).get k' = s.get k' := by
  induction s with
  | nil => rfl
  | cons p rest ih =>
    simp only [Store.erase, Store.get, List.filter] at *
    by_cases hp : p.1 = k
    · have : (p.1 != k) = false := by simp [hp]
      have hk' : (p.1 == k') = false := by simp [hp]; omega
      simp only [this, List.find?, hk']
      exact ih
    · have : (p.1 != k) = true := by simp [hp]
      simp only [this, List.find?]
      by_cases hk' : p.1 = k'
      · simp [hk']
      · have : (p.1 == k') = false := by simp [hk']
        simp only [this]
        exact ih

theorem Store.get_erase_same (s : Store) (k : Nat) : (s.erase k).get k = none := by
  induction s with
  | nil => rfl
  | cons p rest ih =>
    simp only [Store.erase, Store.get, List.filter] at *
    by_cases hp : p.1 = k
    · have : (p.1 != k) = false := by simp [hp]
      simp only [this]; exact ih
    · have h1 : (p.1 != k) = true := by simp [hp]
      have h2 : (p.1 == k) = false := by simp [hp]
      simp only [h1, List.find?, h2]; exact ih

theorem Store.get_put_other (s : Store) {k k' : Nat} (v : Bytes) (h : k' ≠ k) : (s.put k v).get k' = s.get k' := by
  have hk : (k == k') = false := by simp; omega
  have : (s.put k v).get k' = (s.erase k).get k' := by
    simp [Store.put, Store.get, List.find?, hk]
  rw [this, Store.get_erase_other s h]

/-! ### The counter invariant -/

structure Level.Ok (lv : Level) (lo : Nat) : Prop where
  lo_le : lo ≤ lv.acceptN
  sub_le : lv.submitN ≤ lv.acceptN
  max_le : lv.max ≤ idMod
  qlen : lv.queue.length ≤ lv.max
  span : lv.acceptN - lo ≤ lv.max
  window : lv.seqClosed = false → lv.acceptN - lo = lv.queue.length
  closedq : lv.seqClosed = true → lv.queue = []

structure Core.Inv (c : Core) : Prop where
  l1 : c.l1.Ok c.acked
  l2 : c.l2.Ok c.completed
  rec_lo : c.completed ≤ c.received
  rec_hi : c.received ≤ c.l2.acceptN
  sp1 : c.l1.space = Facts.atLeastOnceIDSpace
  sp2 : c.l2.space = Facts.exactlyOnceIDSpace

theorem Core.fresh_inv (store : Store) (seqNo : Nat) (m1 m2 : Int) : (Core.fresh store seqNo m1 m2).Inv := by
  have hn : ∀ m : Int, normMax m ≤ idMod := by
    intro m; unfold normMax idMod; split <;> simp [Facts.publishIDMask] at * <;> omega
  refine ⟨⟨?_, ?_, hn m1, ?_, ?_, ?_, ?_⟩, ⟨?_, ?_, hn m2, ?_, ?_, ?_, ?_⟩, ?_, ?_, rfl, rfl⟩ <;> simp [Core.fresh]

theorem Level.Ok.accept {lv : Level} {lo : Nat} (h : lv.Ok lo) (hc : lv.seqClosed = false)
    (hq : ¬ lv.queue.length ≥ lv.max) (ex : Nat) :
    ({ lv with queue := lv.queue ++ [ex], acceptN := lv.acceptN + 1 } : Level).Ok lo := by
  have hw := h.window hc
  refine ⟨by have := h.lo_le; simp; omega, by have := h.sub_le; simp; omega, h.max_le, by simp; omega,
    by simp; omega, fun _ => by simp; have := h.lo_le; omega, fun hcl => by simp at hcl; rw [hc] at hcl; cases hcl⟩

theorem Core.save_frame (c : Core) (k : Nat) (p : Bytes) (f : Bool) :
    (c.save k p f).1.l1 = c.l1 ∧ (c.save k p f).1.l2 = c.l2 ∧ (c.save k p f).1.acked = c.acked ∧
    (c.save k p f).1.received = c.received ∧ (c.save k p f).1.completed = c.completed := by
  unfold Core.save; split <;> simp

theorem Core.delete_frame (c : Core) (k : Nat) (f : Bool) :
    (c.delete k f).1.l1 = c.l1 ∧ (c.delete k f).1.l2 = c.l2 ∧ (c.delete k f).1.acked = c.acked ∧
    (c.delete k f).1.received = c.received ∧ (c.delete k f).1.completed = c.completed := by
  unfold Core.delete; split <;> simp

/-- the counters, queues and spaces only: what `Inv` talks about -/
theorem Core.Inv.of_eq {c c' : Core} (h : c.Inv) (e1 : c'.l1 = c.l1) (e2 : c'.l2 = c.l2) (e3 : c'.acked = c.acked)
    (e4 : c'.received = c.received) (e5 : c'.completed = c.completed) : c'.Inv := by
  refine ⟨by rw [e1, e3]; exact h.l1, by rw [e2, e5]; exact h.l2, by rw [e5, e4]; exact h.rec_lo,
    by rw [e4, e2]; exact h.rec_hi, by rw [e1]; exact h.sp1, by rw [e2]; exact h.sp2⟩

theorem Core.accept_inv (c : Core) (h : c.Inv) (lvl : Nat) (mk : Nat → Bytes) (f : Bool) (ex : Nat) :
    (c.accept lvl mk f ex).1.Inv := by
  unfold Core.accept
  by_cases hcl : (c.lv lvl).seqClosed = true
  · simp [hcl, h]
  · simp only [hcl, Bool.false_eq_true, if_false]
    by_cases hq : (c.lv lvl).queue.length ≥ (c.lv lvl).max
    · simp [hq, h]
    · simp only [hq, if_false]
      obtain ⟨f1, f2, f3, f4, f5⟩ := Core.save_frame c (publishKey (c.lv lvl).space (c.lv lvl).acceptN)
        (mk (publishKey (c.lv lvl).space (c.lv lvl).acceptN)) f
      rcases hs : c.save (publishKey (c.lv lvl).space (c.lv lvl).acceptN)
        (mk (publishKey (c.lv lvl).space (c.lv lvl).acceptN)) f with ⟨c', ok⟩
      rw [hs] at f1 f2 f3 f4 f5
      simp only at f1 f2 f3 f4 f5
      have hi' : c'.Inv := h.of_eq f1 f2 f3 f4 f5
      cases ok with
      | false => exact hi'
      | true =>
        simp only
        have hcl' : (c.lv lvl).seqClosed = false := by simpa using hcl
        unfold Core.setLv Core.lv at *
        by_cases h1 : (lvl == 1) = true
        · simp only [h1, if_true] at *
          refine ⟨?_, ?_, ?_, ?_, ?_, ?_⟩
          · simpa [f3, hcl'] using h.l1.accept hcl' hq ex
          · simpa [f2, f5] using h.l2
          · simpa [f4, f5] using h.rec_lo
          · simpa [f4, f2] using h.rec_hi
          · simpa using h.sp1
          · simpa [f2] using h.sp2
        · simp only [h1, Bool.false_eq_true, if_false] at *
          refine ⟨?_, ?_, ?_, ?_, ?_, ?_⟩
          · simpa [f1, f3] using h.l1
          · simpa [f5, hcl'] using h.l2.accept hcl' hq ex
          · simpa [f4, f5] using h.rec_lo
          · have := h.rec_hi; simp [f4]; omega
          · simpa [f1] using h.sp1
          · simpa using h.sp2

theorem Level.Ok.pop {lv : Level} {lo : Nat} (h : lv.Ok lo) (hne : lv.queue.isEmpty = false) :
    ({ lv with queue := lv.queue.tail } : Level).Ok (lo + 1) := by
  have hcl : lv.seqClosed = false := by
    cases hc : lv.seqClosed with
    | false => rfl
    | true => have := h.closedq hc; simp [this] at hne
  have hw := h.window hcl
  have hlen : lv.queue.length > 0 := by cases hq : lv.queue <;> simp_all
  have hq := h.qlen
  have hs := h.span
  refine ⟨?_, h.sub_le, h.max_le, ?_, ?_, fun _ => ?_, fun hc => ?_⟩
  · show lo + 1 ≤ lv.acceptN; omega
  · show lv.queue.tail.length ≤ lv.max; simp; omega
  · show lv.acceptN - (lo + 1) ≤ lv.max; omega
  · show lv.acceptN - (lo + 1) = lv.queue.tail.length; simp; omega
  · have : lv.seqClosed = true := hc
    rw [hcl] at this; cases this

theorem Core.puback_inv (c : Core) (h : c.Inv) (id : Nat) (f : Bool) (hc : c.pubackCheck id = .ok) :
    (c.puback id f).1.Inv := by
  have hne : c.l1.queue.isEmpty = false := by
    unfold Core.pubackCheck at hc
    repeat' split at hc
    all_goals first | exact absurd hc (by decide) | (simp at *; first | assumption | omega | (constructor <;> first | assumption | omega))
  obtain ⟨f1, f2, f3, f4, f5⟩ := Core.delete_frame c id f
  unfold Core.puback
  rcases hd : c.delete id f with ⟨c', ok⟩
  rw [hd] at f1 f2 f3 f4 f5
  simp only at f1 f2 f3 f4 f5
  cases ok with
  | false => exact h.of_eq f1 f2 f3 f4 f5
  | true =>
    refine ⟨?_, ?_, ?_, ?_, ?_, ?_⟩
    · simpa [f1, f3] using h.l1.pop hne
    · simpa [f2, f5] using h.l2
    · simpa [f4, f5] using h.rec_lo
    · simpa [f4, f2] using h.rec_hi
    · simpa [f1] using h.sp1
    · simpa [f2] using h.sp2

theorem Core.pubcomp_inv (c : Core) (h : c.Inv) (id : Nat) (f : Bool) (hc : c.pubcompCheck id = .ok) :
    (c.pubcomp id f).1.Inv := by
  have hck : c.completed < c.received ∧ c.l2.queue.isEmpty = false := by
    unfold Core.pubcompCheck at hc
    repeat' split at hc
    all_goals first | exact absurd hc (by decide) | (simp at *; first | assumption | omega | (constructor <;> first | assumption | omega))
  obtain ⟨f1, f2, f3, f4, f5⟩ := Core.delete_frame c id f
  unfold Core.pubcomp
  rcases hd : c.delete id f with ⟨c', ok⟩
  rw [hd] at f1 f2 f3 f4 f5
  simp only at f1 f2 f3 f4 f5
  cases ok with
  | false => exact h.of_eq f1 f2 f3 f4 f5
  | true =>
    refine ⟨?_, ?_, ?_, ?_, ?_, ?_⟩
    · simpa [f1, f3] using h.l1
    · simpa [f2, f5] using h.l2.pop hck.2
    · simp [f4, f5]; omega
    · simpa [f4, f2] using h.rec_hi
    · simpa [f1] using h.sp1
    · simpa [f2] using h.sp2

theorem Core.pubrec_inv (c : Core) (h : c.Inv) (id : Nat) (rel : Bytes) (f : Bool) (hc : c.pubrecCheck id = .ok) :
    (c.pubrec id rel f).1.Inv := by
  have hck : c.received - c.completed < c.l2.queue.length := by
    unfold Core.pubrecCheck at hc
    repeat' split at hc
    all_goals first | exact absurd hc (by decide) | (simp at *; first | assumption | omega | (constructor <;> first | assumption | omega))
  have hlt : c.received < c.l2.acceptN := by
    have hcl : c.l2.seqClosed = false := by
      cases hcc : c.l2.seqClosed with
      | false => rfl
      | true => have := h.l2.closedq hcc; simp [this] at hck
    have := h.l2.window hcl
    have := h.rec_lo
    omega
  obtain ⟨f1, f2, f3, f4, f5⟩ := Core.save_frame c id rel f
  unfold Core.pubrec
  rcases hd : c.save id rel f with ⟨c', ok⟩
  rw [hd] at f1 f2 f3 f4 f5
  simp only at f1 f2 f3 f4 f5
  cases ok with
  | false => exact h.of_eq f1 f2 f3 f4 f5
  | true =>
    refine ⟨?_, ?_, ?_, ?_, ?_, ?_⟩
    · simpa [f1, f3] using h.l1
    · simpa [f2, f5] using h.l2
    · have := h.rec_lo; simp [f4, f5]; omega
    · simp [f4, f2]; omega
    · simpa [f1] using h.sp1
    · simpa [f2] using h.sp2

theorem Core.setLv_inv_sub (c : Core) (h : c.Inv) (lvl : Nat) (n : Nat) (hn : n ≤ (c.lv lvl).acceptN) :
    (c.setLv lvl { c.lv lvl with submitN := n }).Inv := by
  unfold Core.setLv Core.lv at *
  by_cases h1 : (lvl == 1) = true
  · simp only [h1, if_true] at *
    exact ⟨⟨h.l1.lo_le, hn, h.l1.max_le, h.l1.qlen, h.l1.span, h.l1.window, h.l1.closedq⟩, h.l2, h.rec_lo, h.rec_hi, h.sp1, h.sp2⟩
  · simp only [h1, Bool.false_eq_true, if_false] at *
    exact ⟨h.l1, ⟨h.l2.lo_le, hn, h.l2.max_le, h.l2.qlen, h.l2.span, h.l2.window, h.l2.closedq⟩, h.rec_lo, h.rec_hi, h.sp1, h.sp2⟩

theorem Core.term_inv (c : Core) (h : c.Inv) : c.term.Inv := by
  unfold Core.term
  refine ⟨⟨h.l1.lo_le, h.l1.sub_le, h.l1.max_le, by simp, h.l1.span, by simp, by simp⟩,
    ⟨h.l2.lo_le, h.l2.sub_le, h.l2.max_le, by simp, h.l2.span, by simp, by simp⟩, h.rec_lo, h.rec_hi, h.sp1, h.sp2⟩

/-- every operation preserves the invariant -/
theorem Core.step_inv (c : Core) (h : c.Inv) (op : COp) : (c.step op).Inv := by
  cases op with
  | accept lvl pk f ex => exact Core.accept_inv c h lvl pk f ex
  | submitted lvl => exact Core.setLv_inv_sub c h lvl _ (Nat.le_refl _)
  | resent lvl n =>
    simp only [Core.step]
    split
    · rename_i hn
      unfold Level.resent
      split
      · exact Core.setLv_inv_sub c h lvl (n + 1) (by omega)
      · have : c.setLv lvl (c.lv lvl) = c := by unfold Core.setLv Core.lv; split <;> rfl
        rw [this]; exact h
    · exact h
  | puback id f =>
    simp only [Core.step]
    split
    · rename_i hc; exact Core.puback_inv c h id f hc
    · exact h
  | pubrec id f =>
    simp only [Core.step]
    split
    · rename_i hc; exact Core.pubrec_inv c h id _ f hc
    · exact h
  | pubcomp id f =>
    simp only [Core.step]
    split
    · rename_i hc; exact Core.pubcomp_inv c h id f hc
    · exact h
  | term => exact Core.term_inv c h

/-- no operation changes the configured limits or the identifier spaces -/
theorem Core.step_max (c : Core) (op : COp) :
    (c.step op).l1.max = c.l1.max ∧ (c.step op).l2.max = c.l2.max := by
  cases op with
  | accept lvl pk f ex =>
    simp only [Core.step, Core.accept]
    obtain ⟨f1, f2, _, _, _⟩ := Core.save_frame c (publishKey (c.lv lvl).space (c.lv lvl).acceptN)
        (pk (publishKey (c.lv lvl).space (c.lv lvl).acceptN)) f
    repeat' split
    all_goals first | exact ⟨rfl, rfl⟩ | skip
    all_goals (rename_i hs; rw [hs] at f1 f2; simp only at f1 f2)
    · exact ⟨by rw [f1], by rw [f2]⟩
    · unfold Core.setLv Core.lv at *
      split <;> simp_all
  | submitted lvl => simp only [Core.step, Core.markSubmitted, Core.setLv, Core.lv]; split <;> simp
  | resent lvl n =>
    simp only [Core.step, Level.resent, Core.setLv, Core.lv]
    repeat' split
    all_goals simp
  | puback id f =>
    obtain ⟨f1, f2, _, _, _⟩ := Core.delete_frame c id f
    simp only [Core.step, Core.puback]
    repeat' split
    all_goals first | exact ⟨rfl, rfl⟩ | skip
    all_goals (rename_i hs; rw [hs] at f1 f2; simp only at f1 f2; simp [f1, f2])
  | pubrec id f =>
    obtain ⟨f1, f2, _, _, _⟩ := Core.save_frame c id ([UInt8.ofNat (Facts.typePUBREL * 16 + 2), 2] ++ be16 id) f
    simp only [Core.step, Core.pubrec]
    repeat' split
    all_goals first | exact ⟨rfl, rfl⟩ | skip
    all_goals (rename_i hs; rw [hs] at f1 f2; simp only at f1 f2; simp [f1, f2])
  | pubcomp id f =>
    obtain ⟨f1, f2, _, _, _⟩ := Core.delete_frame c id f
    simp only [Core.step, Core.pubcomp]
    repeat' split
    all_goals first | exact ⟨rfl, rfl⟩ | skip
    all_goals (rename_i hs; rw [hs] at f1 f2; simp only at f1 f2; simp [f1, f2])
  | term => simp [Core.step, Core.term]

theorem Core.run_max (c : Core) (ops : List COp) :
    (c.run ops).l1.max = c.l1.max ∧ (c.run ops).l2.max = c.l2.max := by
  induction ops generalizing c with
  | nil => exact ⟨rfl, rfl⟩
  | cons op ops ih =>
    have h1 := ih (c.step op)
    have h2 := Core.step_max c op
    exact ⟨h1.1.trans h2.1, h1.2.trans h2.2⟩

/-- the invariant holds after every operation sequence, of any length -/
theorem Core.run_inv (c : Core) (h : c.Inv) (ops : List COp) : (c.run ops).Inv := by
  induction ops generalizing c with
  | nil => exact h
  | cons op ops ih => exact ih _ (Core.step_inv c h op)

end Model
