import Model.Session
import Model.Forest
/-! # C14 — errors stay in documented classes; "not submitted" means no byte was sent

Model: the request entry points of `Model.Session` at the moment they return
(`CallResult.ret`), with the package documentation (mqtt.go:1-21) transcribed
as `Doc*` predicates:

* Publish: ErrClosed, ErrDown, ErrCanceled, IsDeny ⇒ not submitted; anything else is an ErrSubmit.
* Subscribe/Unsubscribe: ErrClosed, ErrDown, ErrMax, ErrCanceled, IsDeny ⇒ not submitted;
  SubscribeError; otherwise ErrSubmit, ErrBreak or ErrAbandoned. Ping alike, without IsDeny.
* PublishAtLeastOnce/ExactlyOnce: ErrClosed, ErrMax, IsDeny or a Save error ⇒ dropped. -/
namespace Model

theorem C14_fact_tables :
    Facts.denyErrs = ["errPacketMax", "errStringMax", "errUTF8", "errNull", "errZero", "errSubscribeNone", "errUnsubscribeNone"] ∧
    Facts.endErrs = ["ErrClosed", "ErrCanceled", "ErrAbandoned"] ∧
    Facts.connClosedErrors = ["net.ErrClosed", "io.ErrClosedPipe"] := by decide

/-- documented not-submitted classes -/
def notSubmitted (e : Err) : Prop := e = mkErr ["closed"] ∨ e = mkErr ["down"] ∨ e = mkErr ["max"] ∨ e = mkErr ["deny"] ∨ e = mkErr ["canceled"]

/-- an ErrSubmit joined with the connection's error -/
def isSubmit (e : Err) : Prop := ∃ o : WOut, o ≠ .ok ∧ e = mkErr ["submit", woutTag o]

theorem S.afterWriteErr_snd (s : S) (o : WOut) : (s.afterWriteErr o).2 = mkErr ["submit", woutTag o] := rfl

theorem S.afterWriteErr_submit (s : S) (o : WOut) (h : o ≠ .ok) : isSubmit (s.afterWriteErr o).2 := ⟨o, h, rfl⟩

/-- Publish returns nil, a not-submitted class, or an ErrSubmit — and with a
not-submitted class nothing was written: the connection log is unchanged. -/
theorem C14_publish (s : S) (tag : String) (retain : Bool) (topic msg : Bytes) (e : Err)
    (h : (s.publish0 tag retain topic msg).2 = .ret e) :
    (e = errOk ∨ e = mkErr ["deny"] ∨ e = mkErr ["closed"] ∨ e = mkErr ["down"] ∨ isSubmit e) ∧
    (e = mkErr ["deny"] ∨ e = mkErr ["closed"] ∨ e = mkErr ["down"] → (s.publish0 tag retain topic msg).1 = s) := by
  unfold S.publish0 at h ⊢
  simp only at h ⊢
  generalize publishHead _ topic 0 msg.length = ph at h ⊢
  cases ph with
  | error d =>
    simp only at h ⊢
    injection h with h; subst h
    exact ⟨Or.inr (Or.inl rfl), fun _ => trivial⟩
  | ok hd =>
    simp only [S.lockWrite] at h ⊢
    cases hl : s.link with
    | closed =>
      simp only [hl] at h ⊢
      injection h with h; subst h
      exact ⟨Or.inr (Or.inr (Or.inl rfl)), fun _ => trivial⟩
    | down =>
      simp only [hl] at h ⊢
      injection h with h; subst h
      exact ⟨Or.inr (Or.inr (Or.inr (Or.inl rfl))), fun _ => trivial⟩
    | pending =>
      simp only [hl] at h
      split at h <;> cases h
    | live =>
      simp only [hl] at h ⊢
      · have hc : (!s.closers.isEmpty) = false := by
          cases hc : (!s.closers.isEmpty) with
          | false => rfl
          | true => simp only [hc, if_true] at h; cases h
        simp only [hc, Bool.false_eq_true, if_false] at h ⊢
        have hh : s.held.isSome = false := by
          cases hh : s.held.isSome with
          | false => rfl
          | true => simp only [hh, if_true] at h; cases h
        simp only [hh, Bool.false_eq_true, if_false] at h ⊢
        by_cases hg : s.gateAhead = true
        · simp only [hg, if_true] at h; cases h
        · simp only [hg, Bool.false_eq_true, if_false] at h ⊢
          generalize s.connWrite (writeBuffersTo · [hd, msg]) = w at h ⊢
          obtain ⟨s', o⟩ := w
          cases o with
          | ok =>
            simp only [beq_self_eq_true, if_true] at h ⊢
            injection h with h; subst h
            exact ⟨Or.inl rfl, fun hh => by rcases hh with hh | hh | hh <;> exact absurd hh (by decide)⟩
          | timeout =>
            simp only [show (WOut.timeout == WOut.ok) = false from rfl, show (WOut.timeout == WOut.gate) = false from rfl,
              Bool.false_eq_true, if_false] at h ⊢
            injection h with h; subst h
            refine ⟨Or.inr (Or.inr (Or.inr (Or.inr ⟨.timeout, by decide, rfl⟩))), fun hh => ?_⟩
            rw [S.afterWriteErr_snd] at hh
            rcases hh with hh | hh | hh <;> exact absurd hh (by decide)
          | hard =>
            simp only [show (WOut.hard == WOut.ok) = false from rfl, show (WOut.hard == WOut.gate) = false from rfl,
              Bool.false_eq_true, if_false] at h ⊢
            injection h with h; subst h
            refine ⟨Or.inr (Or.inr (Or.inr (Or.inr ⟨.hard, by decide, rfl⟩))), fun hh => ?_⟩
            rw [S.afterWriteErr_snd] at hh
            rcases hh with hh | hh | hh <;> exact absurd hh (by decide)
          | closed =>
            simp only [show (WOut.closed == WOut.ok) = false from rfl, show (WOut.closed == WOut.gate) = false from rfl,
              Bool.false_eq_true, if_false] at h ⊢
            injection h with h; subst h
            refine ⟨Or.inr (Or.inr (Or.inr (Or.inr ⟨.closed, by decide, rfl⟩))), fun hh => ?_⟩
            rw [S.afterWriteErr_snd] at hh
            rcases hh with hh | hh | hh <;> exact absurd hh (by decide)
          | gate =>
            simp only [show (WOut.gate == WOut.ok) = false from rfl, beq_self_eq_true, Bool.false_eq_true, if_false, if_true] at h
            cases h

/-- A publish the core refuses (closed, max, Save failure) leaves counters,
queues and store untouched: nothing was enqueued, no identifier consumed. -/
theorem C14_persisted_error_means_dropped (c : Core) (lvl : Nat) (pk : Nat → Bytes) (f : Bool) (ex : Nat)
    (h : ∀ k b, (c.accept lvl pk f ex).2 ≠ .ok k b) :
    (c.accept lvl pk f ex).1.l1 = c.l1 ∧ (c.accept lvl pk f ex).1.l2 = c.l2 ∧ (c.accept lvl pk f ex).1.store = c.store ∧
    (c.accept lvl pk f ex).1.acked = c.acked ∧ (c.accept lvl pk f ex).1.received = c.received := by
  unfold Core.accept at h ⊢
  by_cases hcl : (c.lv lvl).seqClosed = true
  · simp [hcl]
  · simp only [hcl, Bool.false_eq_true, if_false] at h ⊢
    by_cases hq : (c.lv lvl).queue.length ≥ (c.lv lvl).max
    · simp [hq]
    · simp only [hq, if_false] at h ⊢
      unfold Core.save at h ⊢
      cases f with
      | true => simp
      | false => simp at h

/-- a quit signal leads only to ErrCanceled (before the write) or ErrAbandoned (after) -/
theorem C14_quit_only_cancel_or_abandon (s : S) (tag : String) (e : Err) (h : (s.quit tag).2 = some e) :
    e = mkErr ["canceled"] ∨ e = mkErr ["abandoned"] := by
  unfold S.quit at h
  repeat' split at h
  all_goals first | (simp at h; subst h; simp) | simp at h

/-- ErrMax for Ping exactly when another Ping owns the slot; nothing is written then -/
theorem C14_ping_max (s : S) (tag : String) (h : s.ping.isSome) : s.pingCall tag = (s, .ret (mkErr ["max"])) := by
  unfold S.pingCall
  simp [h]

/-- IsDeny and IsEnd are disjoint on the classes the model produces -/
theorem C14_deny_end_disjoint : mkErr ["deny"] ≠ mkErr ["closed"] ∧ mkErr ["deny"] ≠ mkErr ["canceled"] ∧
    mkErr ["deny"] ≠ mkErr ["abandoned"] := by decide


/-! ## The classifier behind IsDeny, IsEnd and Backoff, on error values of any shape -/

/-- `nonNilIsAny(err, targets)` answers "is some node of the error tree one of the targets" - what `errors.Is` against
any of the targets answers - for every error value: sentinels, `%w` wrappers (with or without a wrapped error), joins
of any width and nesting. The loop with its explicit work list never loses a pending sibling and never runs out of fuel. -/
theorem C14_classifier_spec (m : Nat → Bool) (err : E) : isAny m err = err.has m := isAny_spec m err

/-- `IsDeny` is true exactly for values that contain one of the deny sentinels of the regenerated table -/
theorem C14_isDeny_iff (e : E) : isDeny e = e.has (isTarget Facts.denyErrs) := isAny_spec _ e

/-- `IsEnd` is true exactly for values that contain ErrClosed, ErrCanceled or ErrAbandoned -/
theorem C14_isEnd_iff (e : E) : isEnd e = e.has (isTarget Facts.endErrs) := isAny_spec _ e

/-- no sentinel is both a deny and an end error (so a plain or wrapped sentinel never is IsDeny and IsEnd at once) -/
theorem C14_deny_end_tables_disjoint (id : Nat) : ¬ (isTarget Facts.denyErrs id = true ∧ isTarget Facts.endErrs id = true) := by
  unfold isTarget
  cases h : sentinelName id with
  | none => simp
  | some n =>
    intro ⟨h1, h2⟩
    have hd : Facts.denyErrs = ["errPacketMax", "errStringMax", "errUTF8", "errNull", "errZero", "errSubscribeNone", "errUnsubscribeNone"] := rfl
    have he : Facts.endErrs = ["ErrClosed", "ErrCanceled", "ErrAbandoned"] := rfl
    rw [hd] at h1; rw [he] at h2
    simp at h1 h2
    rcases h1 with rfl | rfl | rfl | rfl | rfl | rfl | rfl <;> simp at h2

/-- the classification of a wrapped chain is the classification of its innermost sentinel -/
theorem C14_wrap_transparent (m : Nat → Bool) (i : Nat) (c : E) (hi : m i = false) : isAny m (.wrap i c) = isAny m c := by
  rw [isAny_spec, isAny_spec]; simp [E.has, hi]

example : isEnd (.join 1000 (.cons (.wrap 1000 (.join 1000 (.cons (.leaf 5) (.cons (.leaf 30) .nil)))) (.cons (.wrap 1000 (.leaf 1)) .nil))) = true := by
  rw [C14_isEnd_iff]; decide

theorem mkErr_submit_contains (t : String) : (mkErr ["submit", t]).contains "submit" = true := by
  simp only [mkErr, List.foldr, insTag]
  by_cases h1 : "submit" < t
  · simp [h1]
  · by_cases h2 : ("submit" == t) = true
    · have : t = "submit" := by simpa using Eq.symm (by simpa using h2)
      subst this; simp
    · simp [h1, h2]

/-- Disconnect returns nil, ErrClosed, ErrDown, or an ErrSubmit – also when it is the Close of the connection that fails
after the DISCONNECT went out (F27). (`unsupported` is the model's own answer where it stops following.) -/
theorem C14_disconnect (s : S) :
    let e := s.disconnectNow.2
    e = errOk ∨ e = mkErr ["closed"] ∨ e = mkErr ["down"] ∨ e = mkErr ["unsupported"] ∨ e.contains "submit" = true := by
  intro e
  simp only [e]
  unfold S.disconnectNow
  cases hl : s.link with
  | pending => exact Or.inr (Or.inr (Or.inl rfl))
  | down => exact Or.inr (Or.inr (Or.inl rfl))
  | closed => exact Or.inr (Or.inl rfl)
  | live =>
    simp only
    split
    · exact Or.inr (Or.inr (Or.inr (Or.inl rfl)))
    · rcases hw : s.connWrite (writeTo · packetDISCONNECT) with ⟨s1, o⟩
      simp only
      by_cases ho : (o == WOut.ok) = true
      · simp only [ho, if_true]
        split
        · exact Or.inr (Or.inr (Or.inr (Or.inr (mkErr_submit_contains _))))
        · exact Or.inl rfl
      · simp only [ho]
        exact Or.inr (Or.inr (Or.inr (Or.inr (mkErr_submit_contains _))))

/-- REGENERATED FACT. `Client.Backoff` answers nil (no retry) for exactly the errors of one table, and that table is put together
from the deny list and the end list – the lists `IsDeny` and `IsEnd` classify with (`C14_isDeny_iff`, `C14_isEnd_iff`) – as the
extractor reads it off the source on every run: Backoff is nil exactly for the permanent classes. -/
theorem C14_fact_backoff_nil_table :
    Facts.syn_Backoff_nilTable = "denyAndEndErrs" ∧ Facts.denyAndEndErrs_parts = ["denyErrs", "endErrs"] := by decide

end Model
