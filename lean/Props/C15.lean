import Proofs.Record
/-! # C15 — stored records round-trip exactly; single-byte damage is always detected

Model: `Model.encodeValue`, `Model.decodeValue` (Model/Record.lean), tied to
mqtt.go by the regenerated facts below and by the `record` correspondence port. -/
namespace Model

/-! ## Obligations on regenerated facts (re-proved against the current source) -/

theorem C15_fact_hash : Facts.syn_encodeValue_hash = "fnv.New32a" ∧ Facts.syn_decodeValue_hash = "fnv.New32a" := by decide
theorem C15_fact_byteorder :
    Facts.syn_encodeValue_PutUint64 = "binary.LittleEndian" ∧ Facts.syn_encodeValue_PutUint32 = "binary.BigEndian" ∧
    Facts.syn_decodeValue_Uint64 = "binary.LittleEndian" ∧ Facts.syn_decodeValue_Uint32 = "binary.BigEndian" := by decide
theorem C15_fact_minlen : Facts.syn_decodeValue_minLen = "< 12" ∧ trailerLen = 12 := by decide

/-! ## Theorems -/

/-- The documented layout: packet bytes, 8-byte little-endian sequence number,
4-byte big-endian FNV-1a over both. -/
theorem C15_layout (p : Bytes) (seq : Nat) :
    encodeValue p seq = p ++ le64 seq ++ be32 (fnv1a (p ++ le64 seq)).toNat ∧
    (encodeValue p seq).length = p.length + 12 := by
  simp [encodeValue, le64_length, be32_length]

/-- Every packet and every 64-bit sequence number round-trips exactly. -/
theorem C15_roundtrip (p : Bytes) (seq : Nat) (h : seq < 2^64) :
    decodeValue (encodeValue p seq) = .ok (p, seq) := by
  have hl : (encodeValue p seq).length = p.length + 12 := (C15_layout p seq).2
  have hb : (p ++ le64 seq).length = p.length + 8 := by simp [le64_length]
  unfold decodeValue
  rw [hl]
  have e1 : (encodeValue p seq).take (p.length + 12 - 4) = p ++ le64 seq := by
    unfold encodeValue
    rw [List.take_append_of_le_length (by omega)]
    exact List.take_of_length_le (by omega)
  have e2 : (encodeValue p seq).drop (p.length + 12 - 4) = be32 (fnv1a (p ++ le64 seq)).toNat := by
    unfold encodeValue
    exact List.drop_left' (by omega)
  have e3 : (encodeValue p seq).take (p.length + 12 - 12) = p := by
    unfold encodeValue
    rw [List.append_assoc, List.take_append_of_le_length (by omega)]
    exact List.take_of_length_le (by omega)
  simp only [e1, e2, e3, trailerLen]
  rw [beNat_be32 _ (fnv1a (p ++ le64 seq)).isLt]
  have e4 : (p ++ le64 seq).drop (p.length + 12 - 12) = le64 seq := List.drop_left' (by omega)
  rw [e4]; simp [leNat_le64 seq h]

/-- A value shorter than 12 bytes is always rejected. -/
theorem C15_short_rejected (v : Bytes) (h : v.length < 12) : decodeValue v = .error .truncated := by
  simp [decodeValue, trailerLen, h]

/-- A stored value that differs from what was saved in any single byte is
reported as corrupt: every position, every one of the 255 other byte values. -/
theorem C15_single_byte_detected (p : Bytes) (seq : Nat) (i : Nat) (b : UInt8)
    (hi : i < (encodeValue p seq).length) (hb : b ≠ (encodeValue p seq)[i]) :
    decodeValue ((encodeValue p seq).set i b) = .error .corrupt := by
  have hl : (encodeValue p seq).length = p.length + 12 := (C15_layout p seq).2
  let body := p ++ le64 seq
  have hbody : body.length = p.length + 8 := by simp [body, le64_length]
  have henc : encodeValue p seq = body ++ be32 (fnv1a body).toNat := rfl
  unfold decodeValue
  rw [List.length_set, hl]
  have hnot : ¬ (p.length + 12 < trailerLen) := by simp [trailerLen]
  simp only [hnot, if_false]
  by_cases hib : i < body.length
  · -- damage inside the hashed part
    have hset : (encodeValue p seq).set i b = body.set i b ++ be32 (fnv1a body).toNat := by
      rw [henc, List.set_append_left _ _ hib]
    have hbi : b ≠ body[i] := by
      intro e; apply hb; rw [e]; simp only [henc]; rw [List.getElem_append_left hib]
    have t1 : ((encodeValue p seq).set i b).take (p.length + 12 - 4) = body.set i b := by
      rw [hset, List.take_append_of_le_length (by simp; omega)]
      exact List.take_of_length_le (by simp; omega)
    have t2 : ((encodeValue p seq).set i b).drop (p.length + 12 - 4) = be32 (fnv1a body).toNat := by
      rw [hset]; exact List.drop_left' (by simp; omega)
    rw [t1, t2, beNat_be32 _ (fnv1a body).isLt]
    have hne := fnv1a_set_ne body i b hib hbi
    have : (fnv1a (body.set i b)).toNat ≠ (fnv1a body).toNat := fun e => hne (BitVec.eq_of_toNat_eq e)
    simp [this]
  · -- damage inside the stored checksum
    have hib' : body.length ≤ i := Nat.le_of_not_lt hib
    have hset : (encodeValue p seq).set i b = body ++ (be32 (fnv1a body).toNat).set (i - body.length) b := by
      rw [henc, List.set_append_right _ _ hib']
    have hj : i - body.length < (be32 (fnv1a body).toNat).length := by simp [be32_length]; omega
    have hbj : b ≠ (be32 (fnv1a body).toNat)[i - body.length] := by
      intro e; apply hb; rw [e]; simp only [henc]; rw [List.getElem_append_right hib']
    have t1 : ((encodeValue p seq).set i b).take (p.length + 12 - 4) = body := by
      rw [hset]; exact List.take_left' (by omega)
    have t2 : ((encodeValue p seq).set i b).drop (p.length + 12 - 4) =
        (be32 (fnv1a body).toNat).set (i - body.length) b := by
      rw [hset]; exact List.drop_left' (by omega)
    rw [t1, t2]
    have hne : (be32 (fnv1a body).toNat).set (i - body.length) b ≠ be32 (fnv1a body).toNat := by
      intro e
      have := congrArg (fun l => l[i - body.length]?) e
      simp only [List.getElem?_set_self hj, List.getElem?_eq_getElem hj, Option.some.injEq] at this
      exact hbj this
    have : (fnv1a body).toNat ≠ beNat ((be32 (fnv1a body).toNat).set (i - body.length) b) := by
      intro e
      apply hne
      apply beNat4_inj _ _ (by simp [be32_length]) (be32_length _)
      rw [← e, beNat_be32 _ (fnv1a body).isLt]
    simp [this]

/-! ## Non-vacuity -/

example : decodeValue (encodeValue [0x32, 0x03, 0x00, 0x01, 0x78] 7) = .ok ([0x32, 0x03, 0x00, 0x01, 0x78], 7) :=
  C15_roundtrip _ _ (by decide)
/-- the hypotheses of `C15_single_byte_detected` are satisfiable (position 3, value 0xff) -/
example : ∃ (i : Nat) (b : UInt8) (hi : i < (encodeValue [0x32, 0x03] 1).length), b ≠ (encodeValue [0x32, 0x03] 1)[i] :=
  ⟨3, 0xff, by decide, by decide⟩
example : (2^64 - 1 : Nat) < 2^64 := by decide

/-- Two different (packet, sequence number) pairs never share a stored value: what a record says is determined by its bytes. -/
theorem C15_encode_injective (p p' : Bytes) (s s' : Nat) (h : s < 2^64) (h' : s' < 2^64)
    (he : encodeValue p s = encodeValue p' s') : p = p' ∧ s = s' := by
  have h1 := C15_roundtrip p s h
  rw [he, C15_roundtrip p' s' h'] at h1
  cases h1; exact ⟨rfl, rfl⟩
example : encodeValue [0x32] 1 ≠ encodeValue [0x32] 2 := by decide

/-- Nothing but an encoding is accepted: a value that passes `decodeValue` as (packet, seq) is byte for byte
`encodeValue packet seq` — the converse of the round trip. -/
theorem C15_accepted_is_encoding (v p : Bytes) (s : Nat) (h : decodeValue v = .ok (p, s)) :
    v = encodeValue p s ∧ s < 2^64 := by
  unfold decodeValue at h
  by_cases hl : v.length < trailerLen
  · simp [hl] at h
  · simp only [hl, if_false] at h
    have hl' : 12 ≤ v.length := by unfold trailerLen at hl; omega
    split at h
    · cases h
    · rename_i hsum
      simp only [Except.ok.injEq, Prod.mk.injEq] at h
      obtain ⟨hp, hs⟩ := h
      have hsum' : (fnv1a (v.take (v.length - 4))).toNat = beNat (v.drop (v.length - 4)) := by
        simpa using hsum
      have hmid : ((v.take (v.length - 4)).drop (v.length - 12)).length = 8 := by
        simp only [List.length_drop, List.length_take]; omega
      have hle : le64 s = (v.take (v.length - 4)).drop (v.length - 12) := by rw [← hs]; exact le64_leNat _ hmid
      have hbody : v.take (v.length - 4) = p ++ le64 s := by
        rw [hle, ← hp]
        have : v.take (v.length - 12) = (v.take (v.length - 4)).take (v.length - 12) := by
          rw [List.take_take]; congr 1; omega
        rw [this, List.take_append_drop]
      have hsuml : (v.drop (v.length - 4)).length = 4 := by simp only [List.length_drop]; omega
      refine ⟨?_, ?_⟩
      · unfold encodeValue
        simp only
        rw [← hbody, hsum', be32_beNat _ hsuml, List.take_append_drop]
      · rw [← hs]
        have := leNat_lt ((v.take (v.length - 4)).drop (v.length - 12))
        rw [hmid] at this
        exact this

example : decodeValue (encodeValue [0x32, 0x03] 5) = .ok ([0x32, 0x03], 5) := C15_roundtrip _ _ (by decide)

end Model
