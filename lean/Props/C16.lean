import Proofs.Adopt
import Props.C01
/-! # C16 — a damaged Persistence never bricks the session

Model: `Model.adopt` (AdoptSession as a total function on an *arbitrary*
store: any keys, any bytes) and `Core.ofAdopted` (the client it returns). -/
namespace Model

/-- `cleanSequence` returns a contiguous run for every input, and leaves a contiguous input alone without warnings. -/
theorem C16_cleanSequence (keys : List Nat) :
    Contig (cleanSeq keys).1 ∧ (Contig keys → cleanSeq keys = (keys, [])) :=
  ⟨cleanSeq_contig keys, cleanSeq_id keys⟩

/-- For any store whatsoever — records altered, truncated, removed, stray
entries, several generations — when `AdoptSession` does not refuse on the
configured limits, the counters it reconstructs satisfy the client's invariant:
`Acked ≤ acceptN`, `Completed ≤ Received ≤ acceptN`, the queue lengths equal the
in-flight windows and respect the limits. In particular every sequence number
`resend` will ask for lies inside the adopted key lists (no hole is spanned). -/
theorem C16_adopt_inv (store : Store) (m1 m2 : Int) (df : Nat → Bool) (a : Adopted)
    (h : adopt store m1 m2 df = .ok a) (q1 q2 : List Nat)
    (hq1 : q1.length = a.alo.length) (hq2 : q2.length = a.eo.length + a.rel.length) :
    (Core.ofAdopted a m1 m2 q1 q2).Inv := by
  obtain ⟨ca, ce, cr, l1, l2, hctr, hlink⟩ := adopt_lists store m1 m2 df a h
  have hn1 : normMax m1 ≤ idMod := by
    unfold normMax idMod; split <;> simp [Facts.publishIDMask] at * <;> omega
  have hn2 : normMax m2 ≤ idMod := by
    unfold normMax idMod; split <;> simp [Facts.publishIDMask] at * <;> omega
  -- level 1
  have L1 : a.ctr.accept1 - a.ctr.acked = a.alo.length ∧ a.ctr.acked ≤ a.ctr.accept1 := by
    rw [hctr]
    simp only [reconstruct]
    by_cases h0 : 0 < a.alo.length
    · obtain ⟨e1, e2⟩ := recon1_exact a.alo ca h0 (by omega)
      rw [e1, e2]; omega
    · have : a.alo = [] := by cases hh : a.alo <;> simp_all
      rw [this, recon1_nil]; simp
  -- level 2
  have L2 : a.ctr.completed ≤ a.ctr.received ∧ a.ctr.received ≤ a.ctr.accept2 ∧
      a.ctr.accept2 - a.ctr.completed = a.eo.length + a.rel.length := by
    rw [hctr]
    simp only [reconstruct]
    have hm : idMod = 16384 := rfl
    by_cases hr : 0 < a.rel.length
    · obtain ⟨e1, e2⟩ := recon2cr_rel a.eo a.rel cr hr (by omega)
      have hc0 := Nat.mod_lt a.rel[0] (show idMod > 0 by decide)
      by_cases he : 0 < a.eo.length
      · have hk := hlink _ _ (getLast?_eq a.rel hr) (head?_eq a.eo he)
        have hk' := (consecutive_iff _ _).mp hk
        have hlast := cr.get_mod (a.rel.length - 1) (by omega) hr
        have hstart : a.eo[0] % idMod = (recon2cr a.eo a.rel).2 % idMod := by
          rw [e2]; simp only [hm] at hk' hlast ⊢; omega
        have e3 := recon2a_exact a.eo (recon2cr a.eo a.rel).2 ce he hstart (by rw [e2]; omega)
          (by rw [e2]; simp only [hm] at hc0 ⊢; omega) (by omega)
        rw [e3, e1, e2]; omega
      · have he0 : a.eo = [] := by cases hh : a.eo <;> simp_all
        obtain ⟨e1', e2'⟩ := recon2cr_rel [] a.rel cr hr (by omega)
        rw [he0, recon2a_nil, e1', e2']; simp
    · have hr0 : a.rel = [] := by cases hh : a.rel <;> simp_all
      have l2' : a.eo.length ≤ normMax m2 := by rw [hr0] at l2; simpa using l2
      rw [hr0]
      by_cases he : 0 < a.eo.length
      · obtain ⟨e1, e2⟩ := recon2cr_norel a.eo he
        have hc0 := Nat.mod_lt a.eo[0] (show idMod > 0 by decide)
        have e3 := recon2a_exact a.eo (recon2cr a.eo []).2 ce he (by rw [e2, Nat.mod_mod]) (by rw [e2]; omega)
          (by rw [e2]; simp only [hm] at hc0 hn2 ⊢; omega) (by omega)
        rw [e3, e1, e2]; simp
      · have : a.eo = [] := by cases hh : a.eo <;> simp_all
        rw [this]; simp [recon2cr, recon2a]
  refine ⟨⟨?_, ?_, ?_, ?_, ?_, ?_, ?_⟩, ⟨?_, ?_, ?_, ?_, ?_, ?_, ?_⟩, ?_, ?_, rfl, rfl⟩ <;>
    simp only [Core.ofAdopted] <;> first | omega | (intro _; omega) | (intro hc; cases hc) | skip
  all_goals first | exact Nat.le_refl _ | exact hn1 | exact hn2 | omega

/-- The adopted client accepts new publishes without identifier collisions:
the invariant gives a window below 2^14, hence `C17_new_id_fresh` applies. -/
theorem C16_no_collision_after_adopt (store : Store) (m1 m2 : Int) (df : Nat → Bool) (a : Adopted)
    (h : adopt store m1 m2 df = .ok a) (q1 q2 : List Nat)
    (hq1 : q1.length = a.alo.length) (hq2 : q2.length = a.eo.length + a.rel.length) (ops : List COp) :
    ((Core.ofAdopted a m1 m2 q1 q2).run ops).Inv :=
  Core.run_inv _ (C16_adopt_inv store m1 m2 df a h q1 q2 hq1 hq2) ops

/-- A record that fails the integrity check is never adopted, and it never passes unnoticed: `decodeValue` errors lead
to the delete-and-warn branch, the key joins none of the lists. This holds for every record but the client identifier:
outbound records and the markers of the receive side alike (F15). -/
theorem C16_corrupt_never_classified (df : Nat → Bool) (key : Nat) (rest : List Nat) (c : Classified) (raw : Bytes)
    (hk : (key == Facts.clientIDKey) = false)
    (hget : c.store.get key = some raw) (hbad : ∃ e, decodeValue raw = .error e) :
    classify df (key :: rest) c =
      (if df key then classify df rest { c with warns := c.warns ++ [.corruptKept key] }
       else classify df rest { c with store := c.store.erase key, warns := c.warns ++ [.corruptDeleted key] }) := by
  obtain ⟨e, he⟩ := hbad
  rw [classify]
  simp only [hk, Bool.false_eq_true, if_false, hget, he]

/-- warnings only grow along the classification -/
theorem classify_warns_mono (df : Nat → Bool) (keys : List Nat) (c : Classified) (w : Warn) (h : w ∈ c.warns) :
    w ∈ (classify df keys c).warns := by
  induction keys generalizing c with
  | nil => simpa [classify] using h
  | cons key rest ih =>
    rw [classify]
    repeat' (first | split | dsimp only)
    all_goals first
      | exact ih _ h
      | exact ih _ (by simp [h])
      | exact h

/-- Every listed record (but the identifier) that fails the integrity check is named in a warning, wherever it stands in
the listing and whatever else is damaged - unless the scan stops at an intact record without content (which the real
code turns into a panic; that needs a forged checksum, outside the property). -/
theorem C16_every_corrupt_record_warned (df : Nat → Bool) (keys : List Nat) (key : Nat) (raw : Bytes)
    (hk : (key == Facts.clientIDKey) = false) (hbad : ∃ e, decodeValue raw = .error e) :
    ∀ (c : Classified), key ∈ keys → keys.Nodup → c.store.get key = some raw →
      (classify df keys c).panic = true ∨
      Warn.corruptDeleted key ∈ (classify df keys c).warns ∨ Warn.corruptKept key ∈ (classify df keys c).warns := by
  induction keys with
  | nil => intro c h; simp at h
  | cons k rest ih =>
    intro c hmem hnd hget
    have hnd' := List.nodup_cons.mp hnd
    rcases List.mem_cons.mp hmem with h | h
    · subst h
      rw [C16_corrupt_never_classified df key rest c raw hk hget hbad]
      right
      split
      · exact Or.inr (classify_warns_mono _ _ _ _ (by simp))
      · exact Or.inl (classify_warns_mono _ _ _ _ (by simp))
    · have hne : key ≠ k := fun e => hnd'.1 (e ▸ h)
      rw [classify]
      repeat' (first | split | dsimp only)
      all_goals first
        | exact ih _ h hnd'.2 hget
        | exact ih _ h hnd'.2 (by show (c.store.erase k).get key = some raw; rw [Store.get_erase_other _ hne]; exact hget)
        | exact Or.inl rfl

/-- Known finding F15b, stated on the model: the record of the client identifier is passed over whatever it holds, so
`C16_every_corrupt_record_warned` cannot be extended to it (its hypothesis `key ≠ clientIDKey` is needed). -/
theorem C16_known_F15b_identifier_unchecked (df : Nat → Bool) (rest : List Nat) (c : Classified) :
    classify df (Facts.clientIDKey :: rest) c = classify df rest c := by
  rw [classify]; simp

/-! ## Non-vacuity: F10's store (PUBREL, hole, PUBLISH) and a wrapped window -/
example : (cleanSeq [0xc000, 0xc002]).1 = [0xc002] := by decide
example : Contig [0xffff, 0xc000, 0xc001] := ⟨by decide, by decide, trivial⟩

end Model
