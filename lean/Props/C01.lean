import Proofs.CoreDrain
import Props.C15
/-! # C01 — accepted QoS≥1 publishes are retransmitted until acknowledged, never lost

Model: `Model.Core` as a transition system over `COp` (every Persistence fault
is an argument of an operation, so "for every fault sequence" is "for every
operation list"); `Model.Session` performs exactly these operations, emits the
wire/persistence events, and is compared with the real client on every run. -/
namespace Model

/-- Every state reachable by any sequence of publishes, acknowledgements (legal
or not), resends, Persistence faults and shutdown satisfies the counter and the
record invariants. -/
theorem C01_reachable (store : Store) (seqNo : Nat) (m1 m2 : Int) (ops : List COp) (hwf : ∀ op ∈ ops, op.wf) :
    ((Core.fresh store seqNo m1 m2).run ops).Inv ∧ ((Core.fresh store seqNo m1 m2).run ops).StoreInv :=
  Core.run_storeInv _ (Core.fresh_inv store seqNo m1 m2) (Core.fresh_storeInv store seqNo m1 m2) ops hwf

/-- Until the final acknowledgement is applied, the record of every accepted
message is in the Persistence: a PUBLISH record for each at-least-once message
not yet acknowledged, and for each exactly-once message a PUBLISH record before
and a PUBREL record after its PUBREC. This is what `resend` loads on the next
connection, so the transfer is retransmitted on every connection until then. -/
theorem C01_record_until_final_ack (store : Store) (seqNo : Nat) (m1 m2 : Int) (ops : List COp)
    (hwf : ∀ op ∈ ops, op.wf) :
    let c := (Core.fresh store seqNo m1 m2).run ops
    (∀ n, c.acked ≤ n → n < c.l1.acceptN → Holds c.store (key1 n) isPublish) ∧
    (∀ n, c.received ≤ n → n < c.l2.acceptN → Holds c.store (key2 n) isPublish) ∧
    (∀ n, c.completed ≤ n → n < c.received → Holds c.store (key2 n) (· = relPacket (key2 n))) := by
  intro c
  have h := (C01_reachable store seqNo m1 m2 ops hwf).2
  exact ⟨h.s1, h.s2, h.rel⟩

/-- A stored value written for packet `p` is loaded back as exactly `p` (for
storage sequence numbers below 2^64, assumption A-ovf). -/
theorem C01_record_loads (c : Core) (k : Nat) (p : Bytes) (seq : Nat) (hseq : seq < 2^64)
    (h : c.store.get k = some (encodeValue p seq)) : c.load k = .ok (some p) := by
  unfold Core.load
  simp only [h, C15_roundtrip p seq hseq]
  rfl

/-- A record leaves the Persistence only through the in-order final
acknowledgement the protocol defines for it: no other operation (no fault, no
illegal acknowledgement, no publish, no resend, no shutdown) removes it. -/
theorem C01_delete_only_by_final_ack (c : Core) (op : COp) (k : Nat)
    (hpre : (c.store.get k).isSome) (hpost : (c.step op).store.get k = none) :
    (∃ f, op = .puback k f ∧ c.pubackCheck k = .ok) ∨ (∃ f, op = .pubcomp k f ∧ c.pubcompCheck k = .ok) := by
  cases op with
  | accept lvl pk f ex =>
    exfalso
    have := Core.accept_keeps c lvl pk f ex k hpre
    simp only [Core.step] at hpost
    rw [hpost] at this
    simp at this
  | submitted lvl =>
    exfalso; simp only [Core.step, Core.markSubmitted, Core.setLv] at hpost
    split at hpost <;> (rw [hpost] at hpre; simp at hpre)
  | resent lvl n =>
    exfalso; simp only [Core.step, Core.setLv] at hpost
    repeat' split at hpost
    all_goals (rw [hpost] at hpre; simp at hpre)
  | puback id f =>
    simp only [Core.step] at hpost
    split at hpost
    · rename_i hck
      unfold Core.puback Core.delete at hpost
      cases f with
      | true => simp at hpost; rw [hpost] at hpre; simp at hpre
      | false =>
        simp at hpost
        by_cases hk : k = id
        · subst hk; exact Or.inl ⟨false, rfl, hck⟩
        · rw [Store.get_erase_other _ hk] at hpost; rw [hpost] at hpre; simp at hpre
    · rw [hpost] at hpre; simp at hpre
  | pubrec id f =>
    exfalso
    simp only [Core.step] at hpost
    split at hpost
    · unfold Core.pubrec Core.save at hpost
      cases f with
      | true => simp at hpost; rw [hpost] at hpre; simp at hpre
      | false =>
        simp at hpost
        by_cases hk : k = id
        · subst hk; simp [Store.get_put_same] at hpost
        · rw [Store.get_put_other _ _ hk] at hpost; rw [hpost] at hpre; simp at hpre
    · rw [hpost] at hpre; simp at hpre
  | pubcomp id f =>
    simp only [Core.step] at hpost
    split at hpost
    · rename_i hck
      unfold Core.pubcomp Core.delete at hpost
      cases f with
      | true => simp at hpost; rw [hpost] at hpre; simp at hpre
      | false =>
        simp at hpost
        by_cases hk : k = id
        · subst hk; exact Or.inr ⟨false, rfl, hck⟩
        · rw [Store.get_erase_other _ hk] at hpost; rw [hpost] at hpre; simp at hpre
    · rw [hpost] at hpre; simp at hpre
  | term => exfalso; simp only [Core.step, Core.term] at hpost; rw [hpost] at hpre; simp at hpre

/-- The exchange channel of a message is closed only together with the removal
of its record, i.e. by the final acknowledgement: the queue head is popped by
`puback`/`pubcomp` only, in the same step that deletes the record. -/
theorem C01_close_only_with_delete (c : Core) (id : Nat) :
    ((c.puback id true).2 = none ∧ (c.puback id true).1.l1.queue = c.l1.queue ∧ (c.puback id true).1.acked = c.acked) ∧
    ((c.puback id false).1.store = c.store.erase id ∧ (c.puback id false).2 = c.l1.queue.head?) := by
  unfold Core.puback Core.delete
  simp

/-- Liveness, as a terminating function instead of a temporal formula: from
every reachable state of a client that was not shut down, once the broker's
in-order acknowledgements arrive (`d1`: PUBACK for each at-least-once message;
`d2`: PUBREC and `d3`: PUBCOMP for each exactly-once message) nothing remains
pending. -/
theorem C01_drain (c d1 d2 d3 : Core) (h : c.Inv) (hc1 : c.l1.seqClosed = false) (hc2 : c.l2.seqClosed = false)
    (e1 : d1 = Core.drain1 (c.l1.acceptN - c.acked) c)
    (e2 : d2 = Core.drainRec (d1.l2.acceptN - d1.received) d1)
    (e3 : d3 = Core.drainComp (d2.received - d2.completed) d2) :
    d1.acked = c.l1.acceptN ∧ d3.received = c.l2.acceptN ∧ d3.completed = c.l2.acceptN := by
  obtain ⟨a1, a2, a3⟩ := Core.drain1_spec (c.l1.acceptN - c.acked) c h hc1 (by have := h.l1.lo_le; omega)
  obtain ⟨b1, b2, b3⟩ := Core.drain1_frame2 (c.l1.acceptN - c.acked) c
  rw [← e1] at a1 a2 a3 b1 b2 b3
  have hd1cl : d1.l2.seqClosed = false := by rw [b1]; exact hc2
  have hr : d1.received ≤ d1.l2.acceptN := a3.rec_hi
  obtain ⟨r1, r2, r3, r4⟩ := Core.drainRec_spec (d1.l2.acceptN - d1.received) d1 a3 hd1cl (by omega)
  rw [← e2] at r1 r2 r3 r4
  have hd2cl : d2.l2.seqClosed = false := by rw [r2]; exact hd1cl
  have hlo : d2.completed ≤ d2.received := r4.rec_lo
  obtain ⟨c1, c2, c3, _⟩ := Core.drainComp_spec (d2.received - d2.completed) d2 r4 hd2cl (by omega)
  rw [← e3] at c1 c2 c3
  exact ⟨a1, by rw [c2, r1, b1], by rw [c1, r1, b1]⟩

/-! ## Non-vacuity -/

example : COp.wf (.accept 1 (fun k => [0x32, 0x05, 0x00, 0x01, 0x78] ++ be16 k) false 0) := by
  intro k; exact ⟨0x32, _, rfl, by decide⟩
example : ((Core.fresh [] 1 8 8).run [.accept 1 (fun k => [0x32] ++ be16 k) false 0, .accept 2 (fun k => [0x34] ++ be16 k) false 1,
    .puback 0x8000 false, .pubrec 0xc000 false]).received = 1 := by decide

end Model
