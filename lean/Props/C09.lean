import Proofs.Codec
/-! # C09 — emitted packets decode to the request; invalid arguments are denied

Model: `Model.Compose` (the client's composers, transcribed from request.go /
client.go) against `Model.Packet` (reference decoder written from the MQTT
3.1.1 tables). Tied to the source by regenerated constants and by the `pure`
and `session` correspondence ports. -/
namespace Model

/-! ## Obligations on regenerated facts -/

theorem C09_fact_limits : Facts.packetMax = 2^28 - 1 ∧ Facts.stringMax = 2^16 - 1 := by decide
theorem C09_fact_types :
    [Facts.typeCONNECT, Facts.typeCONNACK, Facts.typePUBLISH, Facts.typePUBACK, Facts.typePUBREC, Facts.typePUBREL,
     Facts.typePUBCOMP, Facts.typeSUBSCRIBE, Facts.typeSUBACK, Facts.typeUNSUBSCRIBE, Facts.typeUNSUBACK,
     Facts.typePINGREQ, Facts.typePINGRESP, Facts.typeDISCONNECT] = [1, 2, 3, 4, 5, 6, 7, 8, 9, 10, 11, 12, 13, 14] := by decide
theorem C09_fact_flags : Facts.dupeFlag = 8 ∧ Facts.retainFlag = 1 ∧
    Facts.atMostOnceLevel = 0 ∧ Facts.atLeastOnceLevel = 1 ∧ Facts.exactlyOnceLevel = 2 := by decide
theorem C09_fact_deny_table :
    Facts.denyErrs = ["errPacketMax", "errStringMax", "errUTF8", "errNull", "errZero", "errSubscribeNone", "errUnsubscribeNone"] := by decide

/-! ## Deny rules, stated declaratively -/

/-- A string is refused exactly when it is too long, ill-formed UTF-8 or contains U+0000. -/
theorem C09_stringCheck_iff (s : Bytes) :
    (stringCheck s).isSome ↔ (s.length > 65535 ∨ utf8Valid s = false ∨ (0 : UInt8) ∈ s) := by
  have : Facts.stringMax = 65535 := rfl
  unfold stringCheck
  rw [this]
  by_cases h1 : s.length > 65535 <;> by_cases h2 : utf8Valid s <;> by_cases h3 : (0 : UInt8) ∈ s <;> simp [h1, h2, h3]

/-- A topic or filter is refused exactly when it is empty or an illegal string. -/
theorem C09_topicCheck_iff (s : Bytes) :
    (topicCheck s).isSome ↔ (s = [] ∨ s.length > 65535 ∨ utf8Valid s = false ∨ (0 : UInt8) ∈ s) := by
  unfold topicCheck
  cases s with
  | nil => simp
  | cons a t => simpa using C09_stringCheck_iff (a :: t)

theorem topicCheck_none {s : Bytes} (h : topicCheck s = none) :
    s ≠ [] ∧ s.length ≤ 65535 ∧ utf8Valid s = true ∧ s.contains 0 = false := by
  have key := C09_topicCheck_iff s
  rw [h] at key
  simp only [Option.isSome_none, Bool.false_eq_true, false_iff, not_or] at key
  obtain ⟨a, b, c, d⟩ := key
  refine ⟨a, by omega, by simpa using c, by simpa using d⟩

/-- PUBLISH is refused exactly for an illegal topic or an over-size packet; no valid argument is refused. -/
theorem C09_publish_deny_iff (head : UInt8) (topic : Bytes) (pid msgLen : Nat) :
    (∃ d, publishHead head topic pid msgLen = .error d) ↔
      ((topicCheck topic).isSome ∨ 2 + topic.length + msgLen + (if pid ≠ 0 then 2 else 0) > 268435455) := by
  have : Facts.packetMax = 268435455 := rfl
  unfold publishHead
  rw [this]
  cases h : topicCheck topic with
  | some d => simp
  | none =>
    simp only [Option.isSome_none, Bool.false_eq_true, false_or]
    generalize 2 + topic.length + msgLen + (if pid ≠ 0 then 2 else 0) = size
    by_cases hs : size > 268435455
    · simp [hs]
    · simp [hs]

/-- SUBSCRIBE is refused exactly when there is no filter, an illegal filter or the packet is over-size. -/
theorem C09_subscribe_deny_iff (fs : List Bytes) :
    (subscribeDeny fs).isSome ↔
      (fs = [] ∨ (firstDeny fs).isSome ∨ 2 + fs.length * 3 + totalLen fs > 268435455) := by
  have : Facts.packetMax = 268435455 := rfl
  unfold subscribeDeny
  rw [this]
  cases fs with
  | nil => simp
  | cons f r =>
    cases h : firstDeny (f :: r) with
    | some d => simp
    | none => by_cases hs : 2 + (f :: r).length * 3 + totalLen (f :: r) > 268435455 <;> simp

theorem C09_unsubscribe_deny_iff (fs : List Bytes) :
    (unsubscribeDeny fs).isSome ↔
      (fs = [] ∨ (firstDeny fs).isSome ∨ 2 + fs.length * 2 + totalLen fs > 268435455) := by
  have : Facts.packetMax = 268435455 := rfl
  unfold unsubscribeDeny
  rw [this]
  cases fs with
  | nil => simp
  | cons f r =>
    cases h : firstDeny (f :: r) with
    | some d => simp
    | none => by_cases hs : 2 + (f :: r).length * 2 + totalLen (f :: r) > 268435455 <;> simp

/-- `firstDeny` refuses exactly when some filter is refused. -/
theorem C09_firstDeny_iff (fs : List Bytes) : (firstDeny fs).isSome ↔ ∃ f ∈ fs, (topicCheck f).isSome := by
  induction fs with
  | nil => simp [firstDeny]
  | cons f r ih =>
    unfold firstDeny
    cases h : topicCheck f with
    | some d => simp [h]
    | none => simp [h, ih]

/-! ## Round trips through the reference decoder -/

/-- Remaining length: decoded exactly, at most four bytes, for every size up to the limit. -/
theorem C09_varint (n : Nat) (r : Bytes) (h : n ≤ Facts.packetMax) :
    decodeVarint (encodeVarint n ++ r) = some (n, r) ∧ (encodeVarint n).length ≤ 4 :=
  decodeVarint_encodeVarint n r h

/-- Every PUBLISH the client composes (all levels, retain or not, any topic that
passes the check, any payload within the packet limit) decodes to exactly the
requested fields, with DUP clear. -/
theorem C09_publish_roundtrip (qos : Nat) (retain : Bool) (topic msg : Bytes) (pid : Nat)
    (hpid : (qos = 0 ∧ pid = 0) ∨ ((qos = 1 ∨ qos = 2) ∧ 0 < pid ∧ pid < 65536))
    (ht : topicCheck topic = none)
    (hs : 2 + topic.length + msg.length + (if pid ≠ 0 then 2 else 0) ≤ Facts.packetMax) :
    ∃ bs, publishPacket (UInt8.ofNat (48 + qos * 2 + retain.toNat)) topic pid msg = .ok bs ∧
      decodePacket bs = some (.publish false qos retain topic (if qos = 0 then none else some pid) msg, []) := by
  obtain ⟨hne, hlen, hv, hn⟩ := topicCheck_none ht
  have hp : Facts.packetMax = 268435455 := rfl
  have hnot : ¬ (2 + topic.length + msg.length + (if pid ≠ 0 then 2 else 0) > Facts.packetMax) := by omega
  simp only [publishPacket, publishHead, ht, hnot, if_false, Except.map]
  refine ⟨_, rfl, ?_⟩
  let body := strField topic ++ (if pid ≠ 0 then be16 pid else []) ++ msg
  have hbl : body.length = 2 + topic.length + msg.length + (if pid ≠ 0 then 2 else 0) := by
    simp only [body, List.length_append, strField_length]
    split <;> simp [be16_length] <;> omega
  have hframe := splitFrame_compose (UInt8.ofNat (48 + qos * 2 + retain.toNat)) body [] (by omega)
  rw [hbl] at hframe
  have hshape : [UInt8.ofNat (48 + qos * 2 + retain.toNat)] ++ encodeVarint (2 + topic.length + msg.length + (if pid ≠ 0 then 2 else 0))
      ++ strField topic ++ (if pid ≠ 0 then be16 pid else []) ++ msg
      = [UInt8.ofNat (48 + qos * 2 + retain.toNat)] ++ encodeVarint (2 + topic.length + msg.length + (if pid ≠ 0 then 2 else 0)) ++ body ++ [] := by
    simp [body]
  rw [decodePacket, hshape, hframe]
  have htopic : topic.isEmpty = false := by cases topic <;> simp_all
  rcases hpid with ⟨rfl, rfl⟩ | ⟨hq, h0, h1⟩
  · cases retain <;>
      simp [parseBody, body, takeUtf8_strField topic _ hlen hv hn, htopic]
  · have hpne : pid ≠ 0 := by omega
    rcases hq with rfl | rfl <;> cases retain <;>
      simp [parseBody, body, hpne, takeUtf8_strField topic _ hlen hv hn, htopic, takeId_be16 pid msg h0 h1]

/-- The four acknowledgement packets decode to their identifier. -/
theorem C09_ack_roundtrip (pid : Nat) (h0 : 0 < pid) (h1 : pid < 65536) :
    decodePacket (ackPacket Facts.typePUBACK 0 pid) = some (.puback pid, []) ∧
    decodePacket (ackPacket Facts.typePUBREC 0 pid) = some (.pubrec pid, []) ∧
    decodePacket (ackPacket Facts.typePUBREL 2 pid) = some (.pubrel pid, []) ∧
    decodePacket (ackPacket Facts.typePUBCOMP 0 pid) = some (.pubcomp pid, []) := by
  have hid := takeId_be16 pid [] h0 h1
  simp only [List.append_nil, be16] at hid
  refine ⟨?_, ?_, ?_, ?_⟩ <;>
    simp [decodePacket, ackPacket, splitFrame, decodeVarint, decodeVarintAux, Facts.typePUBACK, Facts.typePUBREC,
      Facts.typePUBREL, Facts.typePUBCOMP, be16, parseBody, hid]

/-- PINGREQ and DISCONNECT are well-formed. -/
theorem C09_fixed :
    decodePacket packetPINGREQ = some (.pingreq, []) ∧ decodePacket packetDISCONNECT = some (.disconnect, []) := by
  decide

/-! ## Non-vacuity -/

example : topicCheck [0x61, 0x2f, 0x62] = none := by decide
example : (C09_topicCheck_iff [0x61, 0x00]).mp (by decide) = (C09_topicCheck_iff [0x61, 0x00]).mp (by decide) := rfl
example : decodePacket [0x32, 0x07, 0x00, 0x01, 0x78, 0x80, 0x00, 0x68, 0x69]
    = some (.publish false 1 false [0x78] (some 32768) [0x68, 0x69], []) := by decide

end Model
