import Proofs.Codec
import Generated.Facts
/-! # C09 — emitted packets decode to the request; invalid arguments are denied

Model: `Model.Compose` (the client's composers, transcribed from request.go /
client.go) against `Model.Packet` (reference decoder written from the MQTT
3.1.1 tables). Tied to the source by regenerated constants and by the `pure`
and `session` correspondence ports. -/
namespace Model

/-! ## Obligations on regenerated facts -/

theorem C09_fact_limits : Facts.packetMax = 2^28 - 1 ∧ Facts.stringMax = 2^16 - 1 := by decide
theorem C09_fact_types :
    [Facts.typeCONNECT, Facts.typeCONNACK, Facts.typePUBLISH, Facts.typePUBACK, Facts.typePUBREC, Facts.typePUBREL,
     Facts.typePUBCOMP, Facts.typeSUBSCRIBE, Facts.typeSUBACK, Facts.typeUNSUBSCRIBE, Facts.typeUNSUBACK,
     Facts.typePINGREQ, Facts.typePINGRESP, Facts.typeDISCONNECT] = [1, 2, 3, 4, 5, 6, 7, 8, 9, 10, 11, 12, 13, 14] := by decide
theorem C09_fact_flags : Facts.dupeFlag = 8 ∧ Facts.retainFlag = 1 ∧
    Facts.atMostOnceLevel = 0 ∧ Facts.atLeastOnceLevel = 1 ∧ Facts.exactlyOnceLevel = 2 := by decide
theorem C09_fact_deny_table :
    Facts.denyErrs = ["errPacketMax", "errStringMax", "errUTF8", "errNull", "errZero", "errSubscribeNone", "errUnsubscribeNone"] := by decide

/-! ## Deny rules, stated declaratively -/

/-- A string is refused exactly when it is too long, ill-formed UTF-8 or contains U+0000. -/
theorem C09_stringCheck_iff (s : Bytes) :
    (stringCheck s).isSome ↔ (s.length > 65535 ∨ utf8Valid s = false ∨ (0 : UInt8) ∈ s) := by
  have : Facts.stringMax = 65535 := rfl
  unfold stringCheck
  rw [this]
  by_cases h1 : s.length > 65535 <;> by_cases h2 : utf8Valid s <;> by_cases h3 : (0 : UInt8) ∈ s <;> simp [h1, h2, h3]

/-- A topic or filter is refused exactly when it is empty or an illegal string. -/
theorem C09_topicCheck_iff (s : Bytes) :
    (topicCheck s).isSome ↔ (s = [] ∨ s.length > 65535 ∨ utf8Valid s = false ∨ (0 : UInt8) ∈ s) := by
  unfold topicCheck
  cases s with
  | nil => simp
  | cons a t => simpa using C09_stringCheck_iff (a :: t)

theorem topicCheck_none {s : Bytes} (h : topicCheck s = none) :
    s ≠ [] ∧ s.length ≤ 65535 ∧ utf8Valid s = true ∧ s.contains 0 = false := by
  have key := C09_topicCheck_iff s
  rw [h] at key
  simp only [Option.isSome_none, Bool.false_eq_true, false_iff, not_or] at key
  obtain ⟨a, b, c, d⟩ := key
  refine ⟨a, by omega, by simpa using c, by simpa using d⟩

/-- PUBLISH is refused exactly for an illegal topic or an over-size packet; no valid argument is refused. -/
theorem C09_publish_deny_iff (head : UInt8) (topic : Bytes) (pid msgLen : Nat) :
    (∃ d, publishHead head topic pid msgLen = .error d) ↔
      ((topicCheck topic).isSome ∨ 2 + topic.length + msgLen + (if pid ≠ 0 then 2 else 0) > 268435455) := by
  have : Facts.packetMax = 268435455 := rfl
  unfold publishHead
  rw [this]
  cases h : topicCheck topic with
  | some d => simp
  | none =>
    simp only [Option.isSome_none, Bool.false_eq_true, false_or]
    generalize 2 + topic.length + msgLen + (if pid ≠ 0 then 2 else 0) = size
    by_cases hs : size > 268435455
    · simp [hs]
    · simp [hs]

/-- SUBSCRIBE is refused exactly when there is no filter, an illegal filter or the packet is over-size. -/
theorem C09_subscribe_deny_iff (fs : List Bytes) :
    (subscribeDeny fs).isSome ↔
      (fs = [] ∨ (firstDeny fs).isSome ∨ 2 + fs.length * 3 + totalLen fs > 268435455) := by
  have : Facts.packetMax = 268435455 := rfl
  unfold subscribeDeny
  rw [this]
  cases fs with
  | nil => simp
  | cons f r =>
    cases h : firstDeny (f :: r) with
    | some d => simp
    | none => by_cases hs : 2 + (f :: r).length * 3 + totalLen (f :: r) > 268435455 <;> simp

theorem C09_unsubscribe_deny_iff (fs : List Bytes) :
    (unsubscribeDeny fs).isSome ↔
      (fs = [] ∨ (firstDeny fs).isSome ∨ 2 + fs.length * 2 + totalLen fs > 268435455) := by
  have : Facts.packetMax = 268435455 := rfl
  unfold unsubscribeDeny
  rw [this]
  cases fs with
  | nil => simp
  | cons f r =>
    cases h : firstDeny (f :: r) with
    | some d => simp
    | none => by_cases hs : 2 + (f :: r).length * 2 + totalLen (f :: r) > 268435455 <;> simp

/-- `firstDeny` refuses exactly when some filter is refused. -/
theorem C09_firstDeny_iff (fs : List Bytes) : (firstDeny fs).isSome ↔ ∃ f ∈ fs, (topicCheck f).isSome := by
  induction fs with
  | nil => simp [firstDeny]
  | cons f r ih =>
    unfold firstDeny
    cases h : topicCheck f with
    | some d => simp [h]
    | none => simp [h, ih]

/-! ## Round trips through the reference decoder -/

/-- Remaining length: decoded exactly, at most four bytes, for every size up to the limit. -/
theorem C09_varint (n : Nat) (r : Bytes) (h : n ≤ Facts.packetMax) :
    decodeVarint (encodeVarint n ++ r) = some (n, r) ∧ (encodeVarint n).length ≤ 4 :=
  decodeVarint_encodeVarint n r h

/-- Every PUBLISH the client composes (all levels, retain or not, any topic that
passes the check, any payload within the packet limit) decodes to exactly the
requested fields, with DUP clear. -/
theorem C09_publish_roundtrip (qos : Nat) (retain : Bool) (topic msg : Bytes) (pid : Nat)
    (hpid : (qos = 0 ∧ pid = 0) ∨ ((qos = 1 ∨ qos = 2) ∧ 0 < pid ∧ pid < 65536))
    (ht : topicCheck topic = none)
    (hs : 2 + topic.length + msg.length + (if pid ≠ 0 then 2 else 0) ≤ Facts.packetMax) :
    ∃ bs, publishPacket (UInt8.ofNat (48 + qos * 2 + retain.toNat)) topic pid msg = .ok bs ∧
      decodePacket bs = some (.publish false qos retain topic (if qos = 0 then none else some pid) msg, []) := by
  obtain ⟨hne, hlen, hv, hn⟩ := topicCheck_none ht
  have hp : Facts.packetMax = 268435455 := rfl
  have hnot : ¬ (2 + topic.length + msg.length + (if pid ≠ 0 then 2 else 0) > Facts.packetMax) := by omega
  simp only [publishPacket, publishHead, ht, hnot, if_false, Except.map]
  refine ⟨_, rfl, ?_⟩
  let body := strField topic ++ (if pid ≠ 0 then be16 pid else []) ++ msg
  have hbl : body.length = 2 + topic.length + msg.length + (if pid ≠ 0 then 2 else 0) := by
    simp only [body, List.length_append, strField_length]
    split <;> simp [be16_length] <;> omega
  have hframe := splitFrame_compose (UInt8.ofNat (48 + qos * 2 + retain.toNat)) body [] (by omega)
  rw [hbl] at hframe
  have hshape : [UInt8.ofNat (48 + qos * 2 + retain.toNat)] ++ encodeVarint (2 + topic.length + msg.length + (if pid ≠ 0 then 2 else 0))
      ++ strField topic ++ (if pid ≠ 0 then be16 pid else []) ++ msg
      = [UInt8.ofNat (48 + qos * 2 + retain.toNat)] ++ encodeVarint (2 + topic.length + msg.length + (if pid ≠ 0 then 2 else 0)) ++ body ++ [] := by
    simp [body]
  rw [decodePacket, hshape, hframe]
  have htopic : topic.isEmpty = false := by cases topic <;> simp_all
  rcases hpid with ⟨rfl, rfl⟩ | ⟨hq, h0, h1⟩
  · cases retain <;>
      simp [parseBody, body, takeUtf8_strField topic _ hlen hv hn, htopic]
  · have hpne : pid ≠ 0 := by omega
    rcases hq with rfl | rfl <;> cases retain <;>
      simp [parseBody, body, hpne, takeUtf8_strField topic _ hlen hv hn, htopic, takeId_be16 pid msg h0 h1]

/-- The four acknowledgement packets decode to their identifier. -/
theorem C09_ack_roundtrip (pid : Nat) (h0 : 0 < pid) (h1 : pid < 65536) :
    decodePacket (ackPacket Facts.typePUBACK 0 pid) = some (.puback pid, []) ∧
    decodePacket (ackPacket Facts.typePUBREC 0 pid) = some (.pubrec pid, []) ∧
    decodePacket (ackPacket Facts.typePUBREL 2 pid) = some (.pubrel pid, []) ∧
    decodePacket (ackPacket Facts.typePUBCOMP 0 pid) = some (.pubcomp pid, []) := by
  have hid := takeId_be16 pid [] h0 h1
  simp only [List.append_nil, be16] at hid
  refine ⟨?_, ?_, ?_, ?_⟩ <;>
    simp [decodePacket, ackPacket, splitFrame, decodeVarint, decodeVarintAux, Facts.typePUBACK, Facts.typePUBREC,
      Facts.typePUBREL, Facts.typePUBCOMP, be16, parseBody, hid]

/-- PINGREQ and DISCONNECT are well-formed. -/
theorem C09_fixed :
    decodePacket packetPINGREQ = some (.pingreq, []) ∧ decodePacket packetDISCONNECT = some (.disconnect, []) := by
  decide

/-! ## SUBSCRIBE, UNSUBSCRIBE and CONNECT decode to the request -/

theorem totalLen_cons (f : Bytes) (fs : List Bytes) : totalLen (f :: fs) = f.length + totalLen fs := by
  simp [totalLen]

/-- the payload of SUBSCRIBE parses back to the filters with the requested maximum level -/
theorem parseSubFilters_compose (lvl : Nat) (hl : lvl ≤ 2) (fs : List Bytes) (hd : firstDeny fs = none) :
    ∀ fuel, fuel > (fs.flatMap (fun s => strField s ++ [UInt8.ofNat lvl])).length →
      parseSubFilters fuel (fs.flatMap (fun s => strField s ++ [UInt8.ofNat lvl])) = some (fs.map (·, lvl)) := by
  induction fs with
  | nil => intro fuel hf; cases fuel <;> simp [parseSubFilters] at *
  | cons f rest ih =>
    intro fuel hf
    have hf1 : topicCheck f = none := by
      simp only [firstDeny] at hd
      split at hd <;> simp_all
    have hrest : firstDeny rest = none := by
      simp only [firstDeny] at hd
      split at hd <;> simp_all
    obtain ⟨hne, hlen, hv, hn⟩ := topicCheck_none hf1
    cases fuel with
    | zero => simp at hf
    | succ fuel =>
      simp only [List.flatMap_cons, List.append_assoc, List.cons_append, List.nil_append]
      have hlt : (UInt8.ofNat lvl).toNat = lvl := by
        have : lvl < 256 := by omega
        simp [UInt8.toNat_ofNat, Nat.mod_eq_of_lt this]
      have hfe : f.isEmpty = false := by cases f <;> simp_all
      rw [parseSubFilters]
      · simp only [takeUtf8_strField f _ hlen hv hn, hfe, hlt]
        have : ¬ (lvl > 2) := by omega
        simp only [this, Bool.false_or, decide_false, Bool.false_eq_true, if_false]
        rw [ih hrest fuel (by
          simp only [List.flatMap_cons, List.length_append, strField_length, List.length_cons, List.length_nil] at hf
          omega)]
        simp
      · intro h
        simp [strField, be16] at h



theorem flatMap_sub_length (lvl : Nat) (fs : List Bytes) :
    (fs.flatMap (fun s => strField s ++ [UInt8.ofNat lvl])).length = fs.length * 3 + totalLen fs := by
  induction fs with
  | nil => simp [totalLen]
  | cons f r ih =>
    simp only [List.flatMap_cons, List.length_append, strField_length, List.length_cons, List.length_nil, ih, totalLen_cons]
    omega

/-- Every SUBSCRIBE the client composes (any non-empty list of filters that pass the check, within the packet
limit, any of the three maximum levels) decodes to exactly the requested filters, in order, each with that level. -/
theorem C09_subscribe_roundtrip (pid : Nat) (h0 : 0 < pid) (h1 : pid < 65536) (fs : List Bytes) (lvl : Nat) (hl : lvl ≤ 2)
    (hd : subscribeDeny fs = none) :
    decodePacket (subscribePacket pid fs lvl) = some (.subscribe pid (fs.map (·, lvl)), []) := by
  unfold subscribeDeny at hd
  have hne : fs.isEmpty = false := by
    cases h : fs.isEmpty <;> simp_all
  simp only [hne, Bool.false_eq_true, if_false] at hd
  have hfd : firstDeny fs = none := by
    cases h : firstDeny fs <;> simp_all
  simp only [hfd] at hd
  have hsz : 2 + fs.length * 3 + totalLen fs ≤ Facts.packetMax := by
    by_cases h : 2 + fs.length * 3 + totalLen fs > Facts.packetMax
    · simp [h] at hd
    · omega
  let pay := fs.flatMap (fun s => strField s ++ [UInt8.ofNat lvl])
  let body := be16 pid ++ pay
  have hbl : body.length = 2 + fs.length * 3 + totalLen fs := by
    simp only [body, pay, List.length_append, be16_length, flatMap_sub_length]; omega
  have hframe := splitFrame_compose (UInt8.ofNat (Facts.typeSUBSCRIBE * 16 + Facts.atLeastOnceLevel * 2)) body [] (by omega)
  rw [hbl] at hframe
  have hshape : subscribePacket pid fs lvl
      = [UInt8.ofNat (Facts.typeSUBSCRIBE * 16 + Facts.atLeastOnceLevel * 2)] ++ encodeVarint (2 + fs.length * 3 + totalLen fs) ++ body ++ [] := by
    simp [subscribePacket, body, pay]
  rw [decodePacket, hshape, hframe]
  have hp := parseSubFilters_compose lvl hl fs hfd (pay.length + 1) (Nat.lt_succ_self _)
  have hcons : ∃ x xs, fs.map (·, lvl) = x :: xs := by
    cases fs with
    | nil => simp at hne
    | cons a t => exact ⟨_, _, rfl⟩
  obtain ⟨x, xs, hx⟩ := hcons
  simp only [Option.map]
  show (parseBody _ body).map _ = _
  have hp' : parseSubFilters (pay.length + 1) pay = some (x :: xs) := by rw [← hx]; exact hp
  simp [parseBody, body, takeId_be16 pid pay h0 h1, hp', hx, Facts.typeSUBSCRIBE, Facts.atLeastOnceLevel]



theorem parseUnsubFilters_compose (fs : List Bytes) (hd : firstDeny fs = none) :
    ∀ fuel, fuel > (fs.flatMap strField).length → parseUnsubFilters fuel (fs.flatMap strField) = some fs := by
  induction fs with
  | nil => intro fuel hf; cases fuel <;> simp [parseUnsubFilters] at *
  | cons f rest ih =>
    intro fuel hf
    have hf1 : topicCheck f = none := by
      simp only [firstDeny] at hd
      split at hd <;> simp_all
    have hrest : firstDeny rest = none := by
      simp only [firstDeny] at hd
      split at hd <;> simp_all
    obtain ⟨hne, hlen, hv, hn⟩ := topicCheck_none hf1
    cases fuel with
    | zero => simp at hf
    | succ fuel =>
      simp only [List.flatMap_cons]
      have hfe : f.isEmpty = false := by cases f <;> simp_all
      rw [parseUnsubFilters]
      · simp only [takeUtf8_strField f _ hlen hv hn, hfe]
        rw [ih hrest fuel (by
          simp only [List.flatMap_cons, List.length_append, strField_length] at hf
          omega)]
        simp
      · intro h
        simp [strField, be16] at h

theorem flatMap_unsub_length (fs : List Bytes) : (fs.flatMap strField).length = fs.length * 2 + totalLen fs := by
  induction fs with
  | nil => simp [totalLen]
  | cons f r ih =>
    simp only [List.flatMap_cons, List.length_append, strField_length, List.length_cons, ih, totalLen_cons]
    omega

/-- Every UNSUBSCRIBE the client composes decodes to exactly the requested filters, in order. -/
theorem C09_unsubscribe_roundtrip (pid : Nat) (h0 : 0 < pid) (h1 : pid < 65536) (fs : List Bytes)
    (hd : unsubscribeDeny fs = none) :
    decodePacket (unsubscribePacket pid fs) = some (.unsubscribe pid fs, []) := by
  unfold unsubscribeDeny at hd
  have hne : fs.isEmpty = false := by
    cases h : fs.isEmpty <;> simp_all
  simp only [hne, Bool.false_eq_true, if_false] at hd
  have hfd : firstDeny fs = none := by
    cases h : firstDeny fs <;> simp_all
  simp only [hfd] at hd
  have hsz : 2 + fs.length * 2 + totalLen fs ≤ Facts.packetMax := by
    by_cases h : 2 + fs.length * 2 + totalLen fs > Facts.packetMax
    · simp [h] at hd
    · omega
  let pay := fs.flatMap strField
  let body := be16 pid ++ pay
  have hbl : body.length = 2 + fs.length * 2 + totalLen fs := by
    simp only [body, pay, List.length_append, be16_length, flatMap_unsub_length]; omega
  have hframe := splitFrame_compose (UInt8.ofNat (Facts.typeUNSUBSCRIBE * 16 + Facts.atLeastOnceLevel * 2)) body [] (by omega)
  rw [hbl] at hframe
  have hshape : unsubscribePacket pid fs
      = [UInt8.ofNat (Facts.typeUNSUBSCRIBE * 16 + Facts.atLeastOnceLevel * 2)] ++ encodeVarint (2 + fs.length * 2 + totalLen fs) ++ body ++ [] := by
    simp [unsubscribePacket, body, pay]
  rw [decodePacket, hshape, hframe]
  have hp := parseUnsubFilters_compose fs hfd (pay.length + 1) (Nat.lt_succ_self _)
  obtain ⟨x, xs, hx⟩ : ∃ x xs, fs = x :: xs := by
    cases fs with
    | nil => simp at hne
    | cons a t => exact ⟨_, _, rfl⟩
  have hp' : parseUnsubFilters (pay.length + 1) pay = some (x :: xs) := by rw [← hx]; exact hp
  simp [parseBody, body, takeId_be16 pid pay h0 h1, hp', hx, Facts.typeUNSUBSCRIBE, Facts.atLeastOnceLevel]

def flagsOf (u p w r e a cl : Bool) : Nat :=
  (if u then 128 else 0) + (if p then 64 else 0)
    + (if w then (if r then 32 else 0) + (if e then 16 else if a then 8 else 0) + 4 else 0)
    + (if cl then 2 else 0)

theorem connectFlags_eq (c : Cfg) :
    c.connectFlags = flagsOf c.hasUser c.password.isSome c.will.message.isSome c.will.retain c.will.exactlyOnce c.will.atLeastOnce c.cleanSession := by
  unfold Cfg.connectFlags flagsOf
  cases hm : c.will.message <;> simp [Facts.exactlyOnceLevel, Facts.atLeastOnceLevel]

theorem flagsOf_bits (u p w r e a cl : Bool) :
    let fl := UInt8.ofNat (flagsOf u p w r e a cl)
    bit fl 0 = false ∧ bit fl 1 = cl ∧ bit fl 2 = w ∧
    fl.toNat / 8 % 4 = (if w then (if e then 2 else if a then 1 else 0) else 0) ∧
    bit fl 5 = (w && r) ∧ bit fl 6 = p ∧ bit fl 7 = u := by
  cases u <;> cases p <;> cases w <;> cases r <;> cases e <;> cases a <;> cases cl <;> decide

theorem stringCheck_none {s : Bytes} (h : stringCheck s = none) :
    s.length ≤ 65535 ∧ utf8Valid s = true ∧ s.contains 0 = false := by
  have key := C09_stringCheck_iff s
  rw [h] at key
  simp only [Option.isSome_none, Bool.false_eq_true, false_iff, not_or] at key
  obtain ⟨a, b, c⟩ := key
  exact ⟨by omega, by simpa using b, by simpa using c⟩



def expectedWill (c : Cfg) : Option WillP :=
  c.will.message.map fun m =>
    ⟨c.will.topic, m, if c.will.exactlyOnce then 2 else if c.will.atLeastOnce then 1 else 0, c.will.retain⟩

theorem connreq_size_le (c : Cfg) (cid : Bytes) (hc : cid.length ≤ 65535) (hu : c.userName.length ≤ 65535)
    (hp : (c.password.getD []).length ≤ 65535) (hw : (c.will.message.getD []).length ≤ 65535) (ht : c.will.topic.length ≤ 65535) :
    c.connectSize cid ≤ Facts.packetMax := by
  unfold Cfg.connectSize
  have : Facts.packetMax = 268435455 := rfl
  cases hpw : c.password <;> cases hm : c.will.message <;> simp_all <;> split <;> omega

/-- Every CONNECT the client composes for a valid Config and client identifier decodes to exactly that Config:
clean-session flag, keep-alive, identifier, will (topic, message, level, retain), user name and password. -/
theorem C09_connect_roundtrip (c : Cfg) (cid : Bytes) (hv : c.valid = none) (hc : stringCheck cid = none)
    (hk : c.keepAlive < 65536) :
    decodePacket (c.connreq cid) =
      some (.connect c.cleanSession c.keepAlive cid (expectedWill c) (if c.hasUser then some c.userName else none) c.password, []) := by
  obtain ⟨hcl, hcv, hcn⟩ := stringCheck_none hc
  have hsm : Facts.stringMax = 65535 := rfl
  -- what `valid` guarantees
  unfold Cfg.valid at hv
  have hus : stringCheck c.userName = none := by
    cases h : stringCheck c.userName <;> simp_all
  simp only [hus] at hv
  have hpl : (c.password.getD []).length ≤ 65535 := by
    by_cases h : (c.password.getD []).length > Facts.stringMax
    · simp [h] at hv
    · omega
  have hpl' : ¬ ((c.password.getD []).length > Facts.stringMax) := by omega
  simp only [hpl', if_false] at hv
  have hml : (c.will.message.getD []).length ≤ 65535 := by
    by_cases h : (c.will.message.getD []).length > Facts.stringMax
    · simp [h] at hv
    · omega
  have hml' : ¬ ((c.will.message.getD []).length > Facts.stringMax) := by omega
  simp only [hml', if_false] at hv
  obtain ⟨hul, huv, hun⟩ := stringCheck_none hus
  have hbits := flagsOf_bits c.hasUser c.password.isSome c.will.message.isSome c.will.retain c.will.exactlyOnce
    c.will.atLeastOnce c.cleanSession
  rw [← connectFlags_eq] at hbits
  obtain ⟨b0, b1, b2, bq, b5, b6, b7⟩ := hbits
  have hka := beU16_be16 c.keepAlive hk
  have bq' : c.connectFlags % 256 / 8 % 4 =
      (if c.will.message.isSome = true then (if c.will.exactlyOnce = true then 2 else if c.will.atLeastOnce = true then 1 else 0) else 0) := by
    simpa using bq
  have hcid0 := takeUtf8_strField cid [] hcl hcv hcn
  have hun0 := takeUtf8_strField c.userName [] hul huv hun
  simp only [List.append_nil] at hcid0 hun0
  -- the will topic bound holds in both branches of `valid`
  have htl : c.will.topic.length ≤ 65535 := by
    cases hm : c.will.message with
    | none => simp only [hm, Option.isSome_none, Bool.false_eq_true, if_false] at hv; exact (stringCheck_none hv).1
    | some m => simp only [hm, Option.isSome_some, if_true] at hv; exact (topicCheck_none hv).2.1
  have hsz := connreq_size_le c cid hcl hul hpl hml htl
  -- the frame
  let tail : Bytes := strField cid
    ++ (match c.will.message with | some m => strField c.will.topic ++ strField m | none => [])
    ++ (if c.hasUser then strField c.userName else [])
    ++ (match c.password with | some p => strField p | none => [])
  let body : Bytes := [0, 4, 0x4D, 0x51, 0x54, 0x54, 4, UInt8.ofNat c.connectFlags] ++ be16 c.keepAlive ++ tail
  have hbl : body.length = c.connectSize cid := by
    simp only [body, tail, Cfg.connectSize, List.length_append, List.length_cons, List.length_nil, be16_length, strField_length]
    cases c.will.message <;> cases c.password <;> cases c.hasUser <;> simp [strField_length] <;> omega
  have hframe := splitFrame_compose (UInt8.ofNat (Facts.typeCONNECT * 16)) body [] (by omega)
  rw [hbl] at hframe
  have hshape : c.connreq cid = [UInt8.ofNat (Facts.typeCONNECT * 16)] ++ encodeVarint (c.connectSize cid) ++ body ++ [] := by
    simp [Cfg.connreq, body, tail]
    rfl
  rw [decodePacket, hshape, hframe]
  have hpb : parseBody (UInt8.ofNat (Facts.typeCONNECT * 16)) body = parseConnect body := by
    simp [parseBody, Facts.typeCONNECT]
  simp only [hpb, Option.map]
  -- password present implies the user flag
  have hpu : c.password.isSome = true → c.hasUser = true := by
    intro h; simp [Cfg.hasUser, h]
  cases hm : c.will.message with
  | none =>
    simp only [hm, Option.isSome_none, Bool.false_eq_true, if_false, Bool.false_and] at hv b2 bq' b5
    cases hp : c.password with
    | none =>
      simp only [hp, Option.isSome_none] at b6
      cases hu : c.hasUser with
      | false =>
        simp only [hu] at b7
        simp [parseConnect, body, tail, be16, hm, hp, hu, b0, b1, b2, bq', b5, b6, b7, hka, expectedWill, hcid0, hun0,
          takeUtf8_strField cid _ hcl hcv hcn]
      | true =>
        simp only [hu] at b7
        simp [parseConnect, body, tail, be16, hm, hp, hu, b0, b1, b2, bq', b5, b6, b7, hka, expectedWill, hcid0, hun0,
          takeUtf8_strField cid _ hcl hcv hcn, takeUtf8_strField c.userName _ hul huv hun]
    | some p =>
      have hu : c.hasUser = true := hpu (by simp [hp])
      simp only [hp, Option.isSome_some] at b6
      simp only [hu] at b7
      have hpl2 : p.length ≤ 65535 := by simpa [hp] using hpl
      have hp0 := takeStr_strField p [] hpl2
      simp only [List.append_nil] at hp0
      simp [parseConnect, body, tail, be16, hm, hp, hu, b0, b1, b2, bq', b5, b6, b7, hka, expectedWill, hcid0, hun0, hp0,
        takeUtf8_strField cid _ hcl hcv hcn, takeUtf8_strField c.userName _ hul huv hun, takeStr_strField p _ hpl2]
  | some m =>
    simp only [hm, Option.isSome_some, if_true, Bool.true_and] at hv b2 bq' b5
    obtain ⟨htne, _, htv, htn⟩ := topicCheck_none hv
    have hte : c.will.topic.isEmpty = false := by cases h : c.will.topic <;> simp_all
    have hml2 : m.length ≤ 65535 := by simpa [hm] using hml
    have hq3 : ¬ ((if c.will.exactlyOnce = true then 2 else if c.will.atLeastOnce = true then 1 else 0) = 3) := by
      split <;> (try split) <;> omega
    have hm0 := takeStr_strField m [] hml2
    simp only [List.append_nil] at hm0
    cases hp : c.password with
    | none =>
      simp only [hp, Option.isSome_none] at b6
      cases hu : c.hasUser with
      | false =>
        simp only [hu] at b7
        simp [parseConnect, body, tail, be16, hm, hp, hu, b0, b1, b2, bq', b5, b6, b7, hka, expectedWill, hcid0, hun0, hm0, hq3, hte,
          takeUtf8_strField cid _ hcl hcv hcn, takeUtf8_strField c.will.topic _ htl htv htn, takeStr_strField m _ hml2]
      | true =>
        simp only [hu] at b7
        simp [parseConnect, body, tail, be16, hm, hp, hu, b0, b1, b2, bq', b5, b6, b7, hka, expectedWill, hcid0, hun0, hm0, hq3, hte,
          takeUtf8_strField cid _ hcl hcv hcn, takeUtf8_strField c.will.topic _ htl htv htn, takeStr_strField m _ hml2,
          takeUtf8_strField c.userName _ hul huv hun]
    | some p =>
      have hu : c.hasUser = true := hpu (by simp [hp])
      simp only [hp, Option.isSome_some] at b6
      simp only [hu] at b7
      have hpl2 : p.length ≤ 65535 := by simpa [hp] using hpl
      have hp0 := takeStr_strField p [] hpl2
      simp only [List.append_nil] at hp0
      simp [parseConnect, body, tail, be16, hm, hp, hu, b0, b1, b2, bq', b5, b6, b7, hka, expectedWill, hcid0, hun0, hm0, hp0, hq3, hte,
        takeUtf8_strField cid _ hcl hcv hcn, takeUtf8_strField c.will.topic _ htl htv htn, takeStr_strField m _ hml2,
        takeUtf8_strField c.userName _ hul huv hun, takeStr_strField p _ hpl2]

/-! ## Non-vacuity -/

example : topicCheck [0x61, 0x2f, 0x62] = none := by decide
example : (C09_topicCheck_iff [0x61, 0x00]).mp (by decide) = (C09_topicCheck_iff [0x61, 0x00]).mp (by decide) := rfl
example : decodePacket [0x32, 0x07, 0x00, 0x01, 0x78, 0x80, 0x00, 0x68, 0x69]
    = some (.publish false 1 false [0x78] (some 32768) [0x68, 0x69], []) := by decide

example : subscribeDeny [[0x61, 0x2f, 0x23], [0x62]] = none := by decide
example : decodePacket (subscribePacket 0x6000 [[0x61, 0x2f, 0x23], [0x62]] 1)
    = some (.subscribe 0x6000 [([0x61, 0x2f, 0x23], 1), ([0x62], 1)], []) :=
  C09_subscribe_roundtrip 0x6000 (by decide) (by decide) _ 1 (by decide) (by decide)
example : ({ userName := [0x75], password := some [1, 2], will := { topic := [0x77], message := some [0x6d], exactlyOnce := true },
             keepAlive := 60, cleanSession := true } : Cfg).valid = none := by decide

/-- REGENERATED FACT. The three composers refuse a request only when its remaining length *exceeds* the four-byte limit, as the
extractor reads the comparisons off the source on every run: a request of exactly 268,435,455 bytes is valid and must not be
denied (the round-trip theorems above hold up to and including that size). -/
theorem C09_fact_size_limits :
    Facts.syn_subscribeLevel_sizeLimit = "size > packetMax" ∧ Facts.syn_Unsubscribe_sizeLimit = "size > packetMax" ∧
    Facts.syn_publishPacket_sizeLimit = "size > packetMax" ∧ Facts.packetMax = 268435455 := by decide

end Model
