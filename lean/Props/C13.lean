import Generated.Facts
import Proofs.Codec
import Props.C03
import Model.Session
/-! # C13 — hostile broker input: no panic, reset on violation, no forged progress

Model: `Model.remLenStep`/`clientRemLen` (the remaining-length loop, shared
with `S.sizeLoop`), `S.dispatch` (the dispatch switch of `readSlices`), the
acknowledgement checks of `Model.Core`, `connackCheck`. -/
namespace Model

/-- the dispatch table of `readSlices`, regenerated from the source: which packet types are handled and which are refused -/
theorem C13_fact_dispatch : Facts.dispatch =
    [(0, "errRESERVED0"), (1, "errGotCONNECT"), (2, "errCONNACKTwo"), (3, "c.onPUBLISH(head)"), (4, "c.onPUBACK()"),
     (5, "c.onPUBREC()"), (6, "c.onPUBREL()"), (7, "c.onPUBCOMP()"), (8, "errGotSUBSCRIBE"), (9, "c.onSUBACK()"),
     (10, "errGotUNSUBSCRIBE"), (11, "c.onUNSUBACK()"), (12, "errGotPINGREQ"), (13, "c.onPINGRESP()"),
     (14, "errGotDISCONNECT"), (15, "errRESERVED15")] := by decide
theorem C13_fact_guard : Facts.syn_peekPacket_shiftGuard = ">= 21" := by decide
/-- every refusing entry wraps the protocol-reset sentinel -/
theorem C13_fact_reset_errors :
    ["errRESERVED0", "errGotCONNECT", "errCONNACKTwo", "errGotSUBSCRIBE", "errGotUNSUBSCRIBE", "errGotPINGREQ",
     "errGotDISCONNECT", "errRESERVED15", "errPacketIDZero", "errPacketIDSpace"].all
      (fun n => Facts.errShapes.lookup n == some ["errorf", "errProtoReset"]) = true := by decide

/-- The client's remaining-length loop accepts exactly what the reference
decoder accepts — one to four bytes — with the same value and rest; a fifth
byte is a protocol violation; an incomplete prefix asks for more. -/
theorem C13_remaining_length (bs : Bytes) :
    (∀ n r, clientRemLen bs 0 0 = some (some (n, r)) ↔ decodeVarint bs = some (n, r)) ∧
    (clientRemLen bs 0 0 = some none → bs.length ≥ 4 ∧ decodeVarint bs = none) := by
  have step : ∀ (b : UInt8) (shift size : Nat), remLenStep shift size b =
      if b.toNat < 128 then .done (size + b.toNat % 128 * 2 ^ shift)
      else if shift ≥ 21 then .tooLong else .more (size + b.toNat % 128 * 2 ^ shift) := fun _ _ _ => rfl
  have lt : ∀ b : UInt8, (b < 128) ↔ b.toNat < 128 := fun b => UInt8.lt_iff_toNat_lt
  match bs with
  | [] => simp [clientRemLen, decodeVarint, decodeVarintAux]
  | [b0] =>
    have := b0.toNat_lt
    by_cases h0 : b0.toNat < 128 <;>
      simp [clientRemLen, step, decodeVarint, decodeVarintAux, lt, h0] <;> omega
  | [b0, b1] =>
    have := b0.toNat_lt; have := b1.toNat_lt
    by_cases h0 : b0.toNat < 128 <;> by_cases h1 : b1.toNat < 128 <;>
      simp [clientRemLen, step, decodeVarint, decodeVarintAux, lt, h0, h1] <;> omega
  | [b0, b1, b2] =>
    have := b0.toNat_lt; have := b1.toNat_lt; have := b2.toNat_lt
    by_cases h0 : b0.toNat < 128 <;> by_cases h1 : b1.toNat < 128 <;> by_cases h2 : b2.toNat < 128 <;>
      simp [clientRemLen, step, decodeVarint, decodeVarintAux, lt, h0, h1, h2] <;> omega
  | b0 :: b1 :: b2 :: b3 :: rest =>
    have := b0.toNat_lt; have := b1.toNat_lt; have := b2.toNat_lt; have := b3.toNat_lt
    by_cases h0 : b0.toNat < 128 <;> by_cases h1 : b1.toNat < 128 <;> by_cases h2 : b2.toNat < 128 <;>
      by_cases h3 : b3.toNat < 128 <;>
      simp [clientRemLen, step, decodeVarint, decodeVarintAux, lt, h0, h1, h2, h3] <;> omega

theorem decodeVarintAux_bound (fuel : Nat) (bs : Bytes) (n : Nat) (r : Bytes)
    (h : decodeVarintAux fuel bs = some (n, r)) : n < 128 ^ fuel := by
  induction fuel generalizing bs n r with
  | zero => simp [decodeVarintAux] at h
  | succ fuel ih =>
    cases bs with
    | nil => simp [decodeVarintAux] at h
    | cons b rest =>
      have hb := b.toNat_lt
      have hpos : 0 < 128 ^ fuel := Nat.pow_pos (by decide)
      simp only [decodeVarintAux] at h
      split at h
      · rename_i hlt
        have hlt' : b.toNat < 128 := UInt8.lt_iff_toNat_lt.mp hlt
        injection h with h; injection h with h1 h2
        rw [Nat.pow_succ]; omega
      · cases hm : decodeVarintAux fuel rest with
        | none => simp [hm] at h
        | some mr =>
          obtain ⟨m, r'⟩ := mr
          simp only [hm] at h
          injection h with h; injection h with h1 h2
          have := ih rest m r' hm
          rw [Nat.pow_succ]; omega

/-- the announced size of any accepted packet is below 2^28: nothing larger is ever allocated for it -/
theorem C13_size_bounded (bs : Bytes) (n : Nat) (r : Bytes) (h : clientRemLen bs 0 0 = some (some (n, r))) :
    n ≤ Facts.packetMax := by
  have hd := ((C13_remaining_length bs).1 n r).mp h
  have := decodeVarintAux_bound 4 bs n r hd
  have hp : Facts.packetMax = 268435455 := rfl
  rw [hp]
  have : (128 : Nat) ^ 4 = 268435456 := by decide
  omega

/-- Reserved and client-only packet types, and a second CONNACK, reset the
connection and change nothing else. -/
theorem C13_forbidden_types_reset (s : S) (head : UInt8)
    (h : head.toNat / 16 ∈ [0, 1, 2, 8, 10, 12, 14, 15]) : s.dispatch head = (s, some (mkErr ["reset"])) := by
  unfold S.dispatch
  simp only [Facts.typePUBACK, Facts.typePUBREC, Facts.typePUBREL, Facts.typePUBCOMP, Facts.typeSUBACK,
    Facts.typeUNSUBACK, Facts.typePINGRESP]
  simp only [List.mem_cons, List.mem_nil_iff, or_false] at h
  rcases h with h | h | h | h | h | h | h | h <;> simp [h]

/-- Zero and foreign identifiers, out-of-order and unsolicited acknowledgements
never pass the checks: no counter moves, no record is touched, the exchange
queue is unchanged (the caller resets the connection). -/
theorem C13_no_forged_progress (c : Core) (id : Nat) (f : Bool) :
    (id ≠ key1 c.acked ∨ c.l1.queue = [] → c.step (.puback id f) = c) ∧
    (id ≠ key2 c.received ∨ c.received - c.completed ≥ c.l2.queue.length → c.step (.pubrec id f) = c) ∧
    (id ≠ key2 c.completed ∨ c.completed ≥ c.received ∨ c.l2.queue = [] → c.step (.pubcomp id f) = c) := by
  refine ⟨?_, ?_, ?_⟩ <;> intro h <;> simp only [Core.step] <;> split <;> try rfl
  · rename_i hck
    obtain ⟨a, b⟩ := Core.pubackCheck_ok hck
    rcases h with h | h
    · exact absurd a h
    · simp [h] at b
  · rename_i hck
    obtain ⟨a, b⟩ := Core.pubrecCheck_ok hck
    rcases h with h | h
    · exact absurd a h
    · omega
  · rename_i hck
    obtain ⟨a, b, d⟩ := Core.pubcompCheck_ok hck
    rcases h with h | h | h
    · exact absurd a h
    · omega
    · simp [h] at d

/-- a malformed or refusing handshake reply never yields a connection (C18's table) -/
theorem C13_handshake_garbage (clean : Bool) (b0 b1 : UInt8) (rest : Bytes) (e : Option RErr)
    (h : b0.toNat ≠ 0x20 ∨ b1.toNat ≠ 2) : ∀ sp, connackCheck clean (b0 :: b1 :: rest) e ≠ .ok sp := by
  intro sp hh
  have h2 : Facts.typeCONNACK * 16 = 0x20 := rfl
  unfold connackCheck at hh
  simp only [h2] at hh
  rcases h with h | h <;> simp [h] at hh

/-! ## Non-vacuity -/
/-- a decision of the client's remaining-length loop on the bytes received so far is the decision on the whole stream -/
theorem C13_length_decision_stable (a b : Bytes) (shift size : Nat) (r : Option (Nat × Bytes))
    (h : clientRemLen a shift size = some r) :
    clientRemLen (a ++ b) shift size = some (r.map fun p => (p.1, p.2 ++ b)) := by
  induction a generalizing shift size with
  | nil => simp [clientRemLen] at h
  | cons x xs ih =>
    simp only [List.cons_append, clientRemLen] at h ⊢
    cases hstep : remLenStep shift size x with
    | done n => rw [hstep] at h; simp only at h ⊢; cases h; rfl
    | tooLong => rw [hstep] at h; simp only at h ⊢; cases h; rfl
    | more n => rw [hstep] at h; simp only at h ⊢; exact ih _ _ h

/-- the client reads back its own remaining-length encoding (and any conforming one) -/
theorem C13_client_reads_encoding (n : Nat) (r : Bytes) (h : n ≤ Facts.packetMax) :
    clientRemLen (encodeVarint n ++ r) 0 0 = some (some (n, r)) :=
  ((C13_remaining_length _).1 n r).mpr (decodeVarint_encodeVarint n r h).1

/-- Fragmentation inside the length field: whatever part `a` of a stream that starts with a conforming
remaining length has arrived, the loop either asks for more or decides the true size with the true rest;
it never decides another size, and never calls a conforming length too long. -/
theorem C13_fragmented_length (n : Nat) (r a b : Bytes) (h : n ≤ Facts.packetMax)
    (hs : a ++ b = encodeVarint n ++ r) :
    clientRemLen a 0 0 = none ∨ ∃ rest, clientRemLen a 0 0 = some (some (n, rest)) ∧ rest ++ b = r := by
  cases hc : clientRemLen a 0 0 with
  | none => exact Or.inl rfl
  | some d =>
    right
    have h1 := C13_length_decision_stable a b 0 0 d hc
    rw [hs, C13_client_reads_encoding n r h] at h1
    cases d with
    | none => simp at h1
    | some p =>
      simp only [Option.map_some, Option.some.injEq, Prod.mk.injEq] at h1
      exact ⟨p.2, by rw [h1.1], h1.2.symm⟩

example : clientRemLen [0x80] 0 0 = none ∧ clientRemLen [0x80, 0x01, 0x30] 0 0 = some (some (128, [0x30])) := by decide

example : clientRemLen [0x85, 0x80, 0x80, 0x80, 0x00] 0 0 = some none := by decide
example : clientRemLen [0xff, 0xff, 0xff, 0x7f, 0x01] 0 0 = some (some (268435455, [0x01])) := by decide

/-- REGENERATED FACT. The functions that arm a read or write deadline with `time.Now().Add(D)` – as the extractor lists them on
every run – all do so under a condition `D != 0`; the waits the harness observes as armed are armed by these functions. -/
theorem C13_fact_deadlines_respect_zero_timeout :
    Facts.deadlineArming = ["BigMessage.ReadAll", "Client.discard", "Client.handshake", "Client.peekPacket", "writeBuffersTo", "writeTo"] ∧
    Facts.deadlineArmingUnguarded = [] := by decide

end Model
