import Proofs.Inbound
/-! # C04 — exactly-once reception: delivered once per cycle, handshake always answered

Model: `S.onPUBLISH` (marker look-up), the prologue of `S.readSlices` (marker
Save before the PUBREC write), `S.onPUBREL` (marker Delete before PUBCOMP). -/
namespace Model

theorem C04_fact_marker_space : Facts.remoteIDKeyFlag = 0x10000 ∧ Facts.clientIDKey = 0 := by decide

/-- A QoS 2 PUBLISH is returned only when no marker exists for its identifier:
while the marker is in the Persistence (from the ownership call until the
PUBREL deleted it; it survives reconnects and restarts because it is stored),
retransmissions are never returned again. -/
theorem C04_once_per_cycle (s : S) (head : UInt8) (id : Nat) (p t payload topic : Bytes)
    (hparse : parsePublish head s.peek = .exactlyOnce id p t) (v : Bytes)
    (hmarker : s.core.load (remoteKey id) = .ok (some v)) : (s.onPUBLISH head).2 ≠ .msg payload topic := by
  intro h
  rcases S.onPUBLISH_owes s head payload topic h with ⟨_, _, e, _⟩ | ⟨_, _, _, e, _⟩ | ⟨id', _, _, e, _, _, hl, _⟩
  · rw [hparse] at e; cases e
  · rw [hparse] at e; cases e
  · rw [hparse] at e
    injection e with e1 e2 e3
    subst e1
    rw [hmarker] at hl
    cases hl

/-- Every suppressed duplicate is answered: the PUBREC for its identifier is
owed again (it is written right away by the caller, `ackDupe`), so a lost
PUBREC cannot stall the broker's side of the handshake. -/
theorem C04_dupe_answered (s : S) (head : UInt8) (h : (s.onPUBLISH head).2 = .dupe) :
    ∃ id p t v, parsePublish head s.peek = .exactlyOnce id p t ∧ s.core.load (remoteKey id) = .ok (some v) ∧
      (s.onPUBLISH head).1.pendingAck = ackPacket Facts.typePUBREC 0 id :=
  S.onPUBLISH_dupe s head h

/-- markers live outside every outbound identifier space -/
theorem C04_marker_keys_disjoint (id n : Nat) : remoteKey id ≠ publishKey Facts.atLeastOnceIDSpace n ∧
    remoteKey id ≠ publishKey Facts.exactlyOnceIDSpace n ∧ remoteKey id ≠ Facts.clientIDKey := by
  have r1 := publishKey_range' Facts.atLeastOnceIDSpace n
  have r2 := publishKey_range' Facts.exactlyOnceIDSpace n
  have : Facts.remoteIDKeyFlag = 0x10000 := rfl
  have : Facts.atLeastOnceIDSpace = 0x8000 := rfl
  have : Facts.exactlyOnceIDSpace = 0xc000 := rfl
  have : Facts.clientIDKey = 0 := rfl
  have : idMod = 0x4000 := rfl
  unfold remoteKey
  omega
where
  publishKey_range' (space n : Nat) : space ≤ publishKey space n ∧ publishKey space n < space + idMod := by
    unfold publishKey
    have := Nat.mod_lt n (show idMod > 0 by decide)
    omega

/-- The PUBREL handler ends the cycle first and answers second: a successful
marker Delete leaves no marker for the identifier (known or unknown alike). -/
theorem C04_pubrel_clears_marker (s : S) (id : Nat) (h : (s.delete (remoteKey id)).2 = none) :
    (s.delete (remoteKey id)).1.core.store.get (remoteKey id) = none := by
  obtain ⟨e, _, _⟩ := S.delete_ok s (remoteKey id) h
  rw [e]
  induction s.core.store with
  | nil => rfl
  | cons p rest ih =>
    simp only [Store.erase, Store.get, List.filter] at *
    by_cases hp : p.1 = remoteKey id
    · have : (p.1 != remoteKey id) = false := by simp [hp]
      simp only [this]; exact ih
    · have h1 : (p.1 != remoteKey id) = true := by simp [hp]
      have h2 : (p.1 == remoteKey id) = false := by simp [hp]
      simp only [h1, List.find?, h2]; exact ih

/-! ## Non-vacuity -/
example : (({ peek := [0, 1, 0x78, 0, 9], core := { store := [(0x10009, encodeValue [0x50, 2, 0, 9] 4)] } } : S).onPUBLISH 0x3c).2
    = .dupe := by decide

end Model
