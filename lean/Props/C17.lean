import Proofs.Core
/-! # C17 — in-flight packet identifiers unique and bounded; excess gets ErrMax

Model: `Model.Core` (counters, queues, store) as a transition system over
`COp`; `Model.Session` changes the core only through these operations. -/
namespace Model

/-! ## Obligations on regenerated facts -/

theorem C17_fact_mask : Facts.publishIDMask + 1 = 2^14 ∧ Facts.unorderedIDMask + 1 = 2^13 := by decide
/-- the four identifier spaces are non-zero, pairwise disjoint 16-bit ranges -/
theorem C17_fact_spaces :
    Facts.unsubscribeIDSpace = 0x4000 ∧ Facts.subscribeIDSpace = 0x6000 ∧
    Facts.atLeastOnceIDSpace = 0x8000 ∧ Facts.exactlyOnceIDSpace = 0xc000 ∧
    0 < Facts.unsubscribeIDSpace ∧
    Facts.unsubscribeIDSpace + (Facts.unorderedIDMask + 1) ≤ Facts.subscribeIDSpace ∧
    Facts.subscribeIDSpace + (Facts.unorderedIDMask + 1) ≤ Facts.atLeastOnceIDSpace ∧
    Facts.atLeastOnceIDSpace + (Facts.publishIDMask + 1) ≤ Facts.exactlyOnceIDSpace ∧
    Facts.exactlyOnceIDSpace + (Facts.publishIDMask + 1) ≤ 2^16 := by decide
theorem C17_fact_normalise : Facts.syn_newClient_normalise = "|| > 16383 -> 16384" ∧ Facts.syn_startTx_window = "> 511" := by decide

/-! ## Theorems -/

/-- limit normalisation: negative or above 16,383 means 16,384; zero stays zero -/
theorem C17_normMax (m : Int) :
    normMax m ≤ 16384 ∧ (0 ≤ m ∧ m ≤ 16383 → normMax m = m.toNat) ∧ (m < 0 ∨ m > 16383 → normMax m = 16384) ∧ normMax 0 = 0 := by
  have : (Facts.publishIDMask : Int) = 16383 := rfl
  unfold normMax
  rw [this]
  refine ⟨?_, ?_, ?_, by decide⟩
  · split <;> simp [Facts.publishIDMask] <;> omega
  · intro h; rw [if_neg (by omega)]
  · intro h; rw [if_pos h]; rfl

/-- arithmetic heart: within any window of at most 2^14 sequence numbers the
14-bit identifier is injective, wherever the window lies (wrap-around included) -/
theorem C17_wrap_window {lo n m : Nat} (w : Nat) (hw : w ≤ 16384)
    (hn : lo ≤ n ∧ n < lo + w) (hm : lo ≤ m ∧ m < lo + w) (h : n % 16384 = m % 16384) : n = m :=
  wrap_window w hw hn hm h

/-- the invariant holds in every state reachable from a fresh client by any
sequence of operations and Persistence faults -/
theorem C17_reachable_inv (store : Store) (seqNo : Nat) (m1 m2 : Int) (ops : List COp) :
    ((Core.fresh store seqNo m1 m2).run ops).Inv :=
  Core.run_inv _ (Core.fresh_inv store seqNo m1 m2) ops

/-- in-flight transfers never exceed the configured maximum, per level, in every reachable state -/
theorem C17_bounded (store : Store) (seqNo : Nat) (m1 m2 : Int) (ops : List COp) :
    let c := (Core.fresh store seqNo m1 m2).run ops
    c.l1.acceptN - c.acked ≤ normMax m1 ∧ c.l2.acceptN - c.completed ≤ normMax m2 ∧
    c.l1.queue.length ≤ normMax m1 ∧ c.l2.queue.length ≤ normMax m2 := by
  intro c
  have hi := C17_reachable_inv store seqNo m1 m2 ops
  have hm := Core.run_max (Core.fresh store seqNo m1 m2) ops
  have e1 : c.l1.max = normMax m1 := hm.1
  have e2 : c.l2.max = normMax m2 := hm.2
  exact ⟨e1 ▸ hi.l1.span, e2 ▸ hi.l2.span, e1 ▸ hi.l1.qlen, e2 ▸ hi.l2.qlen⟩

/-- identifiers of in-flight transfers of one level are pairwise distinct, in
every state satisfying the invariant (so in every reachable state) -/
theorem C17_ids_distinct (c : Core) (h : c.Inv) (n m : Nat) :
    (c.acked ≤ n ∧ n < c.l1.acceptN → c.acked ≤ m ∧ m < c.l1.acceptN →
      publishKey c.l1.space n = publishKey c.l1.space m → n = m) ∧
    (c.completed ≤ n ∧ n < c.l2.acceptN → c.completed ≤ m ∧ m < c.l2.acceptN →
      publishKey c.l2.space n = publishKey c.l2.space m → n = m) := by
  constructor
  · intro hn hm he
    have := h.l1.span; have := h.l1.max_le
    exact publishKey_inj (c.l1.acceptN - c.acked) (by omega) ⟨hn.1, by omega⟩ ⟨hm.1, by omega⟩ he
  · intro hn hm he
    have := h.l2.span; have := h.l2.max_le
    exact publishKey_inj (c.l2.acceptN - c.completed) (by omega) ⟨hn.1, by omega⟩ ⟨hm.1, by omega⟩ he

/-- identifiers are non-zero 16-bit numbers from the range of their level, and
the two levels never collide with each other or with subscribe/unsubscribe identifiers -/
theorem C17_ids_in_range (c : Core) (h : c.Inv) (n m : Nat) :
    0x8000 ≤ publishKey c.l1.space n ∧ publishKey c.l1.space n < 0xc000 ∧
    0xc000 ≤ publishKey c.l2.space m ∧ publishKey c.l2.space m < 0x10000 := by
  rw [h.sp1, h.sp2]
  have r1 := publishKey_range Facts.atLeastOnceIDSpace n
  have r2 := publishKey_range Facts.exactlyOnceIDSpace m
  have : Facts.atLeastOnceIDSpace = 0x8000 := rfl
  have : Facts.exactlyOnceIDSpace = 0xc000 := rfl
  have : idMod = 0x4000 := rfl
  omega

/-- excess is refused with ErrMax exactly when the queue is full, and a refused
or failed request consumes nothing: counters, queue and store are unchanged -/
theorem C17_refused_consumes_nothing (c : Core) (lvl : Nat) (pk : Nat → Bytes) (f : Bool) (ex : Nat) :
    ((c.accept lvl pk f ex).2 = .max ↔ ((c.lv lvl).seqClosed = false ∧ (c.lv lvl).queue.length ≥ (c.lv lvl).max)) ∧
    ((c.accept lvl pk f ex).2 = .max ∨ (c.accept lvl pk f ex).2 = .closed → (c.accept lvl pk f ex).1 = c) ∧
    ((c.accept lvl pk f ex).2 = .saveFailed →
      (c.accept lvl pk f ex).1.store = c.store ∧ (c.accept lvl pk f ex).1.l1 = c.l1 ∧ (c.accept lvl pk f ex).1.l2 = c.l2) := by
  unfold Core.accept
  by_cases hcl : (c.lv lvl).seqClosed = true
  · simp [hcl]
  · have hcl' : (c.lv lvl).seqClosed = false := by simpa using hcl
    simp only [hcl', Bool.false_eq_true, if_false, true_and]
    by_cases hq : (c.lv lvl).queue.length ≥ (c.lv lvl).max
    · simp [hq]
    · simp only [hq, if_false]
      unfold Core.save
      cases f <;> simp [hq]

/-- a maximum of zero disables the level: every publish is refused -/
theorem C17_zero_disables (c : Core) (lvl : Nat) (pk : Nat → Bytes) (f : Bool) (ex : Nat)
    (h0 : (c.lv lvl).max = 0) :
    (c.accept lvl pk f ex).2 = .max ∨ (c.accept lvl pk f ex).2 = .closed := by
  unfold Core.accept
  by_cases hcl : (c.lv lvl).seqClosed = true
  · simp [hcl]
  · simp [hcl, h0]

/-- the identifier given to a newly accepted publish is not in use by any in-flight transfer of its level -/
theorem C17_new_id_fresh (c : Core) (h : c.Inv) (n : Nat)
    (hfull : c.l1.queue.length < c.l1.max) (hcl : c.l1.seqClosed = false) (hn : c.acked ≤ n ∧ n < c.l1.acceptN) :
    publishKey c.l1.space c.l1.acceptN ≠ publishKey c.l1.space n := by
  intro he
  have hw := h.l1.window hcl
  have hm := h.l1.max_le
  have := publishKey_inj (lo := c.acked) (c.l1.acceptN - c.acked + 1) (by omega)
    ⟨h.l1.lo_le, by omega⟩ ⟨hn.1, by omega⟩ he
  omega

/-! ## Non-vacuity -/

/-- a window straddling the wrap-around: sequence numbers 16380 … 16390 -/
example : (16380 : Nat) % 16384 ≠ 16390 % 16384 := by decide
example : ((Core.fresh [] 1 2 2).run [.accept 1 (fun _ => [0x32]) false 0, .accept 1 (fun _ => [0x32]) false 1,
    .accept 1 (fun _ => [0x32]) false 2]).l1.queue.length = 2 := by decide

end Model
