import Props.C01
/-! # C03 — exactly-once publish: no PUBLISH after a recorded PUBREC; PUBREL until PUBCOMP

Model: `Model.Core`. What the client transmits for a pending transfer on a new
connection is whatever record is stored under its key (`resend` loads and
writes it); the theorems below say which record that is at each stage. -/
namespace Model

/-- Recording a PUBREC (`onPUBREC` after its checks, Save succeeding) replaces
the PUBLISH record by the PUBREL under the same key, before the counter moves:
the PUBLISH of that message can never be loaded again. -/
theorem C03_pubrec_overwrites_publish (c : Core) (id : Nat) :
    (c.pubrec id (relPacket id) false).1.store.get id = some (encodeValue (relPacket id) (c.seqNo + 1)) ∧
    (c.pubrec id (relPacket id) false).1.received = c.received + 1 ∧
    -- when the Save fails nothing changes: the PUBLISH stays and is resent, the broker repeats its PUBREC
    (c.pubrec id (relPacket id) true).1.store = c.store ∧ (c.pubrec id (relPacket id) true).1.received = c.received := by
  unfold Core.pubrec Core.save
  simp [Store.get_put_same]

/-- In every reachable state, for every exactly-once message whose PUBREC was
recorded and whose PUBCOMP was not yet applied, the stored record — the only
thing a reconnect or a restart can transmit for it — is the PUBREL with its
identifier; the messages still awaiting PUBREC hold a PUBLISH. -/
theorem C03_pubrel_until_pubcomp (store : Store) (seqNo : Nat) (m1 m2 : Int) (ops : List COp)
    (hwf : ∀ op ∈ ops, op.wf) :
    let c := (Core.fresh store seqNo m1 m2).run ops
    (∀ n, c.completed ≤ n → n < c.received → Holds c.store (key2 n) (· = relPacket (key2 n))) ∧
    (∀ n, c.received ≤ n → n < c.l2.acceptN → Holds c.store (key2 n) isPublish) := by
  intro c
  exact ⟨(C01_reachable store seqNo m1 m2 ops hwf).2.rel, (C01_reachable store seqNo m1 m2 ops hwf).2.s2⟩

/-- A PUBREL record is not a PUBLISH: the two stages cannot be confused. -/
theorem C03_pubrel_not_publish (id : Nat) : ¬ isPublish (relPacket id) := by
  rintro ⟨h, rest, e, ht⟩
  unfold relPacket at e
  simp only [List.cons_append, List.nil_append, List.cons.injEq] at e
  rw [← e.1] at ht
  revert ht
  decide

/-- PUBREC and PUBCOMP are applied in order only: an acknowledgement for any
identifier but the next in line changes nothing (the connection is reset). -/
theorem C03_in_order_only (c : Core) (id : Nat) (f : Bool) :
    (id ≠ key2 c.received → c.step (.pubrec id f) = c) ∧ (id ≠ key2 c.completed → c.step (.pubcomp id f) = c) := by
  constructor
  · intro hne
    simp only [Core.step]
    split
    · rename_i hck; exact absurd (Core.pubrecCheck_ok hck).1 hne
    · rfl
  · intro hne
    simp only [Core.step]
    split
    · rename_i hck; exact absurd (Core.pubcompCheck_ok hck).1 hne
    · rfl

/-- A packet identifier is not given to another exactly-once message before
its PUBCOMP: the identifier of a newly accepted message differs from that of
every transfer still in flight, also across the 14-bit wrap-around. -/
theorem C03_id_not_reused_before_pubcomp (c : Core) (h : c.Inv) (n : Nat)
    (hroom : c.l2.queue.length < c.l2.max) (hcl : c.l2.seqClosed = false)
    (hn : c.completed ≤ n ∧ n < c.l2.acceptN) : key2 c.l2.acceptN ≠ key2 n := by
  intro he
  have hw := h.l2.window hcl
  have hm := h.l2.max_le
  have := publishKey_inj (lo := c.completed) (c.l2.acceptN - c.completed + 1) (by omega)
    ⟨h.l2.lo_le, by omega⟩ ⟨hn.1, by omega⟩ he
  omega

/-- The reference broker (MQTT 3.1.1 §4.3.3 receiver): a QoS 2 PUBLISH is
forwarded unless its identifier awaits PUBREL; PUBREL ends the cycle. -/
structure Broker where
  awaitRel : List Nat := []
  delivered : List Nat := []     -- identifiers in forwarding order
deriving DecidableEq, Repr

inductive Wire2 | publish (id : Nat) | pubrel (id : Nat)
deriving DecidableEq, Repr

def Broker.recv (b : Broker) : Wire2 → Broker
  | .publish id => if b.awaitRel.contains id then b else { awaitRel := id :: b.awaitRel, delivered := b.delivered ++ [id] }
  | .pubrel id => { b with awaitRel := b.awaitRel.filter (· != id) }

/-- However often the client retransmits the PUBLISH of one message before its
PUBREL (lost PUBRECs, reconnects, restarts), the reference broker forwards it
once: retransmissions while the identifier awaits PUBREL deliver nothing. -/
theorem C03_retransmission_delivers_nothing (b : Broker) (id : Nat) (k : Nat) :
    let b1 := b.recv (.publish id)
    ((List.replicate k (Wire2.publish id)).foldl Broker.recv b1).delivered = b1.delivered := by
  intro b1
  have hin : b1.awaitRel.contains id = true := by
    simp only [b1, Broker.recv]
    split
    · assumption
    · simp
  clear_value b1
  induction k generalizing b1 with
  | zero => rfl
  | succ k ih =>
    simp only [List.replicate_succ, List.foldl_cons]
    have : b1.recv (.publish id) = b1 := by
      simp only [Broker.recv, hin, if_true]
    rw [this]
    exact ih b1 hin

/-! ## Non-vacuity: the four loss cases leave the stored stage as stated -/
example : ((Core.fresh [] 1 8 8).run [.accept 2 (fun k => [0x34] ++ be16 k) false 0, .pubrec 0xc000 false]).store.get 0xc000
    = some (encodeValue (relPacket 0xc000) 3) := by decide
example : ((Core.fresh [] 1 8 8).run [.accept 2 (fun k => [0x34] ++ be16 k) false 0, .pubrec 0xc000 true]).received = 0 := by decide

end Model
