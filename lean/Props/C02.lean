import Props.C16
/-! # C02 — restart resumes exactly the unacknowledged set, at any stop point, repeatedly

Model: `Model.adopt` + `Core.ofAdopted`. The stop points are the positions
between Persistence operations (`Core.step` is one operation each, a failed
Save/Delete is the stop "before" it); `adopt` is total on every store, so
"stop during recovery" is adoption of the store `adopt` itself left behind. -/
namespace Model

theorem C02_fact_spaces_aligned : Facts.atLeastOnceIDSpace % idMod = 0 ∧ Facts.exactlyOnceIDSpace % idMod = 0 := by decide

/-- Arithmetic heart of the restart: when the cleaned key lists are the true
in-flight windows — `k1` at-least-once messages from sequence number `a`, `r`
PUBRELs from `c`, `q` PUBLISHes after them — the reconstructed counters equal
the true ones modulo 2^14 with exactly the same window sizes, wherever the
windows lie (14-bit wrap-around included, full windows included). -/
theorem C02_recon_exact (a k1 c r q : Nat) (hk1 : k1 ≤ idMod) (h2 : r + q ≤ idMod) :
    let ctr := reconstruct (windowKeys Facts.atLeastOnceIDSpace a k1)
      (windowKeys Facts.exactlyOnceIDSpace (c + r) q) (windowKeys Facts.exactlyOnceIDSpace c r)
    (0 < k1 → ctr.acked = a % idMod ∧ ctr.accept1 = a % idMod + k1) ∧
    (0 < r + q → ctr.completed = c % idMod ∧ ctr.received = c % idMod + r ∧ ctr.accept2 = c % idMod + r + q) := by
  intro ctr
  have hs1 : Facts.atLeastOnceIDSpace % idMod = 0 := by decide
  have hs2 : Facts.exactlyOnceIDSpace % idMod = 0 := by decide
  have hm : idMod = 16384 := rfl
  constructor
  · intro h0
    have hl := windowKeys_length Facts.atLeastOnceIDSpace a k1
    obtain ⟨e1, e2⟩ := recon1_exact _ (windowKeys_contig _ a k1 hs1) (by omega) (by omega)
    have hg : (windowKeys Facts.atLeastOnceIDSpace a k1)[0]'(by omega) % idMod = a % idMod := by
      rw [windowKeys_get, publishKey_mod _ _ hs1]; simp
    show (reconstruct _ _ _).acked = _ ∧ (reconstruct _ _ _).accept1 = _
    simp only [reconstruct]
    rw [e1, e2, hg, hl]
    exact ⟨rfl, rfl⟩
  · intro h0
    have hlr := windowKeys_length Facts.exactlyOnceIDSpace c r
    have hlq := windowKeys_length Facts.exactlyOnceIDSpace (c + r) q
    have hcr := windowKeys_contig Facts.exactlyOnceIDSpace c r hs2
    have hce := windowKeys_contig Facts.exactlyOnceIDSpace (c + r) q hs2
    show (reconstruct _ _ _).completed = _ ∧ (reconstruct _ _ _).received = _ ∧ (reconstruct _ _ _).accept2 = _
    simp only [reconstruct]
    have hc0 := Nat.mod_lt c (show idMod > 0 by decide)
    by_cases hr : 0 < r
    · obtain ⟨e1, e2⟩ := recon2cr_rel (windowKeys Facts.exactlyOnceIDSpace (c + r) q) _ hcr (by omega) (by omega)
      have hg : (windowKeys Facts.exactlyOnceIDSpace c r)[0]'(by omega) % idMod = c % idMod := by
        rw [windowKeys_get, publishKey_mod _ _ hs2]; simp
      rw [hg] at e1 e2
      rw [hlr] at e2
      by_cases hq : 0 < q
      · have hge : (windowKeys Facts.exactlyOnceIDSpace (c + r) q)[0]'(by omega) % idMod = (c + r) % idMod := by
          rw [windowKeys_get, publishKey_mod _ _ hs2]; simp
        have e3 := recon2a_exact _ (recon2cr (windowKeys Facts.exactlyOnceIDSpace (c + r) q) (windowKeys Facts.exactlyOnceIDSpace c r)).2
          hce (by omega) (by rw [hge, e2]; simp only [hm]; omega) (by rw [e2]; omega)
          (by rw [e2, hlq]; simp only [hm] at hc0 h2 ⊢; omega) (by omega)
        rw [e3, e1, e2, hlq]
        exact ⟨rfl, rfl, rfl⟩
      · have : q = 0 := by omega
        subst this
        rw [show windowKeys Facts.exactlyOnceIDSpace (c + r) 0 = [] from rfl] at e1 e2 ⊢
        rw [recon2a_nil, e1, e2]
        exact ⟨rfl, rfl, rfl⟩
    · have : r = 0 := by omega
      subst this
      rw [show windowKeys Facts.exactlyOnceIDSpace c 0 = [] from rfl]
      simp only [Nat.add_zero] at *
      obtain ⟨e1, e2⟩ := recon2cr_norel (windowKeys Facts.exactlyOnceIDSpace c q) (by omega)
      have hge : (windowKeys Facts.exactlyOnceIDSpace c q)[0]'(by omega) % idMod = c % idMod := by
        rw [windowKeys_get, publishKey_mod _ _ hs2]; simp
      rw [hge] at e1 e2
      have e3 := recon2a_exact _ (recon2cr (windowKeys Facts.exactlyOnceIDSpace c q) []).2
        hce (by omega) (by rw [hge, e2, Nat.mod_mod]) (by rw [e2]; omega)
        (by rw [e2, hlq]; simp only [hm] at hc0 h2 ⊢; omega) (by omega)
      rw [e3, e1, e2, hlq]
      exact ⟨rfl, rfl, by omega⟩

/-- Publishes on the adopted client continue the sequence: the identifier the
adopted client stamps next equals the one the stopped client would have
stamped (counters agree modulo 2^14). -/
theorem C02_continue_sequence (space a k : Nat) :
    publishKey space (a % idMod + k) = publishKey space (a + k) := by
  unfold publishKey
  have hm : idMod = 16384 := rfl
  simp only [hm]
  omega

/-- The true windows are contiguous, so `cleanSequence` keeps them whole and
emits no warning: restart of an undamaged session is silent. -/
theorem C02_no_warning_on_true_windows (space lo k : Nat) (hs : space % idMod = 0) :
    cleanSeq (windowKeys space lo k) = (windowKeys space lo k, []) :=
  cleanSeq_id _ (windowKeys_contig space lo k hs)

/-- The PUBREL→PUBLISH rule keeps the PUBRELs when the PUBLISHes continue right after them. -/
theorem C02_relRule_keeps (c r q : Nat) (hr : 0 < r) (hq : 0 < q) :
    relRule (windowKeys Facts.exactlyOnceIDSpace (c + r) q) (windowKeys Facts.exactlyOnceIDSpace c r)
      = (windowKeys Facts.exactlyOnceIDSpace c r, []) := by
  have hs2 : Facts.exactlyOnceIDSpace % idMod = 0 := by decide
  have hlr := windowKeys_length Facts.exactlyOnceIDSpace c r
  have hlq := windowKeys_length Facts.exactlyOnceIDSpace (c + r) q
  unfold relRule
  rw [head?_eq _ (by omega), head?_eq _ (by omega), getLast?_eq _ (by omega)]
  simp only [windowKeys_get]
  have hk : consecutive (publishKey Facts.exactlyOnceIDSpace (c + ((windowKeys Facts.exactlyOnceIDSpace c r).length - 1)))
      (publishKey Facts.exactlyOnceIDSpace (c + r + 0)) = true := by
    rw [consecutive_iff, publishKey_mod _ _ hs2, publishKey_mod _ _ hs2, hlr]
    have hm : idMod = 16384 := rfl
    simp only [hm]; omega
  simp only [hk, if_true]

/-- After any number of stop/adopt cycles the adopted client is again in a
state satisfying the invariant, from which all theorems of C01/C03/C17 apply:
adoption is just another way to reach an invariant state. -/
theorem C02_generations (store : Store) (m1 m2 : Int) (df : Nat → Bool) (a : Adopted)
    (h : adopt store m1 m2 df = .ok a) (q1 q2 : List Nat)
    (hq1 : q1.length = a.alo.length) (hq2 : q2.length = a.eo.length + a.rel.length) (ops : List COp) :
    ((Core.ofAdopted a m1 m2 q1 q2).run ops).Inv :=
  C16_no_collision_after_adopt store m1 m2 df a h q1 q2 hq1 hq2 ops

/-! ## Non-vacuity: a window straddling the wrap-around; only PUBRELs pending (F19); a full PUBREL window (F23) -/
example : (reconstruct [] [] (windowKeys Facts.exactlyOnceIDSpace 0 1)).accept2 = 1 := by decide
example : (reconstruct (windowKeys Facts.atLeastOnceIDSpace 16380 8) [] []).accept1 = 16388 := by decide

end Model
