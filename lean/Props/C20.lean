import Model.Mocks
/-! # C20 — mqtttest doubles flag every deviation and mimic the client's contract -/
namespace Model

/-- The publish mock records a failure for an invocation exactly when it
deviates from its expectation: no expectation left, or the message differs, or
the topic differs (each field independently). A closed quit yields ErrCanceled
and is not counted. -/
theorem C20_publish_flags_iff (want : List Transfer) (st : MockState) (msg topic : Bytes) :
    let r := publishMockCall want st false msg topic
    (r.1.fails = st.fails + 1 ↔ (want[st.index]? = none ∨ ∃ t, want[st.index]? = some t ∧ (msg ≠ t.msg ∨ topic ≠ t.topic))) ∧
    (r.1.fails = st.fails ∨ r.1.fails = st.fails + 1) ∧ r.1.index = st.index + 1 ∧
    publishMockCall want st true msg topic = (st, none) := by
  intro r
  simp only [r]
  unfold publishMockCall
  simp only [Bool.false_eq_true, if_false, if_true]
  cases hw : want[st.index]? with
  | none => simp
  | some t =>
    by_cases hm : msg = t.msg <;> by_cases ht : topic = t.topic <;> simp [hm, ht]

/-- a matching invocation returns the scripted error and records nothing -/
theorem C20_publish_match_silent (want : List Transfer) (st : MockState) (t : Transfer) (h : want[st.index]? = some t) :
    publishMockCall want st false t.msg t.topic = ({ st with index := st.index + 1 }, some t.err) := by
  unfold publishMockCall
  simp [h]

/-- the cleanup records a failure exactly when the number of (counted) invocations differs from the number of expectations -/
theorem C20_cleanup_iff (n : Nat) (st : MockState) :
    ((mockCleanup n st).fails = st.fails + 1 ↔ st.index ≠ n) ∧ (st.index = n → mockCleanup n st = st) := by
  unfold mockCleanup
  by_cases h : st.index = n <;> simp [h]

/-- the subscribe/unsubscribe mocks never index past their expectations: a call without expectation is reported and returns nil -/
theorem C20_subscribe_unwanted (want : List Filter) (st : MockState) (filters : List Bytes)
    (hne : filters ≠ []) (hi : want[st.index]? = none) :
    subscribeMockCall want st false filters = ({ index := st.index + 1, fails := st.fails + 1 }, .ret .nil) := by
  unfold subscribeMockCall
  have : filters.isEmpty = false := by cases filters <;> simp_all
  simp [this, hi]

theorem C20_subscribe_quit (want : List Filter) (st : MockState) (filters : List Bytes) (hne : filters ≠ []) :
    subscribeMockCall want st true filters = (st, .canceled) := by
  unfold subscribeMockCall
  have : filters.isEmpty = false := by cases filters <;> simp_all
  simp [this]

/-- exchange stub: a script ending in ErrClosed (plain or wrapped) or in an
indefinite block leaves the channel open, every other accepted script closes it;
values are delivered in script order, blocks deliver nothing. -/
theorem C20_exchange_closes_iff (script : List MErr) (h : exchangeScriptPanics .nil script = false) :
    (exchangeRun script).2 = true ↔ ∀ e, script.getLast? = some e → ¬ (e.isClosed = true ∨ e = .block 0) := by
  induction script with
  | nil => simp [exchangeRun]
  | cons e rest ih =>
    cases rest with
    | nil =>
      cases e <;> simp [exchangeRun, MErr.isClosed]
      rename_i ms
      cases ms <;> simp [exchangeRun]
    | cons e2 rest2 =>
      have hpanic : exchangeScriptPanics .nil (e2 :: rest2) = false ∧ e.isClosed = false ∧ e ≠ .block 0 ∧ e ≠ .nil := by
        unfold exchangeScriptPanics at h ⊢
        simp only [bne_self_eq_false, Bool.false_eq_true, if_false, List.length_cons] at h ⊢
        rw [List.any_eq_false] at h
        have h0 := h 0 (by simp)
        refine ⟨?_, ?_, ?_, ?_⟩
        · rw [List.any_eq_false]
          intro i hi
          have := h (i + 1) (by simp at hi ⊢; omega)
          simp only [List.getElem?_cons_succ] at this
          cases hs : (e2 :: rest2)[i]? with
          | none => simp
          | some x =>
            rw [hs] at this
            cases x <;> simp_all <;> omega
        · cases e <;> simp_all [MErr.isClosed]
        · intro he; subst he; simp at h0
        · intro he; subst he; simp at h0
      obtain ⟨hp, hc, hb, hn⟩ := hpanic
      have := ih hp
      have hlast : (e :: e2 :: rest2).getLast? = (e2 :: rest2).getLast? := by simp [List.getLast?_cons_cons]
      rw [hlast, ← this]
      cases e with
      | nil => exact absurd rfl hn
      | plain n => simp [exchangeRun, MErr.isClosed]
      | closed => simp [MErr.isClosed] at hc
      | wrappedClosed => simp [MErr.isClosed] at hc
      | block ms =>
        cases ms with
        | zero => exact absurd rfl hb
        | succ k => simp [exchangeRun, MErr.isClosed]

/-! ## Non-vacuity -/
example : (publishMockCall [⟨[1], [2], .nil⟩] {} false [1] [3]).1.fails = 1 := by decide   -- only the topic differs
example : (publishMockCall [⟨[1], [2], .nil⟩] {} false [9] [2]).1.fails = 1 := by decide   -- only the message differs
example : exchangeRun [.plain 1, .block 5, .wrappedClosed] = ([.plain 1, .wrappedClosed], false) := by decide

end Model
