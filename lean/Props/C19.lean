import Model.FsStore
/-! # C19 — FileSystem store: Save and Delete are atomic per key across process stops

Model: `Model.saveProg` / `deleteProg` as system-call programs over a directory,
`Model.stops` = every directory content a process stop can leave. The observed
system-call sequence of the real `mqtt.FileSystem` (strace) is compared with
the programs on every run, and real kills are injected at every call. -/
namespace Model

theorem Dir.get_set_same (d : Dir) (n : String) (v : Bytes) : (d.set n v).get n = some v := by
  simp [Dir.set, Dir.get]

theorem Dir.get_remove_other (d : Dir) {n m : String} (h : m ≠ n) : (d.remove n).get m = d.get m := by
  induction d with
  | nil => rfl
  | cons p rest ih =>
    simp only [Dir.remove, Dir.get, List.filter] at *
    by_cases hp : p.1 = n
    · have h1 : (p.1 != n) = false := by simp [hp]
      have h2 : (p.1 == m) = false := by simp [hp]; exact fun e => h e.symm
      simp only [h1, List.find?, h2]; exact ih
    · have h1 : (p.1 != n) = true := by simp [hp]
      simp only [h1, List.find?]
      by_cases hm : p.1 = m
      · simp [hm]
      · have : (p.1 == m) = false := by simp [hm]
        simp only [this]; exact ih

theorem Dir.get_remove_same (d : Dir) (n : String) : (d.remove n).get n = none := by
  induction d with
  | nil => rfl
  | cons p rest ih =>
    simp only [Dir.remove, Dir.get, List.filter] at *
    by_cases hp : p.1 = n
    · have h1 : (p.1 != n) = false := by simp [hp]
      simp only [h1]; exact ih
    · have h1 : (p.1 != n) = true := by simp [hp]
      have h2 : (p.1 == n) = false := by simp [hp]
      simp only [h1, List.find?, h2]; exact ih

theorem Dir.get_set_other (d : Dir) {n m : String} (v : Bytes) (h : m ≠ n) : (d.set n v).get m = d.get m := by
  have hk : (n == m) = false := by simp; exact fun e => h e.symm
  have : (d.set n v).get m = (d.remove n).get m := by simp [Dir.set, Dir.get, List.find?, hk]
  rw [this, Dir.get_remove_other d h]

/-- a call that names only the spool file -/
def Sys.onlyTouches (n : String) : Sys → Prop
  | .create a | .write a _ | .fsync a | .close a | .unlink a => a = n
  | .rename _ _ => False

theorem Dir.step_other (d : Dir) (s : Sys) (n m : String) (hs : s.onlyTouches n) (hm : m ≠ n) : (d.step s).get m = d.get m := by
  cases s with
  | create a => simp only [Sys.onlyTouches] at hs; subst hs; exact Dir.get_set_other d _ hm
  | write a bs => simp only [Sys.onlyTouches] at hs; subst hs; exact Dir.get_set_other d _ hm
  | fsync a => rfl
  | close a => rfl
  | unlink a => simp only [Sys.onlyTouches] at hs; subst hs; exact Dir.get_remove_other d hm
  | rename a b => exact absurd hs (by simp [Sys.onlyTouches])

theorem partialWrites_other (d : Dir) (s : Sys) (n m : String) (hs : s.onlyTouches n) (hm : m ≠ n) :
    ∀ d' ∈ partialWrites d s, d'.get m = d.get m := by
  intro d' h
  cases s with
  | write a bs =>
    simp only [partialWrites, List.mem_map, List.mem_range] at h
    obtain ⟨k, _, hk⟩ := h
    subst hk
    simp only [Sys.onlyTouches] at hs
    subst hs
    exact Dir.get_set_other d _ hm
  | create a => simp [partialWrites] at h
  | fsync a => simp [partialWrites] at h
  | close a => simp [partialWrites] at h
  | rename a b => simp [partialWrites] at h
  | unlink a => simp [partialWrites] at h

/-- while only the spool file is touched, no stop point changes any other name -/
theorem stops_other (d : Dir) (prog : List Sys) (n m : String) (hp : ∀ s ∈ prog, s.onlyTouches n) (hm : m ≠ n) :
    ∀ d' ∈ stops d prog, d'.get m = d.get m := by
  induction prog generalizing d with
  | nil => intro d' h; simp [stops] at h; subst h; rfl
  | cons s rest ih =>
    intro d' h
    rw [stops] at h
    rcases List.mem_cons.mp h with h | h
    · subst h; rfl
    · rcases List.mem_append.mp h with h | h
      · exact partialWrites_other d s n m (hp s (by simp)) hm d' h
      · rw [ih (d.step s) (fun x hx => hp x (by simp [hx])) d' h]
        exact Dir.step_other d s n m (hp s (by simp)) hm

theorem run_other (d : Dir) (prog : List Sys) (n m : String) (hp : ∀ s ∈ prog, s.onlyTouches n) (hm : m ≠ n) :
    (d.run prog).get m = d.get m := by
  induction prog generalizing d with
  | nil => rfl
  | cons s rest ih =>
    simp only [Dir.run, List.foldl_cons]
    have := ih (d.step s) (fun x hx => hp x (by simp [hx]))
    simp only [Dir.run] at this
    rw [this]
    exact Dir.step_other d s n m (hp s (by simp)) hm

/-- the spool file holds exactly the buffers written so far -/
theorem run_writes (d : Dir) (sp : String) (acc : Bytes) (bufs : List Bytes) (h : d.get sp = some acc) :
    (d.run (bufs.map (Sys.write sp))).get sp = some (acc ++ bufs.flatten) := by
  induction bufs generalizing d acc with
  | nil => simpa [Dir.run] using h
  | cons b rest ih =>
    simp only [List.map_cons, Dir.run, List.foldl_cons, List.flatten_cons]
    have hs : (d.step (.write sp b)).get sp = some (acc ++ b) := by
      simp [Dir.step, h, Dir.get_set_same]
    have := ih (d.step (.write sp b)) (acc ++ b) hs
    simp only [Dir.run] at this
    rw [this, List.append_assoc]

theorem stops_append (d : Dir) (p q : List Sys) : ∀ d', d' ∈ stops d (p ++ q) ↔ (d' ∈ stops d p ∨ d' ∈ stops (d.run p) q) := by
  induction p generalizing d with
  | nil =>
    intro d'
    simp only [List.nil_append, stops, Dir.run, List.foldl_nil, List.mem_cons, List.mem_nil_iff, or_false]
    constructor
    · exact Or.inr
    · rintro (h | h)
      · subst h; cases q <;> simp [stops]
      · exact h
  | cons s rest ih =>
    intro d'
    simp only [List.cons_append, stops, List.mem_cons, List.mem_append, ih, Dir.run, List.foldl_cons]
    constructor
    · rintro (h | h | h | h) <;> simp [h]
    · rintro ((h | h | h) | h) <;> simp [h]

theorem savePre_touch (key : String) (bufs : List Bytes) : ∀ s ∈ savePre key bufs, s.onlyTouches (spoolName key) := by
  intro s hs
  simp only [savePre, List.mem_append, List.mem_cons, List.mem_map, List.mem_nil_iff, or_false] at hs
  rcases hs with (rfl | ⟨b, _, rfl⟩) | rfl | rfl <;> simp [Sys.onlyTouches]

theorem spool_ne (key : String) : spoolName key ≠ key := by
  intro h
  have := congrArg String.length h
  simp [spoolName, String.length_append] at this

/-- **Save is atomic per key.** Whatever the previous directory content, the
value (any number of buffers, any sizes) and the stop point — before or after
any system call, or inside a data write after any byte count — the key loads as
its complete previous value or as the complete new value; never a mixture, a
prefix or an empty value. Every other key is untouched. -/
theorem C19_save_atomic (d : Dir) (key : String) (bufs : List Bytes) :
    ∀ d' ∈ stops d (saveProg key bufs),
      (d'.get key = d.get key ∨ d'.get key = some bufs.flatten) ∧
      (∀ other, other ≠ key → other ≠ spoolName key → d'.get other = d.get other) := by
  intro d' hd'
  have hne := spool_ne key
  have hpre := savePre_touch key bufs
  unfold saveProg at hd'
  rw [stops_append] at hd'
  rcases hd' with h | h
  · exact ⟨Or.inl (stops_other d _ _ key hpre hne.symm d' h), fun o _ ho2 => stops_other d _ _ o hpre ho2 d' h⟩
  · -- at or after the rename
    have hspool : (d.run (savePre key bufs)).get (spoolName key) = some bufs.flatten := by
      have h1 : (d.step (.create (spoolName key))).get (spoolName key) = some [] := by simp [Dir.step, Dir.get_set_same]
      have h2 := run_writes (d.step (.create (spoolName key))) (spoolName key) [] bufs h1
      have : d.run (savePre key bufs) =
          (((d.step (.create (spoolName key))).run (bufs.map (.write (spoolName key)))).step (.fsync (spoolName key))).step (.close (spoolName key)) := by
        simp [savePre, Dir.run, List.foldl_append]
      rw [this]
      simpa [Dir.step] using h2
    have hstops : stops (d.run (savePre key bufs)) [.rename (spoolName key) key] =
        [d.run (savePre key bufs), (d.run (savePre key bufs)).step (.rename (spoolName key) key)] := rfl
    rw [hstops] at h
    rcases List.mem_cons.mp h with h | h
    · subst h
      exact ⟨Or.inl (run_other d _ _ key hpre hne.symm), fun o _ ho2 => run_other d _ _ o hpre ho2⟩
    · have h := List.mem_singleton.mp h
      subst h
      refine ⟨Or.inr ?_, fun o ho1 ho2 => ?_⟩
      · simp [Dir.step, hspool, Dir.get_set_same]
      · simp only [Dir.step, hspool]
        rw [Dir.get_set_other _ _ ho1, Dir.get_remove_other _ ho2]
        exact run_other d _ _ o hpre ho2

/-- The new value becomes visible under its key only by the final rename, which
comes after every data write and after the fsync: a Save that returned nil had
its content flushed before the value became visible. -/
theorem C19_flushed_before_visible (key : String) (bufs : List Bytes) :
    saveProg key bufs = savePre key bufs ++ [.rename (spoolName key) key] ∧
      (∀ b ∈ bufs, Sys.write (spoolName key) b ∈ savePre key bufs) ∧ Sys.fsync (spoolName key) ∈ savePre key bufs ∧
      (∀ s ∈ savePre key bufs, ∀ a b, s ≠ .rename a b) := by
  refine ⟨rfl, ?_, ?_, ?_⟩
  · intro b hb
    simp only [savePre, List.mem_append, List.mem_cons, List.mem_map, List.mem_nil_iff, or_false]
    exact Or.inl (Or.inr ⟨b, hb, rfl⟩)
  · simp [savePre]
  · intro s hs a b he
    have := savePre_touch key bufs s hs
    subst he
    simp [Sys.onlyTouches] at this

/-- A failed Save (an error at any call, the rename included) leaves the
previous value in place and removes the spool file. -/
theorem C19_failed_save_keeps_old (d : Dir) (key : String) (bufs : List Bytes) (i : Nat) :
    (d.run (saveFailProg key bufs i)).get key = d.get key ∧ (d.run (saveFailProg key bufs i)).get (spoolName key) = none := by
  have hne := spool_ne key
  have htouch : ∀ s ∈ saveFailProg key bufs i, s.onlyTouches (spoolName key) := by
    intro s hs
    simp only [saveFailProg, List.mem_append, List.mem_cons, List.mem_nil_iff, or_false] at hs
    rcases hs with hs | rfl
    · exact savePre_touch key bufs s (List.mem_of_mem_take hs)
    · simp [Sys.onlyTouches]
  refine ⟨run_other d _ _ key htouch hne.symm, ?_⟩
  simp only [saveFailProg, Dir.run, List.foldl_append, List.foldl_cons, List.foldl_nil, Dir.step]
  exact Dir.get_remove_same _ _

/-- **Delete is atomic**: the key loads as its previous value or as absent; an absent key stays absent. -/
theorem C19_delete_atomic (d : Dir) (key : String) :
    ∀ d' ∈ stops d (deleteProg key), (d'.get key = d.get key ∨ d'.get key = none) ∧
      (∀ other, other ≠ key → d'.get other = d.get other) := by
  intro d' h
  have hstops : stops d (deleteProg key) = [d, d.step (.unlink key)] := rfl
  rw [hstops] at h
  rcases List.mem_cons.mp h with h | h
  · subst h; exact ⟨Or.inl rfl, fun _ _ => rfl⟩
  · have h := List.mem_singleton.mp h
    subst h
    exact ⟨Or.inr (Dir.get_remove_same d key), fun o ho => Dir.get_remove_other d ho⟩

/-- `List` never reports a spool file, and everything it reports is loadable. -/
theorem C19_list_loadable (d : Dir) :
    (∀ n ∈ d.list, (d.get n).isSome) ∧ (∀ key, isKeyName key = true → isKeyName (spoolName key) = false) := by
  constructor
  · intro n hn
    simp only [Dir.list, Dir.names, List.mem_filter, List.mem_map] at hn
    obtain ⟨⟨p, hp, rfl⟩, _⟩ := hn
    induction d with
    | nil => simp at hp
    | cons q rest ih =>
      simp only [Dir.get, List.find?]
      by_cases hq : q.1 = p.1
      · simp [hq]
      · have : (q.1 == p.1) = false := by simp [hq]
        simp only [this]
        rcases List.mem_cons.mp hp with h | h
        · exact absurd (by rw [h]) hq
        · exact ih h
  · intro key hk
    simp only [isKeyName, Bool.and_eq_true, beq_iff_eq] at hk
    have hl : key.length = 5 := hk.1.1
    simp [isKeyName, spoolName, String.length_append, hl]

/-! ## Non-vacuity: a stop inside the second data write of an overwrite -/
example : Dir.get (Dir.step (Dir.step [("08001", [1, 2, 3])] (.create "08001.spool")) (.write "08001.spool" [9])) "08001" = some [1, 2, 3] := by decide

end Model
