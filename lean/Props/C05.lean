import Props.C01
/-! # C05 — publishes and resends keep acceptance order; DUP marks only re-deliveries

Model: `Model.Core` — identifiers follow the acceptance counter, `resend`
walks the unacknowledged sequence numbers ascending (`S.resendLoop`), the DUP
decision is `Level.isDup`. The mutual exclusion of publishers and of `connect`
(sequence tokens) is the Sync model's subject. -/
namespace Model

/-- The sequence number of an accepted publish is the acceptance count at that
time, and its identifier follows from it: acceptance order = identifier order. -/
theorem C05_id_follows_acceptance (c : Core) (lvl : Nat) (pk : Nat → Bytes) (ex : Nat) (key : Nat) (b : Bool)
    (h : (c.accept lvl pk false ex).2 = .ok key b) :
    key = publishKey (c.lv lvl).space (c.lv lvl).acceptN ∧
    ((c.accept lvl pk false ex).1.lv lvl).acceptN = (c.lv lvl).acceptN + 1 ∧
    ((c.accept lvl pk false ex).1.lv lvl).queue = (c.lv lvl).queue ++ [ex] := by
  unfold Core.accept at h ⊢
  by_cases hcl : (c.lv lvl).seqClosed = true
  · simp [hcl] at h
  · simp only [hcl, Bool.false_eq_true, if_false] at h ⊢
    by_cases hq : (c.lv lvl).queue.length ≥ (c.lv lvl).max
    · simp [hq] at h
    · simp only [hq, if_false] at h ⊢
      unfold Core.save at h ⊢
      simp only [Bool.false_eq_true, if_false] at h ⊢
      injection h with h1 h2
      refine ⟨h1.symm, ?_, ?_⟩ <;> (unfold Core.setLv Core.lv; split <;> simp_all)

/-- A first transmission never carries DUP: the sequence number of a newly
accepted message is not below `submitN`, in every reachable state. -/
theorem C05_first_transmission_no_dup (c : Core) (h : c.Inv) :
    c.l1.isDup c.l1.acceptN = false ∧ c.l2.isDup c.l2.acceptN = false := by
  have := h.l1.sub_le
  have := h.l2.sub_le
  simp [Level.isDup]; omega

/-- Within one process a PUBLISH that was written completely (first
transmission or resend) is marked DUP on every later transmission, and the
mark never goes away. -/
theorem C05_rewritten_is_dup (lv : Level) (n m : Nat) (hm : m ≤ n) :
    (lv.resent n).isDup m = true ∧ (lv.isDup m = true → (lv.resent n).isDup m = true) := by
  unfold Level.resent Level.isDup
  split <;> simp <;> omega

/-- `markSubmitted` (a complete first write without backlog) makes exactly the accepted ones DUP candidates. -/
theorem C05_submitted_marks_all (c : Core) (lvl : Nat) (n : Nat) :
    ((c.markSubmitted lvl).lv lvl).isDup n = decide (n < (c.lv lvl).acceptN) := by
  unfold Core.markSubmitted Core.setLv Core.lv Level.isDup
  split <;> simp_all

/-- A backlog (something accepted but not yet written) forces later publishes
to queue up behind it instead of overtaking: `accept` reports the backlog and
the caller does not write. -/
theorem C05_backlog_reported (c : Core) (lvl : Nat) (pk : Nat → Bytes) (ex : Nat) (key : Nat) (b : Bool)
    (h : (c.accept lvl pk false ex).2 = .ok key b) : b = decide ((c.lv lvl).submitN < (c.lv lvl).acceptN) := by
  unfold Core.accept at h
  by_cases hcl : (c.lv lvl).seqClosed = true
  · simp [hcl] at h
  · simp only [hcl, Bool.false_eq_true, if_false] at h
    by_cases hq : (c.lv lvl).queue.length ≥ (c.lv lvl).max
    · simp [hq] at h
    · simp only [hq, if_false] at h
      unfold Core.save at h
      simp only [Bool.false_eq_true, if_false] at h
      injection h with h1 h2
      exact h2.symm

/-- After a restart every resumed transfer counts as submitted (DUP on every
resumed PUBLISH, the documented concession). -/
theorem C05_adopted_all_dup (a : Adopted) (m1 m2 : Int) (q1 q2 : List Nat) (n : Nat) :
    ((Core.ofAdopted a m1 m2 q1 q2).l1.isDup n = decide (n < a.ctr.accept1)) ∧
    ((Core.ofAdopted a m1 m2 q1 q2).l2.isDup n = decide (n < a.ctr.accept2)) := by
  exact ⟨rfl, rfl⟩

/-! ## Non-vacuity -/
example : ((Core.fresh [] 1 8 8).run [.accept 1 (fun k => [0x32] ++ be16 k) false 0, .submitted 1,
    .accept 1 (fun k => [0x32] ++ be16 k) false 1]).l1.isDup 0 = true := by decide
example : ((Core.fresh [] 1 8 8).run [.accept 1 (fun k => [0x32] ++ be16 k) false 0, .submitted 1,
    .accept 1 (fun k => [0x32] ++ be16 k) false 1]).l1.isDup 1 = false := by decide

end Model
