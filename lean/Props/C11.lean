import Proofs.Sync
import Model.Session
import Generated.Facts
/-! # C11 — every request completes and gets its own response

Model: the unordered-transaction table of `Model.Session` (`startTx`, `endTx`,
`breakAll`, `onSUBACK`, `onUNSUBACK`, the ping slot) and `Model.Sync` for the
lock skeleton. -/
namespace Model

theorem C11_fact_window : Facts.syn_startTx_window = "> 511" ∧ Facts.unorderedIDMask / 16 = 511 := by decide

/-- `endTx` hands out the transaction registered under exactly that identifier, and removes only it. -/
theorem C11_endTx_matches (s : S) (id : Nat) (tx : Tx) (h : (s.endTx id).2 = some tx) :
    tx.id = id ∧ tx ∈ s.txs ∧ ∀ t ∈ (s.endTx id).1.txs, t.id ≠ id ∧ t ∈ s.txs := by
  unfold S.endTx at h ⊢
  simp only at h ⊢
  have := List.find?_some h
  refine ⟨by simpa using this, List.mem_of_find?_eq_some h, fun t ht => ?_⟩
  simp only [List.mem_filter] at ht
  exact ⟨by simpa using ht.2, ht.1⟩

/-- `startTx` never hands out zero, always an identifier of the request's kind,
and never one that is still registered (a very late response cannot be
mistaken for the new request's). -/
theorem C11_startTx_fresh (fuel : Nat) (s : S) (tag : String) (filters : Option (List Bytes)) :
    let r := S.startTxLoop fuel s tag filters
    r.2 = 0 ∨ (txSpace filters ≤ r.2 ∧ r.2 < txSpace filters + (Facts.unorderedIDMask + 1) ∧
      (∀ t ∈ s.txs, t.id ≠ r.2) ∧ r.1.txs = s.txs ++ [{ tag := tag, id := r.2, filters := filters }]) := by
  induction fuel generalizing s with
  | zero => exact Or.inl rfl
  | succ fuel ih =>
    simp only [S.startTxLoop]
    split
    · have := ih { s with txN := s.txN + 1 }
      simpa using this
    · rename_i hfree
      right
      have hm := Nat.mod_lt s.txN (show Facts.unorderedIDMask + 1 > 0 by decide)
      refine ⟨by show txSpace filters ≤ s.txN % (Facts.unorderedIDMask + 1) + txSpace filters; omega,
        by show s.txN % (Facts.unorderedIDMask + 1) + txSpace filters < txSpace filters + (Facts.unorderedIDMask + 1); omega, ?_, rfl⟩
      intro t ht he
      apply hfree
      simp only [List.any_eq_true, beq_iff_eq]
      exact ⟨t, ht, he⟩

/-- subscribe and unsubscribe identifiers are non-zero and in disjoint ranges, also disjoint from the publish ranges -/
theorem C11_spaces (f : Option (List Bytes)) : 0 < txSpace f ∧ txSpace f + (Facts.unorderedIDMask + 1) ≤ Facts.atLeastOnceIDSpace := by
  unfold txSpace
  cases f <;> simp <;> decide

/-- an answer reaches its request exactly once: returned at once, or buffered for it when it still is on its way -/
def S.Answered (s : S) (tag : String) (e : Err) : Prop := Ev.ret tag e ∈ s.evs ∨ (tag, e) ∈ s.early

theorem S.answer_answered (s : S) (tag : String) (e : Err) : (s.answer tag e).Answered tag e := by
  unfold S.answer S.Answered
  split <;> simp [S.emit]

theorem S.answer_mono (s : S) (tag : String) (e : Err) (t : String) (x : Err) (h : s.Answered t x) : (s.answer tag e).Answered t x := by
  unfold S.answer
  unfold S.Answered at h ⊢
  split
  · rcases h with h | h
    · exact Or.inl h
    · exact Or.inr (by simp [h])
  · rcases h with h | h
    · exact Or.inl (by simp [S.emit, h])
    · exact Or.inr h

/-- `breakAll` (connection loss, Close): every registered request is released
with ErrBreak and the table is empty afterwards. -/
theorem C11_breakAll_releases_all (s : S) :
    s.breakAll.txs = [] ∧ ∀ t ∈ s.txs, s.breakAll.Answered t.tag (mkErr ["break"]) := by
  unfold S.breakAll
  refine ⟨rfl, ?_⟩
  have key : ∀ (l : List Tx) (s0 : S),
      (∀ t x, s0.Answered t x → (l.foldl (fun s t => s.answer t.tag (mkErr ["break"])) s0).Answered t x) ∧
      ∀ t ∈ l, (l.foldl (fun s t => s.answer t.tag (mkErr ["break"])) s0).Answered t.tag (mkErr ["break"]) := by
    intro l
    induction l with
    | nil => intro s0; exact ⟨fun _ _ h => h, fun t ht => by simp at ht⟩
    | cons x rest ih =>
      intro s0
      simp only [List.foldl_cons]
      obtain ⟨k1, k2⟩ := ih (s0.answer x.tag (mkErr ["break"]))
      refine ⟨fun t y h => k1 t y (S.answer_mono _ _ _ _ _ h), fun t ht => ?_⟩
      rcases List.mem_cons.mp ht with h | h
      · subst h; exact k1 _ _ (S.answer_answered _ _ _)
      · exact k2 t h
  intro t ht
  exact (key s.txs s).2 t ht

/-- the ping slot: `releasePing` answers the call that owns the slot, and only that one -/
theorem C11_ping_slot (s : S) (e : Err) (tag : String) (h : s.ping = some tag) :
    (s.releasePing e).ping = none ∧ (s.releasePing e) = ({ s with ping := none }).answer tag e := by
  unfold S.releasePing
  simp [h, S.answer]
  split <;> rfl

/-- an answer is returned at once exactly when the request waits for it; otherwise it is kept for that request alone -/
theorem C11_answer_cases (s : S) (tag : String) (e : Err) :
    (s.onTheWay tag = false ∧ (s.answer tag e).evs = Ev.ret tag e :: s.evs ∧ (s.answer tag e).early = s.early) ∨
    (s.onTheWay tag = true ∧ (s.answer tag e).evs = s.evs ∧ (s.answer tag e).early = s.early ++ [(tag, e)]) := by
  unfold S.answer
  cases hw : s.onTheWay tag <;> simp [S.emit]

/-- a buffered answer goes to the call it was buffered for, when that call starts to wait, and to no other -/
theorem C11_ping_early_own (s : S) (tag : String) (e : Err) (h : s.early.find? (·.1 == tag) = some (tag, e)) :
    (s.pingWaits tag).evs = Ev.ret tag e :: s.evs ∧ (s.pingWaits tag).early = s.early.filter (·.1 != tag) := by
  unfold S.pingWaits
  simp [h, S.emit]

theorem C11_ping_early_none (s : S) (tag : String) (h : s.early.find? (·.1 == tag) = none) : s.pingWaits tag = s := by
  unfold S.pingWaits
  simp [h]

/-- a Ping that fails or is cancelled on its way frees the slot only when the slot still is its own: the slot of
another call (installed after an unrelated PINGRESP emptied it) stays (F7) -/
theorem C11_ping_drop_own_only (s : S) (tag other : String) (h : s.ping = some other) (hne : other ≠ tag) :
    (s.dropPing tag).ping = some other := by
  unfold S.dropPing
  simp [h, hne]

theorem C11_ping_drop_own (s : S) (tag : String) (h : s.ping = some tag) : (s.dropPing tag).ping = none := by
  unfold S.dropPing
  simp [h]

/-- a Ping while another one owns the slot is refused at once (ErrMax), it never waits -/
theorem C11_ping_max_no_wait (s : S) (tag : String) (h : s.ping.isSome) : s.pingCall tag = (s, .ret (mkErr ["max"])) := by
  unfold S.pingCall
  simp [h]

/-! ## The search for a free identifier terminates (pigeonhole) -/

def idAt (s : S) (f : Option (List Bytes)) (j : Nat) : Nat := (s.txN + j) % (Facts.unorderedIDMask + 1) + txSpace f

theorem filter_length_lt {α} (p q : α → Bool) (l : List α) (hpq : ∀ x, q x = true → p x = true)
    (x : α) (hx : x ∈ l) (hp : p x = true) (hq : q x = false) : (l.filter q).length < (l.filter p).length := by
  induction l with
  | nil => simp at hx
  | cons a t ih =>
    have hle : ∀ (l : List α), (l.filter q).length ≤ (l.filter p).length := by
      intro l
      induction l with
      | nil => simp
      | cons b u ihu =>
        simp only [List.filter_cons]
        cases hqb : q b with
        | false => cases p b <;> simp <;> omega
        | true => simp [hpq b hqb]; exact ihu
    simp only [List.filter_cons]
    rcases List.mem_cons.mp hx with rfl | hmem
    · simp only [hp, hq, if_true, Bool.false_eq_true, if_false, List.length_cons]
      have := hle t
      omega
    · have := ih hmem
      cases hqa : q a with
      | false => cases p a <;> simp <;> omega
      | true => simp [hpq a hqa]; exact this

/-- the search of `startTx` ends within its fuel: of `fuel` consecutive counter values (fewer than the 8192 of the
window, so all different) at most as many as there are registered transactions can be taken -/
theorem startTxLoop_finds (tag : String) (f : Option (List Bytes)) :
    ∀ (fuel : Nat) (s : S) (tried : List Nat), fuel ≤ Facts.unorderedIDMask + 1 →
      (∀ j, j < fuel → idAt s f j ∉ tried) →
      (s.txs.filter (fun t => !tried.contains t.id)).length < fuel →
      (S.startTxLoop fuel s tag f).2 ≠ 0 := by
  intro fuel
  induction fuel with
  | zero => intro s tried _ _ h; simp at h
  | succ fuel ih =>
    intro s tried hM hfut hlen
    simp only [S.startTxLoop]
    have hsp : 0 < txSpace f := by unfold txSpace; cases f <;> simp <;> decide
    split
    · rename_i hany
      -- the identifier is taken by some registered transaction
      obtain ⟨t, ht, hid⟩ := List.any_eq_true.mp hany
      have hid' : t.id = idAt s f 0 := by simpa [idAt] using hid
      have h0 : idAt s f 0 ∉ tried := hfut 0 (by omega)
      apply ih { s with txN := s.txN + 1 } (idAt s f 0 :: tried) (by omega)
      · intro j hj
        have hj' := hfut (j + 1) (by omega)
        have hne : idAt { s with txN := s.txN + 1 } f j ≠ idAt s f 0 := by
          simp only [idAt, Nat.add_zero]
          have hm : Facts.unorderedIDMask + 1 = 8192 := rfl
          rw [hm] at hM ⊢
          intro h
          have : (s.txN + 1 + j) % 8192 = s.txN % 8192 := by omega
          omega
        have heq : idAt { s with txN := s.txN + 1 } f j = idAt s f (j + 1) := by
          simp only [idAt]; congr 2; omega
        simp only [List.mem_cons, not_or]
        exact ⟨hne, heq ▸ hj'⟩
      · show (s.txs.filter (fun t => !(idAt s f 0 :: tried).contains t.id)).length < fuel
        have := filter_length_lt (fun t : Tx => !tried.contains t.id) (fun t : Tx => !(idAt s f 0 :: tried).contains t.id) s.txs
          (by intro x hx; simp only [List.contains_cons, Bool.not_or, Bool.and_eq_true, Bool.not_eq_true'] at hx ⊢; simpa using hx.2)
          t ht (by simpa [hid'] using h0) (by simp [hid'])
        omega
    · show s.txN % (Facts.unorderedIDMask + 1) + txSpace f ≠ 0
      omega

/-- `startTx` always hands out an identifier when the table has room (the loop never runs out of fuel) -/
theorem C11_startTx_total (s : S) (tag : String) (f : Option (List Bytes)) (h : s.txs.length ≤ Facts.unorderedIDMask / 16) :
    ∃ id, (s.startTx tag f).2 = some id ∧ id ≠ 0 := by
  unfold S.startTx
  have hm : Facts.unorderedIDMask / 16 = 511 := rfl
  have hnot : ¬ (s.txs.length > Facts.unorderedIDMask / 16) := by omega
  simp only [hnot, if_false]
  refine ⟨_, rfl, ?_⟩
  apply startTxLoop_finds tag f (s.txs.length + 1) s []
  · have : Facts.unorderedIDMask + 1 = 8192 := rfl
    omega
  · intro j _; simp
  · have := List.length_filter_le (fun _ : Tx => true) s.txs
    simp only [List.contains_nil, Bool.not_false]
    omega

/-- REGENERATED FACT. The channel a Subscribe/Unsubscribe (`startTx`) and a Ping wait on for their response has room for one
value, as the extractor reads it off the `make` calls on every run. The model's `answer` (a response that arrives before the
request waits is kept as `early`) and `breakAll`/`releasePing` (the read routine hands out ErrBreak without waiting for the
callers) presuppose exactly that: with no room, a request that took its quit branch would leave the read routine blocked in
`breakAll` for ever, and with it every later request. -/
theorem C11_fact_response_channels_have_room : Facts.syn_startTx_chanCap = "1" ∧ Facts.syn_Ping_chanCap = "1" := by decide

end Model
