import Proofs.Sync
import Model.Session
/-! # C11 — every request completes and gets its own response

Model: the unordered-transaction table of `Model.Session` (`startTx`, `endTx`,
`breakAll`, `onSUBACK`, `onUNSUBACK`, the ping slot) and `Model.Sync` for the
lock skeleton. -/
namespace Model

theorem C11_fact_window : Facts.syn_startTx_window = "> 511" ∧ Facts.unorderedIDMask / 16 = 511 := by decide

/-- `endTx` hands out the transaction registered under exactly that identifier, and removes only it. -/
theorem C11_endTx_matches (s : S) (id : Nat) (tx : Tx) (h : (s.endTx id).2 = some tx) :
    tx.id = id ∧ tx ∈ s.txs ∧ ∀ t ∈ (s.endTx id).1.txs, t.id ≠ id ∧ t ∈ s.txs := by
  unfold S.endTx at h ⊢
  simp only at h ⊢
  have := List.find?_some h
  refine ⟨by simpa using this, List.mem_of_find?_eq_some h, fun t ht => ?_⟩
  simp only [List.mem_filter] at ht
  exact ⟨by simpa using ht.2, ht.1⟩

/-- `startTx` never hands out zero, always an identifier of the request's kind,
and never one that is still registered (a very late response cannot be
mistaken for the new request's). -/
theorem C11_startTx_fresh (fuel : Nat) (s : S) (tag : String) (filters : Option (List Bytes)) :
    let r := S.startTxLoop fuel s tag filters
    r.2 = 0 ∨ (txSpace filters ≤ r.2 ∧ r.2 < txSpace filters + (Facts.unorderedIDMask + 1) ∧
      (∀ t ∈ s.txs, t.id ≠ r.2) ∧ r.1.txs = s.txs ++ [{ tag := tag, id := r.2, filters := filters }]) := by
  induction fuel generalizing s with
  | zero => exact Or.inl rfl
  | succ fuel ih =>
    simp only [S.startTxLoop]
    split
    · have := ih { s with txN := s.txN + 1 }
      simpa using this
    · rename_i hfree
      right
      have hm := Nat.mod_lt s.txN (show Facts.unorderedIDMask + 1 > 0 by decide)
      refine ⟨by show txSpace filters ≤ s.txN % (Facts.unorderedIDMask + 1) + txSpace filters; omega,
        by show s.txN % (Facts.unorderedIDMask + 1) + txSpace filters < txSpace filters + (Facts.unorderedIDMask + 1); omega, ?_, rfl⟩
      intro t ht he
      apply hfree
      simp only [List.any_eq_true, beq_iff_eq]
      exact ⟨t, ht, he⟩

/-- subscribe and unsubscribe identifiers are non-zero and in disjoint ranges, also disjoint from the publish ranges -/
theorem C11_spaces (f : Option (List Bytes)) : 0 < txSpace f ∧ txSpace f + (Facts.unorderedIDMask + 1) ≤ Facts.atLeastOnceIDSpace := by
  unfold txSpace
  cases f <;> simp <;> decide

/-- an answer reaches its request exactly once: returned at once, or buffered for it when it still is on its way -/
def S.Answered (s : S) (tag : String) (e : Err) : Prop := Ev.ret tag e ∈ s.evs ∨ (tag, e) ∈ s.early

theorem S.answer_answered (s : S) (tag : String) (e : Err) : (s.answer tag e).Answered tag e := by
  unfold S.answer S.Answered
  split <;> simp [S.emit]

theorem S.answer_mono (s : S) (tag : String) (e : Err) (t : String) (x : Err) (h : s.Answered t x) : (s.answer tag e).Answered t x := by
  unfold S.answer
  unfold S.Answered at h ⊢
  split
  · rcases h with h | h
    · exact Or.inl h
    · exact Or.inr (by simp [h])
  · rcases h with h | h
    · exact Or.inl (by simp [S.emit, h])
    · exact Or.inr h

/-- `breakAll` (connection loss, Close): every registered request is released
with ErrBreak and the table is empty afterwards. -/
theorem C11_breakAll_releases_all (s : S) :
    s.breakAll.txs = [] ∧ ∀ t ∈ s.txs, s.breakAll.Answered t.tag (mkErr ["break"]) := by
  unfold S.breakAll
  refine ⟨rfl, ?_⟩
  have key : ∀ (l : List Tx) (s0 : S),
      (∀ t x, s0.Answered t x → (l.foldl (fun s t => s.answer t.tag (mkErr ["break"])) s0).Answered t x) ∧
      ∀ t ∈ l, (l.foldl (fun s t => s.answer t.tag (mkErr ["break"])) s0).Answered t.tag (mkErr ["break"]) := by
    intro l
    induction l with
    | nil => intro s0; exact ⟨fun _ _ h => h, fun t ht => by simp at ht⟩
    | cons x rest ih =>
      intro s0
      simp only [List.foldl_cons]
      obtain ⟨k1, k2⟩ := ih (s0.answer x.tag (mkErr ["break"]))
      refine ⟨fun t y h => k1 t y (S.answer_mono _ _ _ _ _ h), fun t ht => ?_⟩
      rcases List.mem_cons.mp ht with h | h
      · subst h; exact k1 _ _ (S.answer_answered _ _ _)
      · exact k2 t h
  intro t ht
  exact (key s.txs s).2 t ht

/-- the ping slot: `releasePing` answers the call that owns the slot, and only that one -/
theorem C11_ping_slot (s : S) (e : Err) (tag : String) (h : s.ping = some tag) :
    (s.releasePing e).ping = none ∧ (s.releasePing e) = ({ s with ping := none }).answer tag e := by
  unfold S.releasePing
  simp [h, S.answer]
  split <;> rfl

/-- an answer is returned at once exactly when the request waits for it; otherwise it is kept for that request alone -/
theorem C11_answer_cases (s : S) (tag : String) (e : Err) :
    (s.onTheWay tag = false ∧ (s.answer tag e).evs = Ev.ret tag e :: s.evs ∧ (s.answer tag e).early = s.early) ∨
    (s.onTheWay tag = true ∧ (s.answer tag e).evs = s.evs ∧ (s.answer tag e).early = s.early ++ [(tag, e)]) := by
  unfold S.answer
  cases hw : s.onTheWay tag <;> simp [S.emit]

/-- a buffered answer goes to the call it was buffered for, when that call starts to wait, and to no other -/
theorem C11_ping_early_own (s : S) (tag : String) (e : Err) (h : s.early.find? (·.1 == tag) = some (tag, e)) :
    (s.pingWaits tag).evs = Ev.ret tag e :: s.evs ∧ (s.pingWaits tag).early = s.early.filter (·.1 != tag) := by
  unfold S.pingWaits
  simp [h, S.emit]

theorem C11_ping_early_none (s : S) (tag : String) (h : s.early.find? (·.1 == tag) = none) : s.pingWaits tag = s := by
  unfold S.pingWaits
  simp [h]

/-- a Ping that fails or is cancelled on its way frees the slot only when the slot still is its own: the slot of
another call (installed after an unrelated PINGRESP emptied it) stays (F7) -/
theorem C11_ping_drop_own_only (s : S) (tag other : String) (h : s.ping = some other) (hne : other ≠ tag) :
    (s.dropPing tag).ping = some other := by
  unfold S.dropPing
  simp [h, hne]

theorem C11_ping_drop_own (s : S) (tag : String) (h : s.ping = some tag) : (s.dropPing tag).ping = none := by
  unfold S.dropPing
  simp [h]

/-- a Ping while another one owns the slot is refused at once (ErrMax), it never waits -/
theorem C11_ping_max_no_wait (s : S) (tag : String) (h : s.ping.isSome) : s.pingCall tag = (s, .ret (mkErr ["max"])) := by
  unfold S.pingCall
  simp [h]

end Model
