import Proofs.Sync
import Model.Session
/-! # C11 — every request completes and gets its own response

Model: the unordered-transaction table of `Model.Session` (`startTx`, `endTx`,
`breakAll`, `onSUBACK`, `onUNSUBACK`, the ping slot) and `Model.Sync` for the
lock skeleton. -/
namespace Model

theorem C11_fact_window : Facts.syn_startTx_window = "> 511" ∧ Facts.unorderedIDMask / 16 = 511 := by decide

/-- `endTx` hands out the transaction registered under exactly that identifier, and removes only it. -/
theorem C11_endTx_matches (s : S) (id : Nat) (tx : Tx) (h : (s.endTx id).2 = some tx) :
    tx.id = id ∧ tx ∈ s.txs ∧ ∀ t ∈ (s.endTx id).1.txs, t.id ≠ id ∧ t ∈ s.txs := by
  unfold S.endTx at h ⊢
  simp only at h ⊢
  have := List.find?_some h
  refine ⟨by simpa using this, List.mem_of_find?_eq_some h, fun t ht => ?_⟩
  simp only [List.mem_filter] at ht
  exact ⟨by simpa using ht.2, ht.1⟩

/-- `startTx` never hands out zero, always an identifier of the request's kind,
and never one that is still registered (a very late response cannot be
mistaken for the new request's). -/
theorem C11_startTx_fresh (fuel : Nat) (s : S) (tag : String) (filters : Option (List Bytes)) :
    let r := S.startTxLoop fuel s tag filters
    r.2 = 0 ∨ (txSpace filters ≤ r.2 ∧ r.2 < txSpace filters + (Facts.unorderedIDMask + 1) ∧
      (∀ t ∈ s.txs, t.id ≠ r.2) ∧ r.1.txs = s.txs ++ [{ tag := tag, id := r.2, filters := filters }]) := by
  induction fuel generalizing s with
  | zero => exact Or.inl rfl
  | succ fuel ih =>
    simp only [S.startTxLoop]
    split
    · have := ih { s with txN := s.txN + 1 }
      simpa using this
    · rename_i hfree
      right
      have hm := Nat.mod_lt s.txN (show Facts.unorderedIDMask + 1 > 0 by decide)
      refine ⟨by show txSpace filters ≤ s.txN % (Facts.unorderedIDMask + 1) + txSpace filters; omega,
        by show s.txN % (Facts.unorderedIDMask + 1) + txSpace filters < txSpace filters + (Facts.unorderedIDMask + 1); omega, ?_, rfl⟩
      intro t ht he
      apply hfree
      simp only [List.any_eq_true, beq_iff_eq]
      exact ⟨t, ht, he⟩

/-- subscribe and unsubscribe identifiers are non-zero and in disjoint ranges, also disjoint from the publish ranges -/
theorem C11_spaces (f : Option (List Bytes)) : 0 < txSpace f ∧ txSpace f + (Facts.unorderedIDMask + 1) ≤ Facts.atLeastOnceIDSpace := by
  unfold txSpace
  cases f <;> simp <;> decide

/-- `breakAll` (connection loss, Close): every registered request is released
with ErrBreak — exactly one value each — and the table is empty afterwards. -/
theorem C11_breakAll_releases_all (s : S) :
    s.breakAll.txs = [] ∧ ∀ t ∈ s.txs, Ev.ret t.tag (mkErr ["break"]) ∈ s.breakAll.evs := by
  unfold S.breakAll
  refine ⟨rfl, ?_⟩
  have key : ∀ (l : List Tx) (s0 : S), (∀ e ∈ s0.evs, e ∈ (l.foldl (fun s t => s.emit (.ret t.tag (mkErr ["break"]))) s0).evs) ∧
      ∀ t ∈ l, Ev.ret t.tag (mkErr ["break"]) ∈ (l.foldl (fun s t => s.emit (.ret t.tag (mkErr ["break"]))) s0).evs := by
    intro l
    induction l with
    | nil => intro s0; exact ⟨fun e he => he, fun t ht => by simp at ht⟩
    | cons x rest ih =>
      intro s0
      simp only [List.foldl_cons]
      obtain ⟨k1, k2⟩ := ih (s0.emit (.ret x.tag (mkErr ["break"])))
      refine ⟨fun e he => k1 e (by simp [S.emit, he]), fun t ht => ?_⟩
      rcases List.mem_cons.mp ht with h | h
      · subst h; exact k1 _ (by simp [S.emit])
      · exact k2 t h
  intro t ht
  exact (key s.txs s).2 t ht

/-- the ping slot: `releasePing` answers the call that owns the slot, and only that one -/
theorem C11_ping_slot (s : S) (e : Err) (tag : String) (h : s.ping = some tag) :
    (s.releasePing e).ping = none ∧ (s.releasePing e).evs = Ev.ret tag e :: s.evs := by
  unfold S.releasePing
  simp [h, S.emit]

/-- a Ping while another one owns the slot is refused at once (ErrMax), it never waits -/
theorem C11_ping_max_no_wait (s : S) (tag : String) (h : s.ping.isSome) : s.pingCall tag = (s, .ret (mkErr ["max"])) := by
  unfold S.pingCall
  simp [h]

end Model
