import Proofs.Inbound
/-! # C07 — inbound acknowledgements go out only after the application took ownership

Model: `S.onPUBLISH` (the handler that returns a message) and the prologue of
`S.readSlices` (the only place that flushes `pendingAck` for a returned
message). -/
namespace Model

/-- Returning a message writes nothing: `onPUBLISH` only enqueues the
acknowledgement. Connection log, event trace and Persistence are unchanged,
whatever the packet, the level and the state. -/
theorem C07_return_writes_nothing (s : S) (head : UInt8) :
    (s.onPUBLISH head).1.conn = s.conn ∧ (s.onPUBLISH head).1.evs = s.evs ∧ (s.onPUBLISH head).1.core = s.core :=
  S.onPUBLISH_silent s head

/-- The acknowledgement owed for a returned message carries that message's
identifier and the level-appropriate type; an at-most-once message owes nothing. -/
theorem C07_ack_identity (s : S) (head : UInt8) (payload topic : Bytes)
    (h : (s.onPUBLISH head).2 = .msg payload topic) :
    (∃ p t, parsePublish head s.peek = .atMostOnce p t ∧ (s.onPUBLISH head).1.pendingAck = s.pendingAck) ∨
    (∃ id p t, parsePublish head s.peek = .atLeastOnce id p t ∧ s.pendingAck = [] ∧
      (s.onPUBLISH head).1.pendingAck = ackPacket Facts.typePUBACK 0 id) ∨
    (∃ id p t, parsePublish head s.peek = .exactlyOnce id p t ∧ s.pendingAck = [] ∧
      (s.onPUBLISH head).1.pendingAck = ackPacket Facts.typePUBREC 0 id ∧
      s.core.load (remoteKey id) = .ok none ∧ s.fLoad = false) :=
  S.onPUBLISH_owes s head payload topic h

/-- No second message is returned while an acknowledgement is owed: with a
non-empty `pendingAck` a QoS 1/2 PUBLISH is an (internal) error, never a return. -/
theorem C07_one_owed_at_a_time (s : S) (head : UInt8) (payload topic : Bytes) (hp : s.pendingAck ≠ [])
    (h : (s.onPUBLISH head).2 = .msg payload topic) : ∃ p t, parsePublish head s.peek = .atMostOnce p t := by
  rcases S.onPUBLISH_owes s head payload topic h with ⟨p, t, e, _⟩ | ⟨_, _, _, _, e, _⟩ | ⟨_, _, _, _, e, _⟩
  · exact ⟨p, t, e⟩
  · exact absurd e hp
  · exact absurd e hp

/-- The read routine's own write never waits for a connect: on anything but a
live connection it fails at once (the acknowledgement stays owed and the
connection is taken offline by the caller) — `write(nil, …)` cannot park
`ReadSlices` (the F4 repair). -/
theorem C07_reader_write_never_waits (s : S) (p : Bytes) (h : s.link ≠ .live) :
    ∃ e, s.readerWrite p = (s, some e) := by
  unfold S.readerWrite
  cases hl : s.link with
  | live => exact absurd hl h
  | pending => exact ⟨_, rfl⟩
  | down => exact ⟨_, rfl⟩
  | closed => exact ⟨_, rfl⟩

/-! ## Non-vacuity -/
example : parsePublish 0x32 [0, 1, 0x78, 0, 7, 0x31] = .atLeastOnce 7 [0x31] [0x78] := by decide
example : parsePublish 0x34 [0, 1, 0x78, 0, 9] = .exactlyOnce 9 [] [0x78] := by decide

end Model
