import Proofs.Sync
import Proofs.Locks
import Proofs.Term
import Generated.Facts
import Model.Signals
import Proofs.Signals
/-! # C12 — Close and Disconnect end the client from any state, promptly and for good

Model: `Model.Sync` — the two semaphores, the signals, one read routine and any
number of writers and closers, every interleaving (`Reachable`). The blocked
states at I/O boundaries (dialling, awaiting CONNACK, a writer inside
conn.Write) are additionally run against the real client by the session port. -/
namespace Model.Sync

/-- Online and Offline are never both released, in any reachable configuration. -/
theorem C12_signals_exclusive {c : Cfg} (h : Reachable c) : ¬ (c.online = true ∧ c.offline = true) :=
  (reachable_inv h).sig

/-- Once the semaphores are closed the client is offline: Offline released,
Online blocked, the write semaphore closed (every later `lockWrite` yields
ErrClosed, `connect` yields ErrClosed). -/
theorem C12_after_close {c : Cfg} (h : Reachable c) (hc : c.csem = .closed) :
    c.wsem = .closed ∧ c.offline = true ∧ c.online = false :=
  (reachable_inv h).closedC hc

/-- …and for good: no step of any actor reopens anything. -/
theorem C12_closed_is_stable {c c' : Cfg} (h : Reachable c) (hs : Step c c') (hc : c.csem = .closed) :
    c'.csem = .closed ∧ c'.wsem = .closed ∧ c'.offline = true ∧ c'.online = false := by
  have hi := reachable_inv h
  obtain ⟨hw, ho, hn⟩ := hi.closedC hc
  have hi' := step_inv hi hs
  have hcc : c'.csem = .closed := by
    cases hs <;> simp_all
  exact ⟨hcc, hi'.closedC hcc⟩

/-- At most one closer is past `connSem` at any time, and never together with a
connecting read routine: concurrent Close/Disconnect calls cannot both close the
semaphores (no double close, no panic from it). -/
theorem C12_one_closer_inside {c : Cfg} (h : Reachable c) (a b : Nat)
    (ha : c.pc a = .cHold ∨ c.pc a = .cWait) (hb : c.pc b = .cHold ∨ c.pc b = .cWait) : a = b ∧ c.rpc ≠ .dial := by
  have hi := reachable_inv h
  refine ⟨hi.ctlExcl a b ha hb, fun hd => ?_⟩
  have := hi.ctlExclR hd a
  rcases ha with ha | ha <;> simp_all

/-- `n` or fewer steps lead from `c` to `c'` -/
inductive StepsLE : Nat → Cfg → Cfg → Prop
  | refl (n : Nat) (c : Cfg) : StepsLE n c c
  | step {n : Nat} {c c' c'' : Cfg} : Step c c' → StepsLE n c' c'' → StepsLE (n + 1) c c''

/-- A closer that holds `connSem` can always finish: from every reachable
configuration there are at most three steps — its own, and at most one release
by whoever holds the write lock — to the closed state. No interleaving leaves
Close waiting on a lock nobody will release. -/
theorem C12_close_can_finish {c : Cfg} (h : Reachable c) (a : Nat) (ha : c.pc a = .cHold ∨ c.pc a = .cWait) :
    ∃ c', StepsLE 3 c c' ∧ c'.csem = .closed := by
  have hi := reachable_inv h
  have htaken : c.csem = .taken := hi.ctl.mpr (Or.inl ⟨a, ha⟩)
  have hnc : c.wsem ≠ .closed := fun hw => by have := hi.closedW hw; simp_all
  -- a closer that finds the semaphore finishes at once
  have finish : ∀ (d : Cfg), (d.pc a = .cHold ∨ d.pc a = .cWait) → d.wsem ≠ .empty → d.wsem ≠ .closed →
      ∃ d', Step d d' ∧ d'.csem = .closed := fun d hd h1 h2 => ⟨_, Step.cFinish d a hd h1 h2, rfl⟩
  by_cases he : c.wsem = .empty
  · -- somebody holds the write lock: interrupt (when not done yet), let the holder release, finish
    have hold := hi.lock.mp he
    -- after the holder released
    have release : ∀ (d : Cfg), Reachable d → (d.pc a = .cHold ∨ d.pc a = .cWait) → d.wsem = .empty →
        ∃ d', Step d d' ∧ (d'.pc a = .cHold ∨ d'.pc a = .cWait) ∧ d'.wsem ≠ .empty ∧ d'.wsem ≠ .closed := by
      intro d hd hda hde
      have hdi := reachable_inv hd
      rcases hdi.lock.mp hde with ⟨b, hb⟩ | hr
      · refine ⟨_, Step.wOk d b hb, ?_, by simp, by simp⟩
        have hne : a ≠ b := by intro e; subst e; rcases hda with x | x <;> simp_all
        simp only [setPc_other _ _ hne]; exact hda
      · exact ⟨_, Step.rResendFail d hr, hda, by simp, by simp⟩
    rcases ha with ha | ha
    · -- cHold: interrupt first
      have s1 := Step.cInterrupt c a ha he
      let c1 : Cfg := { c with connOpen := false, pc := setPc c.pc a .cWait }
      have hc1 : Reachable c1 := Reachable.step h s1
      obtain ⟨c2, s2, h2a, h2b, h2c⟩ := release c1 hc1 (Or.inr (setPc_same _ _ _)) he
      obtain ⟨c3, s3, h3⟩ := finish c2 h2a h2b h2c
      exact ⟨c3, StepsLE.step s1 (StepsLE.step s2 (StepsLE.step s3 (StepsLE.refl _ _))), h3⟩
    · obtain ⟨c2, s2, h2a, h2b, h2c⟩ := release c h (Or.inr ha) he
      obtain ⟨c3, s3, h3⟩ := finish c2 h2a h2b h2c
      exact ⟨c3, StepsLE.step s2 (StepsLE.step s3 (StepsLE.refl _ _)), h3⟩
  · obtain ⟨c1, s1, h1⟩ := finish c ha he hnc
    exact ⟨c1, StepsLE.step s1 (StepsLE.refl _ _), h1⟩

/-! ## Non-vacuity: a closer arriving while a writer is inside conn.Write -/
example : ∃ c : Cfg, Reachable c ∧ c.pc 1 = .cWait ∧ c.pc 0 = .wHold := by
  have s0 : Reachable ({} : Cfg) := Reachable.init
  have s1 := Reachable.step s0 (Step.rConnect _ rfl rfl)
  have s2 := Reachable.step s1 (Step.rDialOk _ rfl (Or.inl rfl))
  have s3 := Reachable.step s2 (Step.rOnline _ rfl rfl)
  have s4 := Reachable.step s3 (Step.wTake _ 0 rfl rfl)
  have s5 := Reachable.step s4 (Step.cTake _ 1 (by simp [setPc]) rfl)
  have s6 := Reachable.step s5 (Step.cInterrupt _ 1 (by simp [setPc]) rfl)
  exact ⟨_, s6, by simp [setPc], by simp [setPc]⟩

end Model.Sync

namespace Model

/-! ## Closers take connection control before the write lock, like the read routine: they cannot block each other for ever -/

theorem C12_fact_closers_lock_order : orderOK Facts.syn_Close_locks = true ∧ orderOK Facts.syn_Disconnect_locks = true := by decide

/-! ## ReadSlices' ErrClosed: every pending exchange receives ErrClosed once, and never more than its channel holds -/

/-- `termCallbacks`: every exchange still queued (at-least-once first, then exactly-once; placeholders of adopted records
have no channel) receives ErrClosed exactly once, nothing else is sent to any exchange, and both sequences are terminated -/
theorem C12_term_exchanges (s : S) (h1 : s.core.l1.seqClosed = false) (h2 : s.core.l2.seqClosed = false) :
    s.termCallbacks.evs.filter Ev.isExch =
      closedEvs s.placeholders s.core.l2.queue ++ closedEvs s.placeholders s.core.l1.queue ++ s.evs.filter Ev.isExch ∧
    s.termCallbacks.core.l1.seqClosed = true ∧ s.termCallbacks.core.l2.seqClosed = true := by
  obtain ⟨p1, c1, e1⟩ := flushQueue_spec s.placeholders s.core.l1.queue s rfl
  obtain ⟨p2, c2, e2⟩ := flushQueue_spec s.placeholders s.core.l2.queue (s.flushQueue s.core.l1.queue) p1
  simp only [S.termCallbacks, S.flushLevel, h1, Bool.false_eq_true, if_false, c1, h2]
  refine ⟨?_, ?_, ?_⟩
  · rw [breakAll_exch, releasePing_exch]
    simp only [closedEvs]
    rw [e2, e1]; simp [List.append_assoc]
  · rw [(breakAll_core _).1, releasePing_core]; rfl
  · rw [(breakAll_core _).1, releasePing_core]; rfl

/-- a second `termCallbacks` sends nothing to any exchange: an exchange channel gets at most one notice at submission and one
at termination, which is what its capacity of two is for (Close never blocks on an unread exchange) -/
theorem C12_term_idempotent (s : S) (h1 : s.core.l1.seqClosed = true) (h2 : s.core.l2.seqClosed = true) :
    s.termCallbacks.evs.filter Ev.isExch = s.evs.filter Ev.isExch := by
  simp only [S.termCallbacks, S.flushLevel, h1, h2, if_true]
  rw [breakAll_exch, releasePing_exch]


end Model

namespace Model

/-- REGENERATED FACT. `Close` and `Disconnect` flip the signals in this order, as the extractor reads it off their deferred
epilogues on every run: Online is blocked before Offline is released, both before the write semaphore is closed. From every
state the two signals are therefore never both released on the way, and afterwards Offline is released and Online blocked. -/
theorem C12_fact_closers_signals :
    soundSignals Facts.syn_Close_signals false = true ∧ soundSignals Facts.syn_Disconnect_signals false = true := by decide

/-- REGENERATED FACT. The read routine's own flips (`connect` on success, `toOffline`) happen before it hands the write semaphore
back, never after: a `Close` or `Disconnect` that takes the write lock afterwards flips last, so that Online stays blocked and
Offline released for good. -/
theorem C12_fact_reader_signals_under_lock :
    soundSignals Facts.syn_connect_signals true = true ∧ soundSignals Facts.syn_toOffline_signals false = true := by decide

/-- whatever sequence passes `soundSignals` keeps "never both released" from every admissible state -/
theorem C12_sound_signals_never_both (names : List String) (w : Bool) (es : List SigEv) (hp : names.mapM parseSigEv = some es)
    (h : soundSignals names w = true) (s : Sig) (hs : s.ok = true) : neverBoth s es = true ∧ s.run es = ⟨w, !w⟩ := by
  unfold soundSignals at h
  rw [hp] at h
  simp only [Bool.and_eq_true, List.all_eq_true] at h
  have hmem : s ∈ sigStates := by
    rcases s with ⟨o, f⟩
    cases o <;> cases f <;> simp_all [sigStates, Sig.ok]
  have := h.2 s hmem
  simp only [Bool.and_eq_true, beq_iff_eq] at this
  exact this

/-- non-vacuity: releasing Offline before Online is blocked (both released for a moment) is rejected, and so is a flip after
the write semaphore was handed back -/
example : soundSignals ["clear:offlineSig", "block:onlineSig", "close:writeSem"] false = false := by decide
example : soundSignals ["send:writeSem", "block:offlineSig", "clear:onlineSig"] true = false := by decide

/-! ## The signals on the session model (`S.online`; Offline is its complement, as the `sig` observations confirm on every run) -/

/-- after `Close` the Online signal is blocked (so Offline is the one released) and the write semaphore is closed -/
theorem C12_close_signals (s : S) : s.closeNow.online = false ∧ s.closeNow.link = .closed := by
  unfold S.closeNow
  simp only
  constructor
  · rw [(finishClosers_sig _).1, (failWaiters_sig _ _).1]
  · rw [(finishClosers_sig _).2, (failWaiters_sig _ _).2]


/-- after `Disconnect` got hold of both semaphores the Online signal is blocked, whatever became of the DISCONNECT packet -/
theorem C12_disconnect_signals (s : S) (hl : s.link ≠ .closed) (hu : s.disconnectNow.2 ≠ mkErr ["unsupported"]) :
    s.disconnectNow.1.online = false ∧ s.disconnectNow.1.link = .closed := by
  unfold S.disconnectNow at hu ⊢
  cases h : s.link with
  | closed => exact absurd h hl
  | pending =>
    simp only [h] at hu ⊢
    exact ⟨by rw [(finishClosers_sig _).1, (failWaiters_sig _ _).1], by rw [(finishClosers_sig _).2, (failWaiters_sig _ _).2]⟩
  | down =>
    simp only [h] at hu ⊢
    exact ⟨by rw [(finishClosers_sig _).1, (failWaiters_sig _ _).1], by rw [(finishClosers_sig _).2, (failWaiters_sig _ _).2]⟩
  | live =>
    simp only [h] at hu ⊢
    split at hu
    · exact absurd rfl hu
    · rename_i hg
      simp only [hg, Bool.false_eq_true, if_false]
      exact ⟨by rw [(finishClosers_sig _).1, (failWaiters_sig _ _).1], by rw [(finishClosers_sig _).2, (failWaiters_sig _ _).2]⟩


/-- `Close` from any state of the session model: it either returns – then the client is closed for good: connection control
closed, Online blocked – or it waits, and then only because a Disconnect is inside or waits itself (`closers`) -/
theorem C12_close_call (s : S) (tag : String) (hc : s.connSemClosed = false) :
    (∀ e, (s.closeCall tag false).2 = .ret e →
      (s.closeCall tag false).1.connSemClosed = true ∧ (s.closeCall tag false).1.online = false ∧ (s.closeCall tag false).1.link = .closed) ∧
    ((s.closeCall tag false).2 = .blocked → s.closers ≠ []) := by
  unfold S.closeCall
  simp only [hc, Bool.false_eq_true, if_false]
  repeat' (first | split | dsimp only)
  all_goals first
    | (constructor
       · intro e _; exact ⟨closeNow_closed _, (C12_close_signals _).1, (C12_close_signals _).2⟩
       · intro h; cases h)
    | (constructor
       · intro e h; cases h
       · intro _; simp_all)
/-- `Disconnect(nil)` from any state of the session model: it waits only for another closer or for the request that stands
inside `conn.Write` with the write lock (the documented "nil just blocks"); when it returns – the model's own `unsupported`
answers aside – the client is closed for good -/
theorem C12_disconnect_call (s : S) (tag : String) (hc : s.connSemClosed = false) (hl : s.link ≠ .closed) :
    (∀ e, (s.closeCall tag true).2 = .ret e → e ≠ mkErr ["unsupported"] →
      (s.closeCall tag true).1.online = false ∧ (s.closeCall tag true).1.link = .closed) ∧
    ((s.closeCall tag true).2 = .blocked → s.closers ≠ [] ∨ s.held.isSome = true) := by
  unfold S.closeCall
  simp only [hc, Bool.false_eq_true, if_false, ↓reduceIte]
  repeat' (first | split | dsimp only)
  all_goals first
    | (constructor
       · intro e h; cases h
       · intro _; simp_all)
    | (constructor
       · intro e h hu
         injection h with h
         subst h
         refine C12_disconnect_signals _ ?_ hu
         first | (simp [S.cancelDial, (failWaiters_sig _ _).2]; exact hl) | (rw [(failWaiters_sig _ _).2]; simp) | exact hl
       · intro h; cases h)

end Model
