import Generated.Facts
import Proofs.Bufio
import Proofs.Inbound
import Proofs.Codec
/-! # C06 — inbound messages are returned byte-exact under any fragmentation and size

Model: `Model.Rd` (the connection's read side as scripted chunks + the part of
`bufio.Reader` the client uses) refines the *flat* byte stream
`Rd.flat = buffered ++ all data chunks not read yet`; `parsePublish` slices topic
and payload out of a packet body. -/
namespace Model

/-- `fill` never changes the stream, whatever the next chunk is (data of any
size, a deadline expiry, an error, EOF). -/
theorem C06_fill_preserves_stream (r : Rd) : r.fill.flat = r.flat := (Rd.fill_flat r).1

/-- `Peek(n)`, for every chunking of the stream and every `n`: consumes
nothing and returns a prefix of the stream; when it reports no error the prefix
has exactly `n` bytes — so the packet body handed to the handlers is the next
`n` bytes the broker sent, however they were cut into network reads. -/
theorem C06_peek_is_prefix (r : Rd) (n : Nat) :
    (r.peek n).1.flat = r.flat ∧ (r.peek n).2.1 <+: r.flat ∧ ((r.peek n).2.2 = none → (r.peek n).2.1 = r.flat.take n) := by
  obtain ⟨a, b, c⟩ := Rd.peek_spec r n
  refine ⟨a, b, fun h => ?_⟩
  obtain ⟨t, ht⟩ := b
  have hl := c h
  rw [← ht, List.take_append_of_le_length (by omega)]
  exact (List.take_of_length_le (by omega)).symm

/-- `ReadByte` returns the first byte of the stream and advances by exactly one;
on an error nothing is lost. -/
theorem C06_readByte_is_head (r : Rd) :
    (∀ b, r.readByte.2.1 = some b → r.flat = b :: r.readByte.1.flat) ∧ (r.readByte.2.1 = none → r.readByte.1.flat = r.flat) :=
  Rd.readByte_spec r

/-- `Discard(n)` removes exactly the number of bytes it reports from the front
of the stream — all `n` when it reports no error — so skipping an unread
BigMessage or a duplicate leaves the stream aligned on the next packet. -/
theorem C06_discard_aligns (r : Rd) (n : Nat) (hn : 0 < n) :
    ∃ k, (r.discard n).1.flat = r.flat.drop k ∧ k ≤ n ∧ (r.discard n).2.1 = k ∧ ((r.discard n).2.2 = none → k = n) := by
  unfold Rd.discard
  have hn0 : ¬ n = 0 := by omega
  simp only [hn0, if_false]
  obtain ⟨k, a, b, c, d, _⟩ := Rd.discardLoop_spec (r.inqWeight + n + 1) r n n (Nat.le_refl _)
  exact ⟨k, a, b, by rw [d (by omega)]; omega, fun h => c ⟨h, by omega⟩⟩

/-- Slicing a PUBLISH body: topic and payload are exactly the bytes between the
length prefix, the optional identifier and the end of the body — for every
topic length up to the body and every payload. -/
theorem C06_parse_exact (qos : Nat) (flags : Nat) (topic payload : Bytes) (id : Nat)
    (hq : qos ≤ 2) (hfl : flags < 2) (ht : topic.length < 65536) (hid : 0 < id ∧ id < 65536) :
    let head := UInt8.ofNat (48 + qos * 2 + flags)
    let body := be16 topic.length ++ topic ++ (if qos = 0 then [] else be16 id) ++ payload
    parsePublish head body =
      (if qos = 0 then .atMostOnce payload topic else if qos = 1 then .atLeastOnce id payload topic
       else .exactlyOnce id payload topic) := by
  intro head body
  have hb : ∀ n, n < 65536 → beU16 (UInt8.ofNat (n / 256 % 256)) (UInt8.ofNat (n % 256)) = n := by
    intro n hn
    simp only [beU16, UInt8.toNat_ofNat']
    omega
  have hhead : head.toNat / 2 % 4 = qos := by
    simp only [head, UInt8.toNat_ofNat']; omega
  unfold parsePublish
  simp only [body, be16, List.cons_append, List.nil_append, List.append_assoc, hb _ ht, hhead]
  have hlen : ¬ (topic.length + 2 > (UInt8.ofNat (topic.length / 256 % 256) :: UInt8.ofNat (topic.length % 256) ::
      (topic ++ ((if qos = 0 then [] else [UInt8.ofNat (id / 256 % 256), UInt8.ofNat (id % 256)]) ++ payload))).length) := by
    simp
  simp only [hlen, if_false]
  have htake : (List.take (topic.length + 2) (UInt8.ofNat (topic.length / 256 % 256) :: UInt8.ofNat (topic.length % 256) ::
      (topic ++ ((if qos = 0 then [] else [UInt8.ofNat (id / 256 % 256), UInt8.ofNat (id % 256)]) ++ payload)))).drop 2 = topic := by
    simp [List.take_append_of_le_length]
  have hdrop : List.drop (topic.length + 2) (UInt8.ofNat (topic.length / 256 % 256) :: UInt8.ofNat (topic.length % 256) ::
      (topic ++ ((if qos = 0 then [] else [UInt8.ofNat (id / 256 % 256), UInt8.ofNat (id % 256)]) ++ payload)))
      = (if qos = 0 then [] else [UInt8.ofNat (id / 256 % 256), UInt8.ofNat (id % 256)]) ++ payload := by
    simp
  rw [htake, hdrop]
  obtain rfl | rfl | rfl : qos = 0 ∨ qos = 1 ∨ qos = 2 := by omega
  · simp
  · simp [hb id hid.2]; omega
  · simp [hb id hid.2]; omega

/-! ## Non-vacuity: one stream, two chunkings, same `Peek` -/
example : ((⟨16, [], none, [.data [1, 2, 3], .timeout, .data [4, 5]], false⟩ : Rd).peek 2).2.1 = [1, 2] := by decide
example : ((⟨16, [], none, [.data [1], .data [2, 3, 4, 5]], false⟩ : Rd).peek 2).2.1 = [1, 2] := by decide

/-- REGENERATED FACT. The functions that arm a read deadline while a packet is being read – as the extractor lists them on every
run – all do so under a condition `D != 0`: with PauseTimeout left at zero (documented: no timeout protection) a packet that
arrives one byte per network read is still returned, not cut short by a deadline that expired at once. -/
theorem C06_fact_deadlines_respect_zero_timeout :
    Facts.deadlineArming = ["BigMessage.ReadAll", "Client.discard", "Client.handshake", "Client.peekPacket", "writeBuffersTo", "writeTo"] ∧
    Facts.deadlineArmingUnguarded = [] := by decide

theorem C06_length_decode_stable (fuel : Nat) (a b : Bytes) (n : Nat) (r : Bytes)
    (h : decodeVarintAux fuel a = some (n, r)) : decodeVarintAux fuel (a ++ b) = some (n, r ++ b) := by
  induction fuel generalizing a n r with
  | zero => simp [decodeVarintAux] at h
  | succ f ih =>
    cases a with
    | nil => simp [decodeVarintAux] at h
    | cons x xs =>
      simp only [List.cons_append, decodeVarintAux] at h ⊢
      by_cases hx : x < 128
      · simp only [hx, if_true] at h ⊢; cases h; rfl
      · simp only [hx, if_false] at h ⊢
        cases hd : decodeVarintAux f xs with
        | none => rw [hd] at h; simp at h
        | some p =>
          rw [hd] at h; simp only [Option.some.injEq, Prod.mk.injEq] at h
          rw [ih xs p.1 p.2 (by rw [hd])]
          simp only [Option.some.injEq, Prod.mk.injEq]
          exact ⟨h.1, by rw [h.2]⟩

/-- A packet that is complete in the bytes received so far is the same packet in the longer stream:
header, body, and the rest extended by what arrived later — the frame boundary does not depend on
how the stream was cut. -/
theorem C06_frame_stable (a b : Bytes) (h : UInt8) (body rest : Bytes)
    (hc : splitFrame a = .complete h body rest) : splitFrame (a ++ b) = .complete h body (rest ++ b) := by
  cases a with
  | nil => simp [splitFrame] at hc
  | cons x xs =>
    simp only [List.cons_append, splitFrame] at hc ⊢
    cases hd : decodeVarint xs with
    | none =>
      rw [hd] at hc; simp only at hc
      split at hc <;> simp at hc
    | some p =>
      obtain ⟨n, r'⟩ := p
      rw [hd] at hc; simp only at hc
      have hd' : decodeVarint (xs ++ b) = some (n, r' ++ b) := C06_length_decode_stable 4 xs b n r' hd
      rw [hd']; simp only
      by_cases hl : r'.length < n
      · simp [hl] at hc
      · simp only [hl, if_false, Frame.complete.injEq] at hc
        have hl' : ¬ (r' ++ b).length < n := by simp only [List.length_append]; omega
        simp only [hl', if_false, Frame.complete.injEq]
        refine ⟨hc.1, ?_, ?_⟩
        · rw [← hc.2.1, List.take_append_of_le_length (by omega)]
        · rw [← hc.2.2, List.drop_append_of_le_length (by omega)]

example : splitFrame [0x40, 0x02, 0x00, 0x01] = .complete 0x40 [0x00, 0x01] [] ∧
    splitFrame ([0x40, 0x02, 0x00, 0x01] ++ [0xd0, 0x00]) = .complete 0x40 [0x00, 0x01] [0xd0, 0x00] := by decide

/-- A stream found malformed stays malformed whatever arrives later: the verdict "protocol violation" on the bytes so far is final. -/
theorem C06_malformed_stable (a b : Bytes) (hm : splitFrame a = .malformed) : splitFrame (a ++ b) = .malformed := by
  cases a with
  | nil => simp [splitFrame] at hm
  | cons x r =>
    simp only [List.cons_append, splitFrame] at hm ⊢
    cases hd : decodeVarint r with
    | some p => rw [hd] at hm; simp only at hm; split at hm <;> simp at hm
    | none =>
      rw [hd] at hm; simp only at hm
      match r, hd, hm with
      | [], _, hm => simp at hm
      | [b0], hd, hm =>
        by_cases h0 : b0 < 128
        · simp [decodeVarint, decodeVarintAux, h0] at hd
        · simp [UInt8.not_lt.mp h0] at hm
      | [b0, b1], hd, hm =>
        by_cases h0 : b0 < 128
        · simp [decodeVarint, decodeVarintAux, h0] at hd
        · by_cases h1 : b1 < 128
          · simp [decodeVarint, decodeVarintAux, h0, h1] at hd
          · simp [UInt8.not_lt.mp h0, UInt8.not_lt.mp h1] at hm
      | [b0, b1, b2], hd, hm =>
        by_cases h0 : b0 < 128
        · simp [decodeVarint, decodeVarintAux, h0] at hd
        · by_cases h1 : b1 < 128
          · simp [decodeVarint, decodeVarintAux, h0, h1] at hd
          · by_cases h2 : b2 < 128
            · simp [decodeVarint, decodeVarintAux, h0, h1, h2] at hd
            · simp [UInt8.not_lt.mp h0, UInt8.not_lt.mp h1, UInt8.not_lt.mp h2] at hm
      | b0 :: b1 :: b2 :: b3 :: r', hd, _ =>
        by_cases h0 : b0 < 128
        · simp [decodeVarint, decodeVarintAux, h0] at hd
        · by_cases h1 : b1 < 128
          · simp [decodeVarint, decodeVarintAux, h0, h1] at hd
          · by_cases h2 : b2 < 128
            · simp [decodeVarint, decodeVarintAux, h0, h1, h2] at hd
            · by_cases h3 : b3 < 128
              · simp [decodeVarint, decodeVarintAux, h0, h1, h2, h3] at hd
              · simp only [List.cons_append]
                rw [dva4_none b0 b1 b2 b3 (r' ++ b) h0 h1 h2 h3]
                simp
                intro hlt; omega
/-- Every cut of a stream that starts with a well-formed packet: on the part received so far the framing says "incomplete"
or names exactly that packet (same header, same body, the true rest) — never another packet and never "malformed". -/
theorem C06_cut_verdict (h : UInt8) (body rest a b : Bytes) (hb : body.length ≤ Facts.packetMax)
    (hs : a ++ b = [h] ++ encodeVarint body.length ++ body ++ rest) :
    splitFrame a = .incomplete ∨ ∃ r', splitFrame a = .complete h body r' ∧ r' ++ b = rest := by
  have hw := splitFrame_compose h body rest hb
  rw [← hs] at hw
  cases hc : splitFrame a with
  | incomplete => exact Or.inl rfl
  | malformed => rw [C06_malformed_stable a b hc] at hw; cases hw
  | complete h' body' r' =>
    rw [C06_frame_stable a b h' body' r' hc] at hw
    simp only [Frame.complete.injEq] at hw
    exact Or.inr ⟨r', by rw [hw.1, hw.2.1], hw.2.2⟩
example : splitFrame [0x40, 0x02, 0x00] = .incomplete := by decide

end Model
