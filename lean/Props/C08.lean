import Proofs.WriteLoop
import Proofs.Wire
/-! # C08 — a connection carries whole packets only, under short writes

Model: `Model.writeTo`, `Model.writeBuffersTo` (client.go write loops incl.
`net.Buffers.WriteTo`/`consume`) over a policy-driven connection, and the
sequential use of one connection by the write wrappers (stop at first failure). -/
namespace Model

/-- `writeTo`: for every packet and every pattern of short writes, deadline
expiries and errors, the bytes put on the connection are a prefix of the packet,
and the whole packet when success is reported. -/
theorem C08_writeTo_prefix (c : WConn) (p : Bytes) :
    ∃ q, (writeTo c p).1.log = c.log ++ q ∧ q <+: p ∧ ((writeTo c p).2 = .ok → q = p) :=
  writeToAux_spec _ c p

/-- `writeBuffersTo`: the same for every split of the packet into buffers
(header + payload in practice). -/
theorem C08_writeBuffersTo_prefix (c : WConn) (v : List Bytes) :
    ∃ q, (writeBuffersTo c v).1.log = c.log ++ q ∧ q <+: v.flatten ∧
      ((writeBuffersTo c v).2 = .ok → q = v.flatten) :=
  writeBuffersToAux_spec _ c v

/-- One connection used the way `write`/`writeBuffers`/`resend` use it: packets
are written one after the other and the first failure ends the use of the
connection (it is closed and replaced by the pending marker). -/
def sendAll : WConn → List (List Bytes) → WConn × Nat × Bool
  | c, [] => (c, 0, true)
  | c, v :: rest =>
    match writeBuffersTo c v with
    | (c', .ok) =>
      let (c'', k, allOk) := sendAll c' rest
      (c'', k + 1, allOk)
    | (c', _) => (c', 0, false)

/-- The bytes on a connection are always complete packets followed by at most
one incomplete packet, after which nothing further is written; every packet
reported as written is completely there. -/
theorem C08_connection_whole_packets (c : WConn) (ps : List (List Bytes)) :
    ∃ q, (sendAll c ps).1.log = c.log ++ ((ps.take (sendAll c ps).2.1).map List.flatten).flatten ++ q ∧
      (sendAll c ps).2.1 ≤ ps.length ∧
      ((sendAll c ps).2.2 = true → q = [] ∧ (sendAll c ps).2.1 = ps.length) ∧
      ((sendAll c ps).2.2 = false → ∃ v, ps[(sendAll c ps).2.1]? = some v ∧ q <+: v.flatten) := by
  induction ps generalizing c with
  | nil => exact ⟨[], by simp [sendAll]⟩
  | cons v rest ih =>
    obtain ⟨q, h1, h2, h3⟩ := C08_writeBuffersTo_prefix c v
    unfold sendAll
    rcases hw : writeBuffersTo c v with ⟨c', o⟩
    rw [hw] at h1 h3
    simp only at h1 h3
    cases o with
    | ok =>
      obtain ⟨q', g1, g2, g3, g4⟩ := ih c'
      refine ⟨q', ?_, by simp; omega, ?_, ?_⟩
      · simp only [g1, h1, h3 rfl, List.take_succ_cons, List.map_cons, List.flatten_cons, List.append_assoc]
      · intro hk; obtain ⟨a, b⟩ := g3 hk; exact ⟨a, by simp [b]⟩
      · intro hk; obtain ⟨w, a, b⟩ := g4 hk; exact ⟨w, by simpa using a, b⟩
    | timeout => exact ⟨q, by simp [h1], by simp, by simp, fun _ => ⟨v, by simp, h2⟩⟩
    | hard => exact ⟨q, by simp [h1], by simp, by simp, fun _ => ⟨v, by simp, h2⟩⟩
    | closed => exact ⟨q, by simp [h1], by simp, by simp, fun _ => ⟨v, by simp, h2⟩⟩
    | gate => exact ⟨q, by simp [h1], by simp, by simp, fun _ => ⟨v, by simp, h2⟩⟩

/-! ## Non-vacuity: a vectored write with a progress-making expiry in the header -/
example : (writeBuffersTo { policy := [⟨3, .timeout⟩] } [[1, 2, 3, 4, 5, 6], [7, 8, 9]]).1.log = [1, 2, 3, 4, 5, 6, 7, 8, 9] ∧
    (writeBuffersTo { policy := [⟨3, .timeout⟩] } [[1, 2, 3, 4, 5, 6], [7, 8, 9]]).2 = .ok := by decide
example : (writeTo { policy := [⟨2, .timeout⟩, ⟨1, .hard⟩] } [1, 2, 3, 4, 5]).1.log = [1, 2, 3] := by decide

/-! ## The session model's writes go through these loops: per call site, on the connection in use -/

/-- a write of the session model on its current connection puts a prefix of the packet on that connection (the whole
packet exactly when it reports success), and the wire event carries exactly those bytes -/
theorem C08_session_write_prefix (s : S) (c : Conn) (p : Bytes) (hc : s.conn = some c) (ho : c.rd.closed = false) :
    ∃ c' q, (s.connWrite (writeTo · p)).1.conn = some c' ∧ c'.id = c.id ∧ c'.log = c.log ++ q ∧ q <+: p ∧
      ((s.connWrite (writeTo · p)).2 = .ok → q = p) ∧
      (s.connWrite (writeTo · p)).1.evs = (if q.isEmpty then s.evs else Ev.w c.id q :: s.evs) := by
  obtain ⟨q, h1, h2, h3⟩ := C08_writeTo_prefix c.wconn p
  have hlog : c.wconn.log = c.log := rfl
  rw [hlog] at h1
  obtain ⟨e1, e2, e3⟩ := connWrite_open s c (writeTo · p) hc ho
  have hd : (writeTo c.wconn p).1.log.drop c.log.length = q := by rw [h1]; simp
  refine ⟨_, q, e2, rfl, h1, h2, ?_, ?_⟩
  · rw [e1]; exact h3
  · rw [e3]; simp only [hd]

/-- the same for a packet written from several buffers (PUBLISH: head, topic, payload) -/
theorem C08_session_writeBuffers_prefix (s : S) (c : Conn) (bs : List Bytes) (hc : s.conn = some c) (ho : c.rd.closed = false) :
    ∃ c' q, (s.connWrite (writeBuffersTo · bs)).1.conn = some c' ∧ c'.id = c.id ∧ c'.log = c.log ++ q ∧ q <+: bs.flatten ∧
      ((s.connWrite (writeBuffersTo · bs)).2 = .ok → q = bs.flatten) ∧
      (s.connWrite (writeBuffersTo · bs)).1.evs = (if q.isEmpty then s.evs else Ev.w c.id q :: s.evs) := by
  obtain ⟨q, h1, h2, h3⟩ := C08_writeBuffersTo_prefix c.wconn bs
  have hlog : c.wconn.log = c.log := rfl
  rw [hlog] at h1
  obtain ⟨e1, e2, e3⟩ := connWrite_open s c (writeBuffersTo · bs) hc ho
  have hd : (writeBuffersTo c.wconn bs).1.log.drop c.log.length = q := by rw [h1]; simp
  refine ⟨_, q, e2, rfl, h1, h2, ?_, ?_⟩
  · rw [e1]; exact h3
  · rw [e3]; simp only [hd]

/-- a connection that was closed (by a failed write, by Close, by the read routine) is never written again -/
theorem C08_closed_connection_silent (s : S) (c : Conn) (f : WConn → WConn × WOut) (hc : s.conn = some c)
    (hcl : c.rd.closed = true) : s.connWrite f = (s, .closed) := by
  unfold S.connWrite
  simp [hc, hcl]

/-- after a write that failed, the request paths close the connection (unless it turned out to be closed already, which
`connWrite` records): together with `C08_closed_connection_silent` nothing follows an incomplete packet -/
theorem C08_failed_write_closes (s : S) (c : Conn) (o : WOut) (hc : s.conn = some c) (hcl : o = .closed → c.rd.closed = true) :
    ∃ c', (s.afterWriteErr o).1.conn = some c' ∧ c'.id = c.id ∧ c'.log = c.log ∧ c'.rd.closed = true := by
  unfold S.afterWriteErr
  by_cases ho : o = .closed
  · subst ho; exact ⟨c, by simp [hc], rfl, rfl, hcl rfl⟩
  · have : (o == WOut.closed) = false := by cases o <;> simp_all
    simp only [this, Bool.false_eq_true, if_false]
    unfold S.closeConn
    simp only [hc]
    by_cases hcl : c.rd.closed = true
    · exact ⟨c, by simp [hcl, hc], rfl, rfl, hcl⟩
    · simp only [hcl, Bool.false_eq_true, if_false]
      exact ⟨{ c with rd := { c.rd with closed := true } }, by simp [S.emit], rfl, rfl, rfl⟩

/-- the read routine's acknowledgement write: whatever the connection does with it, a prefix of the packet goes out on
the current connection; it is the whole packet when the call reports success, and otherwise (the `unsupported` answers
aside, where the model stops following) the connection is closed behind the incomplete packet -/
theorem C08_reader_write (s : S) (c : Conn) (p : Bytes) (hc : s.conn = some c) (ho : c.rd.closed = false) :
    ∃ c' q, (s.readerWrite p).1.conn = some c' ∧ c'.id = c.id ∧ c'.log = c.log ++ q ∧ q <+: p ∧
      ((s.readerWrite p).2 = none → q = p) ∧
      (∀ e, (s.readerWrite p).2 = some e → e ≠ mkErr ["unsupported"] → q = [] ∨ c'.rd.closed = true) := by
  unfold S.readerWrite
  cases hl : s.link
  case closed => exact ⟨c, [], hc, rfl, by simp, by simp, by simp, fun _ _ _ => Or.inl rfl⟩
  case down => exact ⟨c, [], hc, rfl, by simp, by simp, by simp, fun _ _ _ => Or.inl rfl⟩
  case pending => exact ⟨c, [], hc, rfl, by simp, by simp, by simp, fun _ _ _ => Or.inl rfl⟩
  case live =>
    simp only
    by_cases hg : (s.held.isSome || s.gateAhead) = true
    · simp only [hg, if_true]
      exact ⟨c, [], hc, rfl, by simp, by simp, by simp, fun e he hne => absurd (Option.some.inj he).symm hne⟩
    · simp only [hg, Bool.false_eq_true, if_false]
      obtain ⟨c1, q, h1, h2, h3, h4, h5, _⟩ := C08_session_write_prefix s c p hc ho
      obtain ⟨e1, e2, _⟩ := connWrite_open s c (writeTo · p) hc ho
      rcases hw : s.connWrite (writeTo · p) with ⟨s1, o⟩
      rw [hw] at h1 h5 e1 e2
      simp only at h1 h5 e1 e2
      by_cases hok : o = .ok
      · subst hok
        exact ⟨c1, q, by simpa using h1, h2, h3, h4, fun _ => h5 rfl, by simp⟩
      · have hok' : (o == WOut.ok) = false := by cases o <;> simp_all
        simp only [hok', Bool.false_eq_true, if_false]
        by_cases hga : o = .gate
        · subst hga
          exact ⟨c1, q, by simpa using h1, h2, h3, h4, by simp, fun e he hne => absurd (by simpa using he.symm) hne⟩
        · have hga' : (o == WOut.gate) = false := by cases o <;> simp_all
          simp only [hga', Bool.false_eq_true, if_false]
          have hcl : o = .closed → c1.rd.closed = true := by
            intro h; subst h
            rw [h1] at e2
            have := Option.some.inj e2
            rw [this]; simp [← e1]
          obtain ⟨c2, g1, g2, g3, g4⟩ := C08_failed_write_closes s1 c1 o h1 hcl
          exact ⟨c2, q, g1, g2.trans h2, g3.trans h3, h4, by simp, fun _ _ _ => Or.inr g4⟩

/-- non-vacuity: an open connection that takes three bytes and then fails leaves a proper prefix and is closed -/
example : (writeTo { policy := [{ accept := 3, out := .hard }], log := [] } [1,2,3,4,5]).1.log = [1,2,3] := by decide

end Model
