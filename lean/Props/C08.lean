import Proofs.WriteLoop
/-! # C08 — a connection carries whole packets only, under short writes

Model: `Model.writeTo`, `Model.writeBuffersTo` (client.go write loops incl.
`net.Buffers.WriteTo`/`consume`) over a policy-driven connection, and the
sequential use of one connection by the write wrappers (stop at first failure). -/
namespace Model

/-- `writeTo`: for every packet and every pattern of short writes, deadline
expiries and errors, the bytes put on the connection are a prefix of the packet,
and the whole packet when success is reported. -/
theorem C08_writeTo_prefix (c : WConn) (p : Bytes) :
    ∃ q, (writeTo c p).1.log = c.log ++ q ∧ q <+: p ∧ ((writeTo c p).2 = .ok → q = p) :=
  writeToAux_spec _ c p

/-- `writeBuffersTo`: the same for every split of the packet into buffers
(header + payload in practice). -/
theorem C08_writeBuffersTo_prefix (c : WConn) (v : List Bytes) :
    ∃ q, (writeBuffersTo c v).1.log = c.log ++ q ∧ q <+: v.flatten ∧
      ((writeBuffersTo c v).2 = .ok → q = v.flatten) :=
  writeBuffersToAux_spec _ c v

/-- One connection used the way `write`/`writeBuffers`/`resend` use it: packets
are written one after the other and the first failure ends the use of the
connection (it is closed and replaced by the pending marker). -/
def sendAll : WConn → List (List Bytes) → WConn × Nat × Bool
  | c, [] => (c, 0, true)
  | c, v :: rest =>
    match writeBuffersTo c v with
    | (c', .ok) =>
      let (c'', k, allOk) := sendAll c' rest
      (c'', k + 1, allOk)
    | (c', _) => (c', 0, false)

/-- The bytes on a connection are always complete packets followed by at most
one incomplete packet, after which nothing further is written; every packet
reported as written is completely there. -/
theorem C08_connection_whole_packets (c : WConn) (ps : List (List Bytes)) :
    ∃ q, (sendAll c ps).1.log = c.log ++ ((ps.take (sendAll c ps).2.1).map List.flatten).flatten ++ q ∧
      (sendAll c ps).2.1 ≤ ps.length ∧
      ((sendAll c ps).2.2 = true → q = [] ∧ (sendAll c ps).2.1 = ps.length) ∧
      ((sendAll c ps).2.2 = false → ∃ v, ps[(sendAll c ps).2.1]? = some v ∧ q <+: v.flatten) := by
  induction ps generalizing c with
  | nil => exact ⟨[], by simp [sendAll]⟩
  | cons v rest ih =>
    obtain ⟨q, h1, h2, h3⟩ := C08_writeBuffersTo_prefix c v
    unfold sendAll
    rcases hw : writeBuffersTo c v with ⟨c', o⟩
    rw [hw] at h1 h3
    simp only at h1 h3
    cases o with
    | ok =>
      obtain ⟨q', g1, g2, g3, g4⟩ := ih c'
      refine ⟨q', ?_, by simp; omega, ?_, ?_⟩
      · simp only [g1, h1, h3 rfl, List.take_succ_cons, List.map_cons, List.flatten_cons, List.append_assoc]
      · intro hk; obtain ⟨a, b⟩ := g3 hk; exact ⟨a, by simp [b]⟩
      · intro hk; obtain ⟨w, a, b⟩ := g4 hk; exact ⟨w, by simpa using a, b⟩
    | timeout => exact ⟨q, by simp [h1], by simp, by simp, fun _ => ⟨v, by simp, h2⟩⟩
    | hard => exact ⟨q, by simp [h1], by simp, by simp, fun _ => ⟨v, by simp, h2⟩⟩
    | closed => exact ⟨q, by simp [h1], by simp, by simp, fun _ => ⟨v, by simp, h2⟩⟩
    | gate => exact ⟨q, by simp [h1], by simp, by simp, fun _ => ⟨v, by simp, h2⟩⟩

/-! ## Non-vacuity: a vectored write with a progress-making expiry in the header -/
example : (writeBuffersTo { policy := [⟨3, .timeout⟩] } [[1, 2, 3, 4, 5, 6], [7, 8, 9]]).1.log = [1, 2, 3, 4, 5, 6, 7, 8, 9] ∧
    (writeBuffersTo { policy := [⟨3, .timeout⟩] } [[1, 2, 3, 4, 5, 6], [7, 8, 9]]).2 = .ok := by decide
example : (writeTo { policy := [⟨2, .timeout⟩, ⟨1, .hard⟩] } [1, 2, 3, 4, 5]).1.log = [1, 2, 3] := by decide

end Model
