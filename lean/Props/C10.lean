import Proofs.Sync
import Props.C07
import Proofs.Locks
import Model.Signals
import Proofs.Offline
import Proofs.Signals
import Proofs.Connect
/-! # C10 — the read routine never wedges: failed connections are left and redialed

Model: `Model.Sync` (every interleaving of the read routine with any number of
writers and closers over the two semaphores) and the read routine's own
no-wait write of `Model.Session` (C07_reader_write_never_waits). -/
namespace Model.Sync

/-- Whatever the other goroutines did, a read routine that wants to leave its
connection (read error, EOF, protocol violation, failed own write) has an
enabled step: the write semaphore never holds a value `toOffline` cannot take —
in particular never the failed-connect marker while a connection is being read. -/
theorem C10_reader_can_leave {c : Cfg} (h : Reachable c) (hr : c.rpc = .read) : ∃ c', Step c c' ∧ (c'.rpc = .idle ∨ c'.connOpen = false) := by
  have hi := reachable_inv h
  have hd := hi.readNotDown hr
  cases hw : c.wsem with
  | pending => exact ⟨_, Step.rOffline c hr (Or.inr hw), Or.inl rfl⟩
  | down => exact absurd hw hd
  | live => exact ⟨_, Step.rOffline c hr (Or.inl hw), Or.inl rfl⟩
  | empty => exact ⟨_, Step.rInterrupt c hr hw, Or.inr rfl⟩
  | closed => exact ⟨_, Step.rOfflineClosed c hr hw, Or.inl rfl⟩

/-- Whoever holds the write lock can give it back in one step of its own
(a writer inside conn.Write returns — with success or because the connection
was closed under it —, the resending reader finishes or fails): nobody waits
for a lock whose holder is itself waiting for something. -/
theorem C10_holder_releases {c : Cfg} (h : Reachable c) (he : c.wsem = .empty) : ∃ c', Step c c' ∧ c'.wsem ≠ .empty := by
  have hi := reachable_inv h
  rcases hi.lock.mp he with ⟨b, hb⟩ | hr
  · exact ⟨_, Step.wOk c b hb, by simp⟩
  · exact ⟨_, Step.rResendFail c hr, by simp⟩

/-- A failed write by any goroutine closes the connection and leaves the
pending marker: the read routine's next read fails, `toOffline` is enabled, and
from `idle` the next `ReadSlices` dials again. -/
theorem C10_failed_write_is_noticed {c : Cfg} (h : Reachable c) (a : Nat) (ha : c.pc a = .wHold) (hr : c.rpc = .read) :
    let c1 : Cfg := { c with wsem := .pending, connOpen := false, pc := setPc c.pc a .idle, wholder := none }
    Step c c1 ∧ (∃ c2, Step c1 c2 ∧ c2.rpc = .idle ∧ c2.wsem = .pending ∧ c2.offline = true ∧ c2.online = false) := by
  intro c1
  refine ⟨Step.wFail c a ha, ⟨_, Step.rOffline c1 hr (Or.inr rfl), rfl, rfl, rfl, rfl⟩⟩

/-- From idle, with connection control free, the read routine can always start a connect (redial). -/
theorem C10_redial_enabled {c : Cfg} (hr : c.rpc = .idle) (hc : c.csem = .free) : ∃ c', Step c c' ∧ c'.rpc = .dial :=
  ⟨_, Step.rConnect c hr hc, rfl⟩

/-- Once dial, handshake and resend succeed the client signals Online, blocks
Offline and serves requests: the live connection is in the write semaphore. -/
theorem C10_online_after_success {c : Cfg} (hr : c.rpc = .resend) (ho : c.connOpen = true) :
    ∃ c', Step c c' ∧ c'.online = true ∧ c'.offline = false ∧ c'.wsem = .live ∧ c'.rpc = .read :=
  ⟨_, Step.rOnline c hr ho, rfl, rfl, rfl, rfl⟩

/-- Requests never write on a connection while the read routine resends on it
or another request is inside its transfer: one holder at a time. -/
theorem C10_one_writer_at_a_time {c : Cfg} (h : Reachable c) (a b : Nat) (ha : c.pc a = .wHold) (hb : c.pc b = .wHold) :
    a = b ∧ c.rpc ≠ .resend := by
  have hi := reachable_inv h
  exact ⟨hi.excl a b ha hb, fun hr => hi.exclR hr a ha⟩

end Model.Sync

namespace Model

/-- For every non-fatal error that needs a reconnect the wait lies within the
configured bounds (`newClient` raises max to at least min), refusals wait the
maximum, and consecutive failures double the wait. -/
theorem C10_backoff_bounds (wait min max : Nat) (hmm : min ≤ max) (refused : Bool) :
    let r := readBackoffIdle wait min max false refused
    min ≤ r.1 ∧ r.1 ≤ max ∧ (refused = true → r.1 = max) ∧ (refused = false → r.2 = 2 * r.1) := by
  intro r
  simp only [r, readBackoffIdle]
  cases refused <;> simp [Nat.min_def, Nat.max_def] <;> (repeat' split) <;> omega


/-- `newClient` always leaves a minimum that does not exceed the maximum, whatever the application configured (zero, negative,
a maximum below the minimum): the hypothesis of `C10_backoff_bounds` holds for every Config, and a Config left at its zero
values waits the documented second. -/
theorem C10_wait_normalised (mn mx : Int) :
    (waitNorm mn mx).1 ≤ (waitNorm mn mx).2 ∧ (mn = 0 → (waitNorm mn mx).1 = 1000000000) ∧ (0 < mn → (waitNorm mn mx).1 = mn.toNat) := by
  unfold waitNorm
  simp only
  refine ⟨?_, ?_, ?_⟩
  · repeat' split
    all_goals omega
  · intro h; subst h; simp
  · intro h
    have h1 : (mn == 0) = false := by simp; omega
    have h2 : ¬ mn < 0 := by omega
    simp [h1, h2]

/-! ## Lock order: no circular wait between the read routine, publishers and closers -/

/-- REGENERATED FACT. The order in which `connect`, `submitPersisted` (with the write function it calls), `Close` and
`Disconnect` take the client's semaphores, as the extractor reads it off the source on every run, follows one ranking:
connection control < sequence locks < write lock. -/
theorem C10_fact_lock_order :
    orderOK Facts.syn_connect_locks = true ∧ orderOK Facts.syn_submitPersisted_locks = true ∧
    orderOK Facts.syn_Close_locks = true ∧ orderOK Facts.syn_Disconnect_locks = true := by decide

/-- whoever follows an accepted acquisition order waits, at each point of it, only for a semaphore ranked above all it holds -/
theorem C10_order_is_discipline (names : List String) (rs : List Nat) (hr : names.mapM lockRank = some rs)
    (hok : orderOK names = true) (i : Nat) (hi : i < rs.length) : (Waiter.mk (rs.take i) rs[i]).Disciplined :=
  orderOK_disciplined names rs hr hok i hi

/-- Among actors that keep this discipline there is no circular wait: a publisher inside a slow `Persistence.Save` (holding
its sequence lock) and the read routine inside `connect` cannot block each other for ever, for any number of actors. -/
theorem C10_no_circular_wait (a : Waiter) (ps : List Waiter) (ha : a.Disciplined) (hd : ∀ p ∈ ps, p.Disciplined)
    (hc : WaitChain a ps) (hne : ps ≠ []) (hback : WaitsFor (ps.getLast hne) a) : False :=
  no_deadlock_cycle a ps ha hd hc hne hback

/-- non-vacuity: the inverted order (write lock before the sequence locks) is rejected -/
example : orderOK ["connSem", "writeSem", "atLeastOnce.seqSem", "exactlyOnce.seqSem"] = false := by decide

/-- REGENERATED FACT. `connect` (on success) and `toOffline` flip the signals in this order, as the extractor reads it off the
source on every run, and only then hand the write semaphore back: Offline is blocked before Online is released (connect), Online
is blocked before Offline is released (toOffline). Both keep "never both released" from every state, end in Online (resp.
Offline), and – flipping under the write lock – cannot be overtaken by a `Close` that takes that lock. -/
theorem C10_fact_signals :
    soundSignals Facts.syn_connect_signals true = true ∧ soundSignals Facts.syn_toOffline_signals false = true := by decide

/-! ## The read routine leaves a failed connection (session model) -/

/-- `toOffline` always abandons the read state of the connection: nothing is read from it any more and no big message
stays parked -/
theorem C10_toOffline_drops_read (s : S) : s.toOffline.readConn = false ∧ s.toOffline.big = none := by
  rw [toOffline_eq]
  split
  · exact ⟨rfl, rfl⟩
  · exact ⟨(offTail_rd _).1, (offTail_rd _).2.1⟩

/-- and, unless the client is closed, the write semaphore holds the pending marker afterwards: the next ReadSlices dials -/
theorem C10_toOffline_pending (s : S) (h : s.link ≠ .closed) : s.toOffline.link = .pending := by
  rw [toOffline_eq]
  have : (s.link == Link.closed) = false := by cases hl : s.link <;> simp_all
  simp only [this, Bool.false_eq_true, if_false]
  exact (offTail_rd _).2.2

/-- F26 on the model: whenever a read inside `BigMessage.ReadAll` fails, the call returns that error with the read routine off
the connection – the rest of the payload is never taken for packets -/
theorem C10_failed_readall_gives_up (s : S) (size : Nat) (rd : Rd) (hb : s.big = some size) (hr : s.rd? = some rd)
    (hf : (readAllLoop (size + 1) rd size []).2.2 = true) :
    (s.readAll).1.readConn = false ∧ (s.readAll).1.big = none ∧ (∃ e, (s.readAll).2 = .error e) := by
  unfold S.readAll
  simp only [hb, hr]
  rcases hl : readAllLoop (size + 1) rd size [] with ⟨rd', r, failed⟩
  rw [hl] at hf
  simp only at hf
  subst hf
  simp only [if_true]
  refine ⟨(C10_toOffline_drops_read _).1, (C10_toOffline_drops_read _).2, ?_⟩
  have := readAllLoop_failed_error (size + 1) rd size []
  rw [hl] at this
  exact this rfl
example : (readAllLoop 2 { size := 4 } 1 []).2.2 = true := by decide

/-- `toOffline` blocks the Online signal (and so releases Offline) unless the client is closed, in which case `Close` has done so -/
theorem C10_toOffline_blocks_online (s : S) (h : s.link ≠ .closed) : s.toOffline.online = false := by
  rw [toOffline_eq]
  have : (s.link == Link.closed) = false := by cases hl : s.link <;> simp_all
  simp only [this, Bool.false_eq_true, if_false]
  unfold offTail
  rw [breakAll_online, releasePing_online]

/-- `connect` as a whole: whenever it reports success the client is online -/
theorem C10_connect_success_online (s : S) (fromPrologue : Bool) (h : (s.connect fromPrologue).2 = .done none) :
    (s.connect fromPrologue).1.online = true ∧ (s.connect fromPrologue).1.link = .live ∧ (s.connect fromPrologue).1.readConn = true := by
  have key : ConnectGood (s.connect fromPrologue) := by
    unfold S.connect
    repeat' (first | split | dsimp only)
    all_goals first
      | exact connectFail_good _ _ _
      | exact connectFinish_good _ _ _
      | (intro h; cases h; done)
      | (intro h; rename_i hm; have := connectFinish_good _ _ _; simp_all [ConnectGood]; done)
  exact key h

/-- when the read routine leaves a connection, no request stays registered: the transaction table is empty and the ping slot
free (each one was answered with ErrBreak: `C11_breakAll_releases_all`, `C11_ping_slot`) -/
theorem C10_toOffline_releases_requests (s : S) (h : s.link ≠ .closed) : s.toOffline.txs = [] ∧ s.toOffline.ping = none := by
  rw [toOffline_eq]
  have : (s.link == Link.closed) = false := by cases hl : s.link <;> simp_all
  simp only [this, Bool.false_eq_true, if_false]
  unfold offTail
  constructor
  · unfold S.breakAll; rfl
  · rw [breakAll_ping, releasePing_none]

end Model
