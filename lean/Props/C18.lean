import Proofs.Connect
import Generated.Facts
import Model.Session
/-! # C18 — connection set-up: CONNECT first, clean session once, resend before new

Model: `Model.S.connect` (connect + dialAndConnect + handshake + resend),
`Model.connackCheck`, `Model.S.lockWrite`. -/
namespace Model

theorem C18_fact_connack : Facts.typeCONNACK = 2 ∧ Facts.typeCONNECT = 1 ∧ Facts.accepted' = 0 ∧
    Facts.connPending = 0 ∧ Facts.connDown = 1 := by decide

/-- CONNACK decision table, for every four-byte reply: accepted exactly for
`20 02 00 00`, or `20 02 01 00` when no clean session was requested. -/
theorem C18_connack_accept_iff (clean : Bool) (b0 b1 b2 b3 : UInt8) :
    (∃ sp, connackCheck clean [b0, b1, b2, b3] none = .ok sp) ↔
      (b0.toNat = 0x20 ∧ b1.toNat = 2 ∧ b3.toNat = 0 ∧ (b2.toNat = 0 ∨ (b2.toNat = 1 ∧ clean = false))) := by
  have h2 : Facts.typeCONNACK * 16 = 0x20 := rfl
  unfold connackCheck
  simp only [h2]
  by_cases hb0 : b0.toNat = 0x20 <;> by_cases hb1 : b1.toNat = 2 <;> simp [hb0, hb1]
  by_cases hb3 : b3.toNat = 0 <;> simp [hb3]
  by_cases h20 : b2.toNat = 0 <;> simp [h20]
  by_cases h21 : b2.toNat = 1 <;> simp [h21]
  cases clean <;> simp

/-- A non-zero return code is a connection refusal (checked before the flags);
wrong header, reserved flags or session-present on a clean-session request are
protocol violations. -/
theorem C18_connack_refuse (clean : Bool) (b2 b3 : UInt8) (h : b3.toNat ≠ 0) :
    connackCheck clean [0x20, 2, b2, b3] none =
      .err (mkErr [if b3.toNat ≤ 5 then s!"refused:{b3.toNat}" else "refused:x"]) := by
  unfold connackCheck
  simp [Facts.typeCONNACK, h]

theorem C18_connack_bad_header (clean : Bool) (b0 b1 : UInt8) (rest : Bytes) (e : Option RErr)
    (h : b0.toNat ≠ 0x20 ∨ b1.toNat ≠ 2) : connackCheck clean (b0 :: b1 :: rest) e = .err (mkErr ["reset"]) := by
  have h2 : Facts.typeCONNACK * 16 = 0x20 := rfl
  unfold connackCheck
  simp only [h2]
  rcases h with h | h <;> simp [h]

theorem C18_connack_session_present_on_clean : connackCheck true [0x20, 2, 1, 0] none = .err (mkErr ["reset"]) := by decide
theorem C18_connack_reserved_flags (clean : Bool) (b2 : UInt8) (h : b2.toNat ≥ 2) :
    connackCheck clean [0x20, 2, b2, 0] none = .err (mkErr ["reset"]) := by
  unfold connackCheck
  have h0 : ¬ b2.toNat = 0 := by omega
  have h1 : ¬ b2.toNat = 1 := by omega
  simp [Facts.typeCONNACK, h0, h1]

/-- A short reply (fewer than four bytes and then EOF, a deadline expiry or an
error) never connects. -/
theorem C18_connack_short (clean : Bool) (packet : Bytes) (e : RErr) : ∀ sp, connackCheck clean packet (some e) ≠ .ok sp := by
  intro sp h
  unfold connackCheck at h
  simp only at h
  repeat' split at h
  all_goals cases h

/-- requests wait while a connect attempt is in progress, fail with ErrDown
after a failed attempt, proceed on a live connection, ErrClosed after Close -/
theorem C18_lockWrite_table (s : S) :
    (s.link = .pending → s.lockWrite = .wait) ∧ (s.link = .down → s.lockWrite = .fail (mkErr ["down"])) ∧
    (s.link = .live → s.lockWrite = .go) ∧ (s.link = .closed → s.lockWrite = .fail (mkErr ["closed"])) := by
  unfold S.lockWrite
  refine ⟨?_, ?_, ?_, ?_⟩ <;> intro h <;> simp [h]

/-- CleanSession is requested only while no connection was established before:
the CONNECT flags byte carries bit 1 exactly for `cleanSession` of the Config
copy `connect` passes on, which is `cfg.cleanSession && !hadConn`. -/
theorem C18_connreq_clean_bit (c : Cfg) (cid : Bytes) :
    (c.connreq cid = [UInt8.ofNat (Facts.typeCONNECT * 16)] ++ encodeVarint (c.connectSize cid)
      ++ [0, 4, 0x4D, 0x51, 0x54, 0x54, 4, UInt8.ofNat c.connectFlags] ++ be16 c.keepAlive ++ strField cid
      ++ (match c.will.message with | some m => strField c.will.topic ++ strField m | none => [])
      ++ (if c.hasUser then strField c.userName else [])
      ++ (match c.password with | some p => strField p | none => [])) ∧
    ((UInt8.ofNat c.connectFlags).toNat / 2 % 2 = 1 ↔ c.cleanSession = true) := by
  refine ⟨rfl, ?_⟩
  have : (UInt8.ofNat c.connectFlags).toNat = c.connectFlags % 256 := by simp [UInt8.toNat_ofNat']
  rw [this]
  unfold Cfg.connectFlags
  have e1 : Facts.exactlyOnceLevel * 8 = 16 := rfl
  have e2 : Facts.atLeastOnceLevel * 8 = 8 := rfl
  rw [e1, e2]
  cases c.cleanSession <;> cases c.hasUser <;> cases c.password <;> cases c.will.message <;> cases c.will.retain <;>
    cases c.will.exactlyOnce <;> cases c.will.atLeastOnce <;> simp

/-- REGENERATED FACT. The functions that arm a read or write deadline with `time.Now().Add(D)` – as the extractor lists them on
every run – all do so under a condition `D != 0`; the CONNACK wait of the handshake among them: with PauseTimeout left at zero (documented: no timeout protection) a valid CONNACK is not rejected by a deadline that expired at once. -/
theorem C18_fact_deadlines_respect_zero_timeout :
    Facts.deadlineArming = ["BigMessage.ReadAll", "Client.discard", "Client.handshake", "Client.peekPacket", "writeBuffersTo", "writeTo"] ∧
    Facts.deadlineArmingUnguarded = [] := by decide

/-- a connect attempt that fails (the client not being closed) leaves the "down" marker in the write semaphore and nobody waiting
for its outcome: every request that waited got its ErrDown, later ones get it at once (lockWrite table) -/
theorem C18_connect_failure_down (s : S) (fromPrologue : Bool) (e : Err) (hc : s.connSemClosed = false)
    (h : (s.connect fromPrologue).2 = .done (some e)) :
    (s.connect fromPrologue).1.link = .down ∧ (s.connect fromPrologue).1.waiters = [] := by
  have key : ConnectDown (s.connect fromPrologue) := by
    unfold S.connect
    simp only [hc, Bool.false_eq_true, if_false]
    repeat' (first | split | dsimp only)
    all_goals first
      | exact connectFail_down _ _ _
      | (intro e h; cases h; done)
      | (intro e _; exact ⟨by rw [(failWaiters_sig _ _).2], failWaiters_waiters _ _⟩)
      | (rename_i hm; intro e h
         have hs : ConnectDown (S.connectFinish _ _ _) := connectFinish_down _ _ _ (connWrite_conn_isSome _ _ (by simp [S.emit]))
         rw [hm] at hs
         first | (cases h; done) | exact hs e h)
      | (apply connectFinish_down; exact connWrite_conn_isSome _ _ (by simp [S.emit]))
  exact key e h

end Model
