import Model.Session
import Driver.Pure
/-! Line protocol of the sequential session port (model side). -/
namespace Driver
open Model

def errStr (e : Err) : String := if e.isEmpty then "ok" else "+".intercalate e

def hex4 (n : Nat) : String :=
  String.ofList ((Nat.toDigits 16 n).map Char.toLower)

def evLine : Ev → String
  | .save k p seq => s!"ev save {hex4 k} {hexOrDash p} {seq}"
  | .saveFail k => s!"ev savefail {hex4 k}"
  | .del k => s!"ev del {hex4 k}"
  | .delFail k => s!"ev delfail {hex4 k}"
  | .dial ok => "ev dial " ++ (if ok then "ok" else "fail")
  | .w c bs => s!"ev w {c} {hexOrDash bs}"
  | .close c => s!"ev close {c}"
  | .exch id e => s!"exch {id} {errStr e}"
  | .exchClose id => s!"exchclose {id}"
  | .ret tag e => s!"ret {tag} {errStr e}"
  | .note n => s!"note {n}"

def isLate : Ev → Bool
  | .exch .. | .exchClose .. | .ret .. => true
  | _ => false

def lateKey : Ev → (Nat × String × Nat)
  | .exch id _ => (0, "", id * 2)
  | .exchClose id => (0, "", id * 2 + 1)
  | .ret tag _ => (1, tag, 0)
  | _ => (2, "", 0)

def lateLt (a b : Ev) : Bool :=
  let (x1, t1, n1) := lateKey a
  let (x2, t2, n2) := lateKey b
  x1 < x2 || (x1 == x2 && (t1 < t2 || (t1 == t2 && n1 < n2)))

def insertLate (x : Ev) : List Ev → List Ev
  | [] => [x]
  | y :: ys => if lateLt y x || !(lateLt x y) then y :: insertLate x ys else x :: y :: ys

/-- merge consecutive wire events of one connection -/
def mergeW : List Ev → List Ev
  | .w c1 b1 :: .w c2 b2 :: rest =>
    if c1 == c2 then mergeW (.w c1 (b1 ++ b2) :: rest) else .w c1 b1 :: mergeW (.w c2 b2 :: rest)
  | e :: rest => e :: mergeW rest
  | [] => []
termination_by l => l.length

/-- take the events of the last operation out of the state, canonicalised -/
def isExch : Ev → Bool
  | .exch .. | .exchClose .. => true
  | _ => false

def flush (s : S) : S × List String :=
  let evs := s.evs.reverse
  let inl := mergeW (evs.filter (!isLate ·))
  -- while the application does not read its exchange channels, what they receive stays inside them
  let held := if s.holdEx then s.heldEx ++ evs.filter isExch else []
  let evs := if s.holdEx then evs.filter (!isExch ·) else evs
  let late := (evs.filter isLate).foldl (fun acc e => insertLate e acc) []
  ({ s with evs := [], heldEx := held }, (inl ++ late).map evLine)

def parseChunk (a : String) : Option (List Chunk) :=
  match a with
  | "tmo" => some [.timeout]
  | "err" => some [.hard]
  | "eof" => some [.eof]
  | "block" => some [.block]
  | h => (ofHex h).map fun b => if b.isEmpty then [] else [.data b]

/-- `feed <chunk>...`; the old single-chunk spellings are kept -/
def parseChunks (kind : String) (args : List String) : Option (List Chunk) :=
  match kind with
  | "feed" => (args.mapM parseChunk).map List.flatten
  | "feedtmo" => some [.timeout]
  | "feederr" => some [.hard]
  | "feedeof" => some [.eof]
  | "feedblock" => some [.block]
  | _ => none

def hexNat (s : String) : Option Nat :=
  s.toList.foldlM (fun acc c => (hexVal c).map (acc * 16 + ·)) 0

def parseFilters (s : String) : Option (List Bytes) :=
  if s == "none" then some [] else (s.splitOn ",").mapM ofHex

def warnStr : Warn → String
  | .corruptDeleted k => s!"corrupt-deleted:{hex4 k}"
  | .corruptKept k => s!"corrupt-kept:{hex4 k}"
  | .gap f l n => s!"gap:{hex4 f}-{hex4 l}>{hex4 n}"
  | .relGap f l n => s!"relgap:{hex4 f}-{hex4 l}>{hex4 n}"

def rsStr : RsResult → String
  | .msg t p => s!"rs msg {hexOrDash t} {hexOrDash p}"
  | .big t n => s!"rs big {hexOrDash t} {n}"
  | .err e => if e.contains "unsupported" then "unsupported block inside the handshake" else s!"rs err {errStr e}"
  | .parked => "rs parked"
  | .unsupported w => s!"unsupported {w}"

/-- the application keeps the result of ReadSlices for its call of ReadBackoff -/
def rsDone (s : S) (r : RsResult) : S × String :=
  let s := match r with
    | .msg _ _ => { s with lastRs := none }
    | .big _ _ => { s with lastRs := some ["big"] }
    | .err e => { s with lastRs := some e }
    | _ => s
  (s, rsStr r)

/-- a returned call becomes a `ret` event (sorted with the others); otherwise a result line -/
def callDone (s : S) (tag : String) : CallResult → S × List String
  | .ret e => (s.emit (.ret tag e), [])
  | .blocked => (s, [s!"blocked {tag}"])
  | .unsupported w => (s, [s!"unsupported {w}"])

def parsePolicy' (s : String) : Option (List WPol) :=
  if s == "-" then some [] else
  (s.splitOn ",").mapM fun e =>
    match e.toList with
    | 'o' :: _ => some ⟨0, .ok⟩
    | 't' :: r => (String.ofList r).toNat?.map (⟨·, .timeout⟩)
    | 'e' :: r => (String.ofList r).toNat?.map (⟨·, .hard⟩)
    | 'c' :: r => (String.ofList r).toNat?.map (⟨·, .closed⟩)
    | 'g' :: _ => some ⟨0, .gate⟩
    | _ => none

def storeLine (s : S) : String :=
  let items := s.core.store.sortedKeys.map fun k =>
    match s.core.store.get k with
    | some raw =>
      match decodeValue raw with
      | .ok (p, seq) => s!"{hex4 k}:{hexOrDash p}:{seq}"
      | .error _ => s!"{hex4 k}:corrupt:{raw.length}"
    | none => s!"{hex4 k}:none"
  " ".intercalate ("store" :: items)

def ctrLine (s : S) : String :=
  let c := s.core
  if c.l1.seqClosed then
    s!"ctr acked={c.acked} received={c.received} completed={c.completed} a1=0 s1=0 a2=0 s2=0 q1=0 q2=0 tx={s.txs.length}" else
  s!"ctr acked={c.acked} received={c.received} completed={c.completed} a1={c.l1.acceptN} s1={c.l1.submitN} a2={c.l2.acceptN} s2={c.l2.submitN} q1={c.l1.queue.length} q2={c.l2.queue.length} tx={s.txs.length}"

/-- after an operation by another actor: a parked reader whose connection got closed runs on -/
def wakeReader (s : S) : S × List String :=
  if s.readerCancelled then
    let (s, r) := ({ s with readerCancelled := false }).finishRs (.err (mkErr ["closed"]))
    let (s, l) := rsDone s r
    (s, [l])
  else if s.parkedHs.isSome then
    let (s', r) := s.readSlices
    match r with
    | .parked => (s', [])
    | r => let (s', l) := rsDone s' r; (s', [l])
  else if s.parked then
    let woke : Bool := match s.rd? with
      | some rd => rd.closed || rd.inq != [.block]
      | none => false
    if woke then
      let (s, r) := s.readSlices
      match r with
      | .parked => (s, [])
      | r => let (s, l) := rsDone s r; (s, [l])
    else (s, [])
  else (s, [])

def sessStep (s : S) (f : List String) : S × List String :=
  let done (s : S) (res : List String) (wake : Bool := true) : S × List String :=
    let (s, extra) := if wake then wakeReader s else (s, [])
    let (s, evs) := flush s
    (s, evs ++ res ++ extra)
  if s.noClient && ["rs", "readall", "pal", "peo", "call", "quit", "close", "disconnect", "counters", "txn", "backoff", "sig"].contains (f.headD "") then
    (s, ["noclient"]) else
  -- a Close or Disconnect waits behind a writer that stands at a scripted gate, and now the connection is lost or the reader moves
  -- on: who gets the write semaphore first is a race the sequential model does not decide
  if s.held.isSome && !s.closers.isEmpty && ["brk", "feed", "rs"].contains (f.headD "") then
    (s, ["unsupported connection event while a closer waits behind a parked writer"]) else
  match f with
  | ["bufsize", n] => match n.toNat? with
    | some n => ({ s with bufSize := n }, [])
    | none => (s, ["bad-op bufsize"])
  | ["sgate"] => (s, ["unsupported slow Save of the Persistence"])
  | ["sgo"] => (s, ["unsupported slow Save of the Persistence"])
  | ["cfgx", ka, user, pass, wt, wm, ret, alo, eo] =>
    -- the rest of the Config (all of it goes into CONNECT) for the sessions that follow
    match ka.toNat?, ofHex user, optHex pass, ofHex wt, optHex wm with
    | some ka, some user, some pass, some wt, some wm =>
      let w : Will := { topic := wt, message := wm, retain := ret == "1", atLeastOnce := alo == "1", exactlyOnce := eo == "1" }
      let c : Cfg := { s.cfg with userName := user, password := pass, keepAlive := ka, will := w }
      ({ s with cfg := c }, [])
    | _, _, _, _, _ => (s, ["bad-op cfgx"])
  | ["rwait", mn, mx] =>
    match mn.toInt?, mx.toInt? with
    | some mn, some mx => ({ s with cfg := { s.cfg with reconnectWaitMin := mn, reconnectWaitMax := mx } }, [])
    | _, _ => (s, ["bad-op rwait"])
  | ["initx", cid, variant] =>
    -- InitSession with a Config it must refuse: nothing is stored, the state stays as it was
    let base : Cfg := { atLeastOnceMax := 4, exactlyOnceMax := 4 }
    let cfg? : Option Cfg := match variant with
      | "nuluser" => some { base with userName := [0x61, 0, 0x62] }
      | "baduser" => some { base with userName := [0xff, 0xfe] }
      | "bigpass" => some { base with password := some (List.replicate 65536 0) }
      | "willnotopic" => some { base with will := { message := some [0x6d] } }
      | "badwilltopic" => some { base with will := { topic := [0x61, 0], message := some [0x6d] } }
      | "bigwill" => some { base with will := { topic := [0x77], message := some (List.replicate 65536 0) } }
      | _ => none
    match ofHex cid, cfg? with
    | some cid, some cfg =>
      match s.initSession cid cfg with
      | (s, none) => done s ["init ok"] false
      | (s, some e) => done s [s!"init err {errStr e}"] false
    | some _, none => if variant == "nodialer" then (s, ["init err other"]) else (s, ["bad-op initx"])
    | _, _ => (s, ["bad-op initx"])
  | [op@"init", cid, clean, m1, m2] | [op@"vinit", cid, clean, m1, m2] =>
    let _ := op
    match ofHex cid, m1.toInt?, m2.toInt? with
    | some cid, some m1, some m2 =>
      let cfg : Cfg := { s.cfg with cleanSession := clean == "1", atLeastOnceMax := m1, exactlyOnceMax := m2 }
      match s.initSession cid cfg with
      | (s, none) => done s ["init ok"] false
      | (s, some e) => done s [s!"init err {errStr e}"] false
    | _, _, _ => (s, ["bad-op init"])
  | ["adopt", clean, m1, m2] =>
    match m1.toInt?, m2.toInt? with
    | some m1, some m2 =>
      let cfg : Cfg := { s.cfg with cleanSession := clean == "1", atLeastOnceMax := m1, exactlyOnceMax := m2 }
      match s.adoptSession cfg with
      | (s, .ok ws) => done s ["adopt ok " ++ (if ws.isEmpty then "-" else ";".intercalate (ws.map warnStr))] false
      | (s, .error e) => done s [s!"adopt fatal {errStr e}"] false
    | _, _ => (s, ["bad-op adopt"])
  | "dial" :: "ok" :: reply :: rest =>
    match ofHex reply, parsePolicy' (rest.headD "-") with
    | some r, some pol =>
      ({ s with dials := s.dials ++ [{ ok := true, reply := if r.isEmpty then [] else [.data r], wpol := pol }] }, [])
    | _, _ => (s, ["bad-op dial"])
  | ["dial", "fail"] => ({ s with dials := s.dials ++ [{ ok := false }] }, [])
  | ["dial", "block"] => ({ s with dials := s.dials ++ [{ ok := true, block := true }] }, [])
  | "wpol" :: pol :: _ =>
    -- a new write policy while a writer stands at the gate of the old one: what the scripted connection does then is its own business
    if s.held.isSome then (s, ["unsupported write policy replaced under a parked writer"]) else
    match parsePolicy' pol, s.conn with
    | some p, some c => ({ s with conn := some { c with wpol := p } }, [])
    | _, _ => (s, [])
  | ["mstate"] =>
    let link := match s.link with | .pending => "pending" | .down => "down" | .live => "live" | .closed => "closed"
    let connOpen := match s.conn with | some c => !c.rd.closed | none => false
    (s, [s!"mstate link={link} parked={s.parked} readConn={s.readConn} connOpen={connOpen} noClient={s.noClient} owed={!s.pendingAck.isEmpty} closed={s.connSemClosed} waiters={s.waiters.length} lockq={s.lockq.length} stuck={s.parkedDial || s.parkedHs.isSome || s.held.isSome || !s.closers.isEmpty}"])
  | ["brk"] =>
    let s := { s with prefeed := [], dials := [], fSave := false, fDel := false, fLoad := false }
    match s.conn with
    | some c =>
      if !c.rd.closed then
        done { s with conn := some { c with rd := { c.rd with inq := c.rd.inq ++ [.eof] } } } []
      else (s, [])
    | none => (s, [])
  | ["alias"] => (s, [])   -- aliasing has no counterpart under value semantics
  | ["sfail"] => ({ s with fSave := true }, [])
  | ["dfail"] => ({ s with fDel := true }, [])
  | ["lfail"] => ({ s with fLoad := true }, [])
  | ["rs"] =>
    if s.parkedDial then done s ["rs parked"] false
    else if s.parkedHs.isSome then
      let (s, r) := s.readSlices
      let (s, l) := rsDone s r
      done s [l] false
    else if s.parked then
      -- the call is still outstanding: report what it does now
      let woke : Bool := match s.rd? with | some rd => rd.closed || rd.inq != [.block] | none => false
      if woke then
        let (s, r) := s.readSlices
        let (s, l) := rsDone s r
        done s [l] false
      else done s ["rs parked"] false
    else
      let (s, r) := s.readSlices
      let (s, l) := rsDone s r
      done s [l] false
  | ["readall"] =>
    match s.readAll with
    | (s, .ok bs) => done s [s!"readall ok {hexOrDash bs}"]
    | (s, .error e) => if e.contains "unsupported" then (s, ["unsupported block inside ReadAll"]) else done s [s!"readall err {errStr e}"]
  | [op@"pal", retain, topic, msg] | [op@"peo", retain, topic, msg] =>
    match ofHex topic, ofHex msg with
    | some t, some m =>
      let (s, e, ex) := s.publishPersisted (if op == "pal" then 1 else 2) (retain == "1") t m
      match ex with
      | some ex => done s [s!"pub ok ex={ex}"]
      | none => if e.contains "unsupported" then (s, ["unsupported write gate"]) else done s [s!"pub err {errStr e}"]
    | _, _ => (s, ["bad-op " ++ op])
  | ["call", tag, "pub", retain, topic, msg] =>
    match ofHex topic, ofHex msg with
    | some t, some m =>
      let (s, r) := s.publish0 tag (retain == "1") t m
      let (s, res) := callDone s tag r
      done s res
    | _, _ => (s, ["bad-op call pub"])
  | ["call", tag, "sub", lvl, fs] =>
    match lvl.toNat?, parseFilters fs with
    | some l, some fs =>
      let (s, r) := s.subscribe tag fs l
      let (s, res) := callDone s tag r
      done s res
    | _, _ => (s, ["bad-op call sub"])
  | ["call", tag, "subhuge", n, len] =>
    match n.toNat?, len.toNat? with
    | some n, some len =>
      let (s, r) := s.subscribe tag (List.replicate n (List.replicate len 97)) 2
      let (s, res) := callDone s tag r
      done s res
    | _, _ => (s, ["bad-op call subhuge"])
  | ["call", tag, "unsubhuge", n, len] =>
    match n.toNat?, len.toNat? with
    | some n, some len =>
      let (s, r) := s.unsubscribe tag (List.replicate n (List.replicate len 97))
      let (s, res) := callDone s tag r
      done s res
    | _, _ => (s, ["bad-op call unsubhuge"])
  | ["call", tag, "unsub", fs] =>
    match parseFilters fs with
    | some fs =>
      let (s, r) := s.unsubscribe tag fs
      let (s, res) := callDone s tag r
      done s res
    | _ => (s, ["bad-op call unsub"])
  | ["call", tag, "ping"] =>
    let (s, r) := s.pingCall tag
    let (s, res) := callDone s tag r
    done s res
  | ["quit", tag] =>
    -- inside conn.Write the quit channel is not looked at; afterwards it races with the response
    if s.held.any (·.1 == tag) then (s, ["unsupported quit of the request inside conn.Write"]) else
    match s.quit tag with
    | (s, some e) => done (s.emit (.ret tag e)) []
    | (s, none) => done s [s!"quit {tag} unknown"]
  | ["close"] =>
    match s.closeCall "close" false with
    | (s, .ret _) => done s ["close ok"]
    | (s, .blocked) => done s ["blocked close"]
    | (s, .unsupported w) => (s, [s!"unsupported {w}"])
  | ["disconnect", "quit"] =>
    -- Disconnect with its quit signal given: deterministic only while another request holds the write lock (inside conn.Write)
    if s.connSemClosed then done s ["disconnect closed"] else
    if s.held.isNone || !s.closers.isEmpty || s.parkedDial || s.parkedHs.isSome then (s, ["unsupported quit races with the write lock"]) else
    match s.closeCall "close" false with        -- as Close: the connection is closed under the writer, then the client is closed
    | (s, .ret _) => done s ["disconnect canceled"]
    | (s, .blocked) => done s ["blocked disconnect"]
    | (s, .unsupported w) => (s, [s!"unsupported {w}"])
  | ["disconnect"] =>
    match s.closeCall "disconnect" true with
    | (s, .ret e) => if e.contains "unsupported" then (s, ["unsupported write gate"]) else done s [s!"disconnect {errStr e}"]
    | (s, .blocked) => done s ["blocked disconnect"]
    | (s, .unsupported w) => (s, [s!"unsupported {w}"])
  | ["wgo", o] =>
    -- the script opens the write gate: ok, or an outcome like t3 / e0 / c0
    let pol : Option (Option WPol) := if o == "ok" then some none else (parsePolicy' o).bind fun l => l.head?.map some
    match pol with
    | some x => done (s.release x) []
    | none => (s, ["bad-op wgo"])
  | ["cpol", "e"] =>
    match s.conn with
    | some c => ({ s with conn := some { c with cerr := true } }, [])
    | none => (s, [])
  | ["cpol", _] => (s, ["unsupported slow Close of the connection"])
  | ["cgo"] => (s, ["unsupported slow Close of the connection"])
  | ["exhold"] => ({ s with holdEx := true }, [])
  | ["exread"] =>
    let late := s.heldEx.foldl (fun acc e => insertLate e acc) []
    done { s with holdEx := false, heldEx := [] } (late.map evLine) false
  | ["sig"] => (s, [s!"sig online={if s.online then 1 else 0} offline={if s.online then 0 else 1}"])
  | ["counters"] =>
    -- the harness does not probe the counters while a writer stands at the write gate (the sequence tokens may be held)
    if s.held.isSome then (s, ["counters stalled"]) else (s, [ctrLine s])
  | ["txn", n] => match n.toNat? with
    | some n => ({ s with txN := n }, [])
    | none => (s, ["bad-op txn"])
  | ["backoff"] =>
    if s.parked || s.parkedDial || s.parkedHs.isSome then (s, ["backoff busy"]) else
    -- the harness configures ReconnectWaitMin 3 s and ReconnectWaitMax 20 s unless the script says otherwise (`rwait`)
    match s.readBackoff s.lastRs (waitNorm s.cfg.reconnectWaitMin s.cfg.reconnectWaitMax).1 (waitNorm s.cfg.reconnectWaitMin s.cfg.reconnectWaitMax).2 with
    | (s, .now) => (s, ["backoff now"])
    | (s, .never) => (s, ["backoff never"])
    | (s, .idle ns) => (s, [s!"backoff {ns / 1000000}ms"])
  | ["store"] => (s, [storeLine s])
  | ["damage", "alter", key, off, val] =>
    match hexNat key, off.toNat?, val.toNat? with
    | some k, some o, some v =>
      match s.core.store.get k with
      | some raw => ({ s with core := { s.core with store := s.core.store.put k (raw.set o (UInt8.ofNat v)) } }, [])
      | none => (s, [])
    | _, _, _ => (s, ["bad-op damage"])
  | ["damage", "trunc", key, len] =>
    match hexNat key, len.toNat? with
    | some k, some n =>
      match s.core.store.get k with
      | some raw => ({ s with core := { s.core with store := s.core.store.put k (raw.take n) } }, [])
      | none => (s, [])
    | _, _ => (s, ["bad-op damage"])
  | ["damage", "rm", key] =>
    match hexNat key with
    | some k => ({ s with core := { s.core with store := s.core.store.erase k } }, [])
    | none => (s, ["bad-op damage"])
  | ["damage", "stray", key, h] =>
    match hexNat key, ofHex h with
    | some k, some v => ({ s with core := { s.core with store := s.core.store.put k v } }, [])
    | _, _ => (s, ["bad-op damage"])
  | kind :: rest =>
    match parseChunks kind rest with
    | some [] => (s, [])
    | some cs =>
      match s.conn with
      | some c =>
        if !c.rd.closed then
          let s := { s with conn := some { c with rd := { c.rd with inq := c.rd.inq ++ cs } } }
          done s []
        else ({ s with prefeed := s.prefeed ++ cs }, [])
      | none => ({ s with prefeed := s.prefeed ++ cs }, [])
    | none => (s, ["bad-op " ++ kind])
  | [] => (s, ["bad-op"])

end Driver
