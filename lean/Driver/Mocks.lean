import Model.Mocks
/-! Line protocol of the mqtttest port (model side). -/
namespace Driver
open Model

def parseMErr (s : String) : Option MErr :=
  if s == "nil" then some .nil
  else if s == "closed" then some .closed
  else if s == "wclosed" then some .wrappedClosed
  else if s == "wbn" then some (.block 1)       -- a block wrapped in another error is a block all the same
  else if s == "bn" then some (.block 1)        -- a negative Delay: a pause that is over already, finite like any non-zero one
  else match s.toList with
    | 'e' :: r => (String.ofList r).toNat?.map .plain
    | 'w' :: 'b' :: r => (String.ofList r).toNat?.map .block
    | 'b' :: r => (String.ofList r).toNat?.map .block
    | _ => none

def showMErr : MErr → String
  | .nil => "nil" | .plain n => s!"e{n}" | .closed => "closed" | .wrappedClosed => "wclosed" | .block n => s!"b{n}"

/-- a message token: `nil` (a nil slice) and `-` (an empty one) are the same message -/
def ofHexMsg (m : String) : Option Bytes := if m == "nil" then some [] else ofHex m

def parseTransfers (s : String) : Option (List Transfer) :=
  if s == "-" then some [] else
  (s.splitOn ";").mapM fun t =>
    match t.splitOn ":" with
    | [m, tp, e] => do
      let m ← ofHexMsg m
      let tp ← ofHex tp
      let e ← parseMErr e
      pure ⟨m, tp, e⟩
    | _ => none

def parseFilterSpecs (s : String) : Option (List Filter) :=
  if s == "-" then some [] else
  (s.splitOn ";").mapM fun t =>
    match t.splitOn ":" with
    | [fs, e] => do
      let fs ← if fs == "none" then some [] else (fs.splitOn ",").mapM ofHex
      let e ← parseMErr e
      pure ⟨fs, e⟩
    | _ => none

inductive MockKind
  | none | pub (want : List Transfer) | sub (want : List Filter) | rs (want : List Transfer) | ex (script : List MErr) (errFix : MErr)

structure MSt where
  kind : MockKind := .none
  st : MockState := {}

def mocksStep (s : MSt) (f : List String) : MSt × List String :=
  match f with
  | ["pubmock", w] => match parseTransfers w with
    | some w => ({ kind := .pub w }, [])
    | none => (s, ["bad-op pubmock"])
  | ["pcall", quit, m, t] =>
    match s.kind, ofHexMsg m, ofHex t with
    | .pub w, some m, some t =>
      let (st, r) := publishMockCall w s.st (quit == "closed") m t
      ({ s with st := st }, [s!"pcall {match r with | none => "canceled" | some e => showMErr e} fails={st.fails}"])
    | _, _, _ => (s, ["bad-op pcall"])
  | ["submock", _, w] => match parseFilterSpecs w with
    | some w => ({ kind := .sub w }, [])
    | none => (s, ["bad-op submock"])
  | ["scall", quit, fs] =>
    match s.kind, (if fs == "none" then some [] else (fs.splitOn ",").mapM ofHex) with
    | .sub w, some fs =>
      let (st, r) := subscribeMockCall w s.st (quit == "closed") fs
      let rs := match r with | .canceled => "canceled" | .fatal => "fatal" | .ret e => showMErr e
      ({ s with st := st }, [s!"scall {rs} fails={st.fails}"])
    | _, _ => (s, ["bad-op scall"])
  | ["rsmock", w] => match parseTransfers w with
    | some w => ({ kind := .rs w }, [])
    | none => (s, ["bad-op rsmock"])
  | ["rcall"] =>
    match s.kind with
    | .rs w =>
      let (st, r) := readSlicesMockCall w s.st
      let line := match r with
        | some t => s!"rcall {hexOrDash t.msg} {hexOrDash t.topic} {showMErr t.err} fails={st.fails}"
        | none => s!"rcall - - unwanted fails={st.fails}"
      ({ s with st := st }, [line])
    | _ => (s, ["bad-op rcall"])
  | ["cleanup"] =>
    let n := match s.kind with | .pub w => w.length | .sub w => w.length | .rs w => w.length | _ => 0
    let st := mockCleanup n s.st
    ({ s with st := st }, [s!"cleanup fails={st.fails}"])
  | ["exstub", ef, sc] =>
    match parseMErr ef, (if sc == "-" then some [] else (sc.splitOn ",").mapM parseMErr) with
    | some ef, some sc =>
      if exchangeScriptPanics ef sc then ({ kind := .none }, ["exstub panic"]) else ({ kind := .ex sc ef }, ["exstub ok"])
    | _, _ => (s, ["bad-op exstub"])
  | ["ecall"] =>
    match s.kind with
    | .ex sc ef =>
      if ef != .nil then (s, [s!"ecall err {showMErr ef}"]) else
      let (d, c) := exchangeRun sc
      (s, ["ecall " ++ (if d.isEmpty then "-" else ",".intercalate (d.map showMErr)) ++ (if c then " closed" else " open")])
    | _ => (s, ["bad-op ecall"])
  | ["rsstub", _, _] => (s, ["rsstub private"])
  | ["pubstub", e, quit] => (s, ["pubstub " ++ (if quit == "closed" then "canceled" else e)])
  | [op@"pubstubh", e, quits] | [op@"substubh", e, quits] =>
    -- one stub called several times: every call answers from the same fix, a given quit signal yields ErrCanceled for that call only
    (s, [op ++ " " ++ ",".intercalate ((quits.splitOn ",").map fun q => if q == "closed" then "canceled" else e)])
  | ["substub", e, quit, fs] =>
    (s, ["substub " ++ (if fs == "none" then "panic" else if quit == "closed" then "canceled" else e)])
  | op :: _ => (s, ["bad-op " ++ op])
  | [] => (s, ["bad-op"])

end Driver
