import Model.FsStore
/-! Line protocol of the FileSystem port (model side): the system-call programs. -/
namespace Driver
open Model

def sysLine : Sys → String
  | .create n => s!"create {n}"
  | .write n bs => s!"write {n} {bs.length}"
  | .fsync n => s!"fsync {n}"
  | .close n => s!"close {n}"
  | .rename a b => s!"rename {a} {b}"
  | .unlink n => s!"unlink {n}"

def bufsOf (lens : String) : Option (List Bytes) :=
  (lens.splitOn ",").mapM fun l => l.toNat?.map fun n => List.replicate n 0

/-- `prog save <name> <len,len,…>` | `prog savefail <name> <lens> <i>` | `prog del <name>` -/
def fsStep (f : List String) : List String :=
  match f with
  | ["prog", "save", key, lens] =>
    match bufsOf lens with
    | some bufs => (saveProg key bufs).map sysLine
    | none => ["bad-op prog"]
  | ["prog", "savefail", key, lens, i] =>
    match bufsOf lens, i.toNat? with
    | some bufs, some i =>
      -- the failing call is attempted, then the descriptor is closed (when open) and the spool removed
      let pre := (savePre key bufs).take i
      let closes : List Sys := if pre.any (fun s => s == .close (spoolName key)) || pre.isEmpty then [] else [.close (spoolName key)]
      ((pre ++ closes ++ [Sys.unlink (spoolName key)]).map sysLine)
    | _, _ => ["bad-op prog"]
  | ["prog", "del", key] => (deleteProg key).map sysLine
  | _ => ["bad-op"]

end Driver
