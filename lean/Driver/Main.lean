import Driver.Pure
import Driver.Session
import Driver.Mocks
import Driver.Fs
/-! Model driver: reads an operation script on stdin, prints the model's
observations, one per line (same protocol as /verif/harness). -/
open Driver

def fieldsOf (line : String) : List String :=
  (line.splitOn " ").filter (· ≠ "")

partial def loopPure (step : List String → String) (h : IO.FS.Stream) (out : IO.FS.Stream) : IO Unit := do
  let line ← h.getLine
  if line.isEmpty then return ()
  let l := line.trimAscii.toString
  if l.isEmpty || l.startsWith "#" then
    loopPure step h out
  else
    let f := fieldsOf l
    if f.head? == some "reset" then out.putStrLn "reset"
    else if f.head? == some "end" then out.putStrLn (" ".intercalate f)
    else out.putStrLn (step f)
    loopPure step h out

def trunc (s : String) : String := if s.length > 120 then (s.take 120).toString else s

partial def loopState {σ : Type} (echo : Bool) (init : σ) (step : σ → List String → σ × List String)
    (h : IO.FS.Stream) (out : IO.FS.Stream) (st : σ) : IO Unit := do
  let line ← h.getLine
  if line.isEmpty then return ()
  let l := line.trimAscii.toString
  if l.isEmpty || l.startsWith "#" then
    loopState echo init step h out st
  else
    let f := fieldsOf l
    if f.head? == some "reset" then
      out.putStrLn "reset"
      loopState echo init step h out init
    else if f.head? == some "end" then
      out.putStrLn (" ".intercalate f)
      loopState echo init step h out st
    else
      if echo then out.putStrLn ("> " ++ trunc l)
      let (st', lines) := step st f
      for ln in lines do out.putStrLn ln
      loopState echo init step h out st'

def main (args : List String) : IO UInt32 := do
  let stdin ← IO.getStdin
  let stdout ← IO.getStdout
  match args with
  | ["pure"] => loopPure pureStep stdin stdout; return 0
  | ["oracle"] => loopPure oracleStep stdin stdout; return 0
  | ["session"] => loopState true ({} : Model.S) sessStep stdin stdout {}; return 0
  | ["fs"] => loopState false () (fun _ f => ((), fsStep f)) stdin stdout (); return 0
  | ["mocks"] => loopState false ({} : MSt) mocksStep stdin stdout {}; return 0
  | _ => IO.eprintln "usage: driver <port> < script"; return 2
