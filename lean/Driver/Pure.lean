import Model.Record
import Model.Compose
import Model.WriteLoop
import Model.Forest
/-! Line protocol: stateless operations on the pure model functions. -/
namespace Driver
open Model

def denyStr : Option Deny → String
  | none => "ok"
  | some _ => "deny"

def optHex (s : String) : Option (Option Bytes) :=
  if s == "nil" then some none else (ofHex s).map some

def showOptHex : Option Bytes → String
  | none => "nil"
  | some b => hexOrDash b

def showPacket : Packet → String
  | .connect clean ka cid will user pass =>
    let w := match will with
      | none => "nowill"
      | some w => s!"will {hexOrDash w.topic} {hexOrDash w.message} {w.qos} {w.retain}"
    s!"connect clean={clean} keepalive={ka} cid={hexOrDash cid} {w} user={showOptHex user} pass={showOptHex pass}"
  | .connack sp code => s!"connack sp={sp} code={code}"
  | .publish dup qos retain topic id payload =>
    s!"publish dup={dup} qos={qos} retain={retain} topic={hexOrDash topic} id={id.getD 0} payload={hexOrDash payload}"
  | .puback id => s!"puback {id}" | .pubrec id => s!"pubrec {id}"
  | .pubrel id => s!"pubrel {id}" | .pubcomp id => s!"pubcomp {id}"
  | .subscribe id fs => s!"subscribe {id} " ++ " ".intercalate (fs.map fun (f, q) => s!"{hexOrDash f}:{q}")
  | .suback id codes => s!"suback {id} " ++ " ".intercalate (codes.map toString)
  | .unsubscribe id fs => s!"unsubscribe {id} " ++ " ".intercalate (fs.map hexOrDash)
  | .unsuback id => s!"unsuback {id}"
  | .pingreq => "pingreq" | .pingresp => "pingresp" | .disconnect => "disconnect"

def parsePolEntry (e : String) : Option WPol :=
  match e.toList with
  | 'o' :: _ => some ⟨0, .ok⟩
  | 't' :: r => (String.ofList r).toNat?.map (⟨·, .timeout⟩)
  | 'e' :: r => (String.ofList r).toNat?.map (⟨·, .hard⟩)
  | 'c' :: r => (String.ofList r).toNat?.map (⟨·, .closed⟩)
  | _ => none

def parsePolicy (s : String) : Option (List WPol) :=
  if s == "-" then some [] else (s.splitOn ",").mapM parsePolEntry

def woutStr : WOut → String
  | .ok => "ok" | .timeout => "timeout" | .hard => "hard" | .closed => "closed" | .gate => "gate"

/-- parser of the error-tree notation of the `isany` operation: L<id> | N<id> | W(<tree>) | J(<tree>,…) -/
def takeNum : List Char → Nat → Nat × List Char
  | c :: r, acc => if c.isDigit then takeNum r (acc * 10 + (c.toNat - '0'.toNat)) else (acc, c :: r)
  | [], acc => (acc, [])

mutual
  def parseE : Nat → List Char → Option (E × List Char)
    | 0, _ => none
    | fuel + 1, 'L' :: r => let (n, r') := takeNum r 0; some (.leaf n, r')
    | fuel + 1, 'N' :: r => let (n, r') := takeNum r 0; some (.wrapNil n, r')
    | fuel + 1, 'W' :: '(' :: r =>
      match parseE fuel r with
      | some (c, ')' :: r') => some (.wrap 1000 c, r')
      | _ => none
    | fuel + 1, 'J' :: '(' :: r =>
      match parseEs fuel r with
      | some (cs, r') => some (.join 1000 cs, r')
      | none => none
    | _, _ => none
  def parseEs : Nat → List Char → Option (EList × List Char)
    | 0, _ => none
    | _ + 1, ')' :: r => some (.nil, r)
    | fuel + 1, r =>
      match parseE fuel r with
      | some (e, ',' :: r') => (parseEs fuel r').map fun (es, r'') => (.cons e es, r'')
      | some (e, r') => (parseEs fuel r').map fun (es, r'') => (.cons e es, r'')
      | none => none
end

def isanyLine (tree targets : String) : String :=
  match parseE (tree.length + 1) tree.toList with
  | some (e, []) =>
    if targets == "deny" then s!"isany {isDeny e}" else if targets == "end" then s!"isany {isEnd e}" else
    let ids : List Nat := (targets.splitOn ",").filterMap String.toNat?
    s!"isany {isAny (fun i => ids.contains i) e}"
  | _ => "bad-op isany"

def pureStep (f : List String) : String :=
  match f with
  | "enc" :: p :: seq :: _ =>
    match ofHex p, seq.toNat? with
    | some pb, some n => "enc " ++ hexOrDash (encodeValue pb n)
    | _, _ => "bad-op enc"
  | ["enc2", p1, s1, p2, s2] =>
    match ofHex p1, s1.toNat?, ofHex p2, s2.toNat? with
    | some a, some n, some b, some m => s!"enc2 {hexOrDash (encodeValue a n)} {hexOrDash (encodeValue b m)} stable=true"
    | _, _, _, _ => "bad-op enc2"
  | ["dec", v] =>
    match ofHex v with
    | some vb =>
      match decodeValue vb with
      | .ok (p, n) => s!"dec ok {hexOrDash p} {n}"
      | .error _ => "dec err"
    | none => "bad-op dec"
  | ["rload", present, v] =>
    -- `ruggedPersistence.Load` (mqtt.go:434-448): absent stays absent, everything present goes through `decodeValue`
    if present != "1" then "rload absent" else
    match (if v == "-" then some [] else ofHex v) with
    | some vb =>
      match decodeValue vb with
      | .ok (p, _) => s!"rload ok {hexOrDash p}"
      | .error _ => "rload err"
    | none => "bad-op rload"
  | ["isany", tree, targets] => isanyLine tree targets
  | ["strcheck", s] =>
    match ofHex s with
    | some b => "strcheck " ++ denyStr (stringCheck b)
    | none => "bad-op strcheck"
  | ["topiccheck", s] =>
    match ofHex s with
    | some b => "topiccheck " ++ denyStr (topicCheck b)
    | none => "bad-op topiccheck"
  | ["pubhead", head, pid, topic, n] =>
    match head.toNat?, pid.toNat?, ofHex topic, n.toNat? with
    | some h, some p, some t, some n =>
      match publishHead (UInt8.ofNat h) t p n with
      | .ok hd => s!"pubhead pkt {hexOrDash hd} {n} true"
      | .error _ => "pubhead deny"
    | _, _, _, _ => "bad-op pubhead"
  | ["connreq", clean, ka, user, pass, wt, wm, ret, alo, eo, cid] =>
    match ka.toNat?, ofHex user, optHex pass, ofHex wt, optHex wm, ofHex cid with
    | some ka, some user, some pass, some wt, some wm, some cid =>
      let c : Cfg := { userName := user, password := pass, keepAlive := ka, cleanSession := clean == "1",
                       will := { topic := wt, message := wm, retain := ret == "1", atLeastOnce := alo == "1", exactlyOnce := eo == "1" } }
      match c.valid with
      | some _ => "connreq deny"
      | none => "connreq pkt " ++ hexOrDash (c.connreq cid)
    | _, _, _, _, _, _ => "bad-op connreq"
  | ["wt", p, pol] =>
    match ofHex p, parsePolicy pol with
    | some pb, some po =>
      let (c, o) := writeTo { policy := po } pb
      s!"wt {woutStr o} log={hexOrDash c.log}"
    | _, _ => "bad-op wt"
  | ["wb", bufs, pol] =>
    match (bufs.splitOn ",").mapM ofHex, parsePolicy pol with
    | some v, some po =>
      let (c, o) := writeBuffersTo { policy := po } v
      s!"wb {woutStr o} log={hexOrDash c.log}"
    | _, _ => "bad-op wb"
  | op :: _ => "bad-op " ++ op
  | [] => "bad-op"

/-- The oracle port exists only on the model side: the reference decoder
applied to bytes the implementation produced. -/
def oracleStep (f : List String) : String :=
  match f with
  | ["decode", h] =>
    match ofHex h with
    | some b =>
      match decodePacket b with
      | some (p, rest) => s!"decoded rest={rest.length} " ++ showPacket p
      | none => "undecodable"
    | none => "bad-op decode"
  | ["wire", h] =>
    match ofHex h with
    | some b =>
      let w := parseWire b
      let fr := w.frames.map fun (hd, body) =>
        match parseBody hd body with
        | some p => showPacket p
        | none => "BAD(" ++ toHex (hd :: body) ++ ")"
      s!"wire n={w.frames.length} partial={hexOrDash w.partialTail} malformed={w.malformedAt.isSome} | " ++ " | ".intercalate fr
    | none => "bad-op wire"
  | op :: _ => "bad-op " ++ op
  | [] => "bad-op"

end Driver
