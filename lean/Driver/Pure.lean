import Model.Record
/-! Line protocol: stateless operations on the pure model functions. -/
namespace Driver
open Model

def pureStep (f : List String) : String :=
  match f with
  | "enc" :: p :: seq :: _ =>
    match ofHex p, seq.toNat? with
    | some pb, some n => "enc " ++ hexOrDash (encodeValue pb n)
    | _, _ => "bad-op enc"
  | ["dec", v] =>
    match ofHex v with
    | some vb =>
      match decodeValue vb with
      | .ok (p, n) => s!"dec ok {hexOrDash p} {n}"
      | .error _ => "dec err"
    | none => "bad-op dec"
  | op :: _ => "bad-op " ++ op
  | [] => "bad-op"

end Driver
