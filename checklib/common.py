"""Shared machinery of ./check: rebuild from /repo, proof audit, running the
implementation harness and the Lean model driver on the same script, diffing,
evidence and known-findings handling."""
import fcntl, hashlib, json, os, random, re, shutil, subprocess, sys, time

ROOT = os.path.dirname(os.path.dirname(os.path.abspath(__file__)))
REPO = os.environ.get("VERIF_REPO", "/repo")
LEAN = os.path.join(ROOT, "lean")
BIN = os.path.join(ROOT, "bin")
WORK = os.path.join(ROOT, ".work")
GOENV = dict(os.environ, GOFLAGS="-mod=mod", GOPROXY="off", GOSUMDB="off", GOTOOLCHAIN="local",
             CGO_ENABLED="0")
ALLOWED_AXIOMS = {"propext", "Classical.choice", "Quot.sound"}
FORBIDDEN = re.compile(r"\b(sorry|admit|native_decide|bv_decide|implemented_by|unsafe)\b|^\s*axiom\s|maxHeartbeats\s+0\b")


class Ctx:
    def __init__(self, prop, tier, seed):
        self.prop, self.tier, self.seed = prop, tier, seed
        self.t0 = time.time()
        self.rng = random.Random(seed * 1000003 + int(prop[1:]))
        self.work = os.path.join(WORK, "%s-%d" % (prop, os.getpid()))
        os.makedirs(self.work, exist_ok=True)
        self.notes = []
        self.build = None
        self.audit = None

    def cleanup(self):
        shutil.rmtree(self.work, ignore_errors=True)

    def quick(self):
        return self.tier == "quick"


def sh(cmd, cwd=None, env=None, timeout=1800, stdin=None):
    p = subprocess.run(cmd, cwd=cwd, env=env, timeout=timeout, stdin=stdin,
                       stdout=subprocess.PIPE, stderr=subprocess.STDOUT, text=True)
    return p.returncode, p.stdout


def strip_lean_comments(src):
    src = re.sub(r"/-.*?-/", "", src, flags=re.S)
    return re.sub(r"--.*", "", src)


# --------------------------------------------------------------------------
# build

def build(ctx, lean_targets):
    """Rebuild everything from /repo's working tree. Serialised by a lock so
    that several checks can run concurrently."""
    os.makedirs(WORK, exist_ok=True)
    os.makedirs(BIN, exist_ok=True)
    res = {"facts_missing": [], "go_ok": True, "lean_ok": True, "driver_ok": True, "log": "",
           "pinned_facts": False, "failed_targets": []}
    with open(os.path.join(WORK, "build.lock"), "w") as lk:
        fcntl.flock(lk, fcntl.LOCK_EX)
        # 1. tools
        exe, src = os.path.join(BIN, "extract"), os.path.join(ROOT, "tools", "extract", "main.go")
        if not os.path.exists(exe) or os.path.getmtime(exe) < os.path.getmtime(src):
            rc, out = sh(["go", "build", "-o", os.path.join(BIN, "extract"), "."],
                         cwd=os.path.join(ROOT, "tools", "extract"), env=GOENV)
            if rc:
                raise SystemExit("extract build failed:\n" + out)
        # 2. facts
        rc, out = sh([os.path.join(BIN, "extract"), REPO, os.path.join(LEAN, "Generated")])
        res["log"] += out
        if rc:
            res["facts_missing"] = ["extractor failed: " + out.strip()[-300:]]
        for line in out.splitlines():
            if line.startswith("MISSING"):
                res["facts_missing"] = line.split()[1:]
        # 3. harness (always relinked against the current tree; go's cache makes it cheap)
        rc, out = sh(["go", "build", "-tags", "verif", "-o", os.path.join(BIN, "harness"), "."],
                     cwd=os.path.join(ROOT, "harness"), env=GOENV)
        res["log"] += out
        if rc:
            res["go_ok"] = False
        # 4. lean: driver first (model), then the property module
        rc, out = sh(["lake", "build", "driver"], cwd=LEAN)
        res["log"] += out
        if rc:
            res["driver_ok"] = False
        for tgt in lean_targets:
            rc, out = sh(["lake", "build", tgt], cwd=LEAN)
            res["log"] += out
            if rc:
                res["lean_ok"] = False
                res["failed_targets"].append(tgt)
                res["lean_errors"] = [l for l in out.splitlines() if l.startswith("error:")][:20]
        if not res["driver_ok"]:
            # Model no longer compiles against the regenerated facts: fall back
            # to the committed facts so that the search can still run the model.
            rc, out = sh(["git", "checkout", "--", "lean/Generated/Facts.lean"], cwd=ROOT)
            rc, out = sh(["lake", "build", "driver"], cwd=LEAN)
            res["pinned_facts"] = True
            res["driver_pinned_ok"] = (rc == 0)
        # keep a private copy of the binaries so a concurrent rebuild cannot disturb this run
        for b in ("harness",):
            if os.path.exists(os.path.join(BIN, b)):
                shutil.copy2(os.path.join(BIN, b), os.path.join(ctx.work, b))
        drv = os.path.join(LEAN, ".lake", "build", "bin", "driver")
        if os.path.exists(drv):
            shutil.copy2(drv, os.path.join(ctx.work, "driver"))
    ctx.build = res
    return res


# --------------------------------------------------------------------------
# proof audit

def theorem_names(module_path):
    src = strip_lean_comments(open(module_path).read())
    names, stack = [], []
    for line in src.splitlines():
        m = re.match(r"^namespace\s+(\S+)", line)
        if m:
            stack.append(m.group(1))
            continue
        m = re.match(r"^end\s+(\S+)", line)
        if m and stack and stack[-1] == m.group(1):
            stack.pop()
            continue
        m = re.match(r"^theorem\s+([A-Za-z0-9_'.]+)", line)
        if m:
            names.append(".".join(stack + [m.group(1)]))
    return names


def proof_audit(ctx, module):
    """`module` like 'Props.C15'. Returns dict with obligations/discharged/axioms/problems."""
    path = os.path.join(LEAN, *module.split(".")) + ".lean"
    names = theorem_names(path)
    res = {"module": module, "theorems": names, "obligations": len(names), "discharged": 0,
           "axioms": {}, "problems": []}
    if not ctx.build["lean_ok"]:
        res["problems"].append("lake build %s failed: %s" % (module, "; ".join(ctx.build.get("lean_errors", []))[:600]))
        ctx.audit = res
        return res
    # forbidden constructs anywhere in the Lean sources that the module depends on
    for dp, _, fs in os.walk(LEAN):
        if ".lake" in dp:
            continue
        for fn in fs:
            if fn.endswith(".lean"):
                src = strip_lean_comments(open(os.path.join(dp, fn)).read())
                for ln in src.splitlines():
                    if FORBIDDEN.search(ln):
                        res["problems"].append("forbidden construct in %s: %s" % (fn, ln.strip()[:80]))
    aud = os.path.join(ctx.work, "audit.lean")
    with open(aud, "w") as f:
        f.write("import %s\n" % module)
        for n in names:
            f.write("#print axioms %s\n" % n)
    rc, out = sh(["lake", "env", "lean", aud], cwd=LEAN)
    if rc:
        res["problems"].append("axiom audit failed: " + out[-400:])
    cur = None
    text = out.replace("\n  ", " ")
    for m in re.finditer(r"'([^']+)' (depends on axioms: \[([^\]]*)\]|does not depend on any axioms)", text):
        name = m.group(1)
        ax = [a.strip() for a in (m.group(3) or "").split(",") if a.strip()]
        res["axioms"][name] = ax
        bad = [a for a in ax if a not in ALLOWED_AXIOMS]
        if bad:
            res["problems"].append("%s depends on %s" % (name, bad))
        else:
            res["discharged"] += 1
    missing = [n for n in names if n not in res["axioms"]]
    if missing:
        res["problems"].append("no axiom report for " + ",".join(missing))
    if ctx.tier == "thorough" and not res["problems"]:
        rc, out = sh(["lake", "env", "leanchecker", module], cwd=LEAN, timeout=1200)
        res["leanchecker"] = "ok" if rc == 0 else out[-300:]
        if rc:
            res["problems"].append("leanchecker rejected %s" % module)
    ctx.audit = res
    return res


# --------------------------------------------------------------------------
# running scripts

def run_bin(ctx, which, port, lines, timeout=600):
    path = os.path.join(ctx.work, "s%d.ops" % random.getrandbits(40))
    with open(path, "w") as f:
        f.write("\n".join(lines) + "\n")
    exe = os.path.join(ctx.work, which)
    env = dict(os.environ, GOMEMLIMIT="6GiB", GOMAXPROCS="4")
    try:
        with open(path) as fin:
            p = subprocess.run([exe, port], stdin=fin, stdout=subprocess.PIPE, stderr=subprocess.PIPE,
                               text=True, timeout=timeout, env=env)
    except subprocess.TimeoutExpired as e:
        # the time budget is over (a client that hangs in many scripts makes each of them slow): what was done so far counts
        os.unlink(path)
        so = e.stdout or ""
        if isinstance(so, bytes):
            so = so.decode("utf-8", "replace")
        out = so.splitlines()
        if out and not out[-1].startswith(("end ", "reset")):
            out = out[:-1]      # a possibly cut line
        # drop the case in progress: only complete cases are judged
        while out and not out[-1].startswith("end "):
            out.pop()
        return out
    os.unlink(path)
    out = p.stdout.splitlines()
    if p.returncode != 0:
        out.append("CRASH rc=%d %s" % (p.returncode, p.stderr.strip()[-300:].replace("\n", " | ")))
    return out


def run_pair(ctx, port, lines, timeout=600):
    """Runs the same script on the implementation harness and the model driver."""
    return run_bin(ctx, "harness", port, lines, timeout), run_bin(ctx, "driver", port, lines, timeout)


def run_cases(ctx, port, cases, which=("harness", "driver"), timeout=900):
    """cases: list of list-of-lines. Returns per-case output lists for each binary.
    Cases are separated by `reset` and delimited by `end <n>` echo lines."""
    lines = []
    for i, c in enumerate(cases):
        lines.append("reset")
        lines.extend(c)
        lines.append("end %d" % i)
    outs = []
    for w in which:
        raw = run_bin(ctx, w, port, lines, timeout)
        per, cur = [], []
        for l in raw:
            if l.startswith("end "):
                per.append(cur)
                cur = []
            elif l == "reset":
                cur = []
            else:
                cur.append(l)
        if cur:
            per.append(cur)  # crash remainder
        while len(per) < len(cases):
            per.append(["<no output>"])
        outs.append(per)
    return outs


def first_diff(a, b):
    for i in range(max(len(a), len(b))):
        x = a[i] if i < len(a) else "<missing>"
        y = b[i] if i < len(b) else "<missing>"
        if x != y:
            return i, x, y
    return None


# --------------------------------------------------------------------------
# known findings, replays, evidence

def known_findings():
    p = os.path.join(ROOT, "known_findings.json")
    if not os.path.exists(p):
        return []
    return json.load(open(p))["findings"]


def write_replay(ctx, name, payload):
    os.makedirs(os.path.join(ROOT, "replays"), exist_ok=True)
    path = os.path.join(ROOT, "replays", "%s-%d-%s.json" % (ctx.prop, ctx.seed, name))
    with open(path, "w") as f:
        json.dump(payload, f, indent=1)
    return path


class Verdict:
    def __init__(self, ctx):
        self.ctx = ctx
        self.violations = []   # (signature, what, replay payload)
        self.known_hits = []
        self.broken = []       # broken obligations / correspondences without failing input

    def violation(self, signature, what, payload):
        for k in known_findings():
            if k["property"] == self.ctx.prop and k.get("status") == "known" and signature in k.get("signatures", [k.get("signature")]):
                if k["id"] not in [a for a, _, _ in self.known_hits]:
                    self.known_hits.append((k["id"], k["what"], payload))
                return
        if signature not in [s for s, _, _ in self.violations]:
            self.violations.append((signature, what, payload))

    def broken_tie(self, what, payload):
        self.broken.append((what, payload))

    def finish(self, coverage, assumptions, level="proof"):
        ctx = self.ctx
        nviol = len(self.violations) + (1 if self.broken and not self.violations else 0)
        ev = {
            "property_id": ctx.prop, "tier": ctx.tier, "seed": ctx.seed, "level": level,
            "coverage": coverage, "assumptions": assumptions,
            "wall_s": round(time.time() - ctx.t0, 2), "violations": nviol,
        }
        if self.known_hits:
            ev["coverage"]["known_findings_reproduced"] = [k for k, _, _ in self.known_hits]
        evdir = os.environ.get("VERIF_EVIDENCE_DIR") or os.path.join(ROOT, "evidence")     # (seeded-change runs keep theirs apart)
        os.makedirs(evdir, exist_ok=True)
        with open(os.path.join(evdir, ctx.prop + ".json"), "w") as f:
            json.dump(ev, f, indent=1)
        for kid, what, _ in self.known_hits:
            print("KNOWN-FINDING: property=%s %s: %s" % (ctx.prop, kid, what))
        rc = 0
        for i, (sig, what, payload) in enumerate(self.violations):
            payload = dict(payload, signature=sig, what=what, property=ctx.prop)
            path = write_replay(ctx, "v%d" % i, payload)
            print("VIOLATION property=%s replay=%s" % (ctx.prop, path))
            print("  " + what)
            rc = 1
        if self.broken and not self.violations:
            what, payload = self.broken[0]
            payload = dict(payload, what=what, property=ctx.prop, all_broken=[w for w, _ in self.broken])
            path = write_replay(ctx, "broken", payload)
            print("VIOLATION property=%s replay=%s no-failing-input-found" % (ctx.prop, path))
            print("  " + what)
            rc = 1
        if rc == 0:
            print("OK property=%s tier=%s seed=%d wall=%.1fs" % (ctx.prop, ctx.tier, ctx.seed, time.time() - ctx.t0))
        return rc


def proof_coverage(ctx, extra):
    a = ctx.audit or {}
    ax = sorted({x for v in a.get("axioms", {}).values() for x in v})
    cov = {
        "obligations": max(1, a.get("obligations", 0)),
        "discharged": a.get("discharged", 0),
        "checker_cmd": "cd /verif/lean && lake build %s && lake env lean <#print axioms per theorem>%s" % (
            a.get("module", "?"), " && lake env leanchecker " + a.get("module", "?") if ctx.tier == "thorough" else ""),
        "trusted_base": ["Lean 4.33.0 kernel", "axioms used: " + (", ".join(ax) if ax else "none"),
                         "tools/extract (go/types constant evaluation)", "harness + Lean driver line protocol",
                         ] + (["leanchecker: " + a["leanchecker"]] if "leanchecker" in a else []),
        "theorems": a.get("theorems", []),
        "proof_problems": a.get("problems", []),
    }
    cov.update(extra)
    return cov


def hexs(b):
    return b.hex() if b else "-"


def generic_replay(ctx, path):
    """Re-runs the script of a replay file on the current tree and on the model."""
    payload = json.load(open(path))
    if "script" not in payload:
        # no operation script (system-level scenario or a broken obligation): show it and re-run the check itself
        print(json.dumps({k: payload[k] for k in payload if k not in ("audit",)}, indent=1)[:3000])
        import importlib
        mod = importlib.import_module("checklib." + ctx.prop.lower())
        return mod.run(ctx)
    build(ctx, [])
    port = payload.get("port", "pure")
    script = payload.get("script", [])
    impl, model = run_pair(ctx, port, script)
    print("property:", payload.get("property"), "|", payload.get("what"))
    for i, l in enumerate(script):
        print("  op   :", l[:200])
    for l in impl:
        print("  impl :", l[:300])
    for l in model:
        print("  model:", l[:300])
    still = first_diff(impl, model) is not None or (payload.get("impl") and impl[:len(payload["impl"])] == payload["impl"])
    print("REPRODUCES" if still else "does not reproduce on the current tree")
    return 1 if still else 0
