"""C12 — Close and Disconnect end the client from any state, promptly and for good."""
from . import sesscheck as SC

MODULE = "Props.C12"
PROFILE = {"publish": 6, "ack": 3, "inbound": 4, "connect": 8, "fault": 5, "restart": 0.2, "call": 10, "response": 3,
           "hostile": 1, "close": 3, "blocked": 14, "bigbuf": 0.05}


def keep(l):
    return l.startswith(("ret ", "blocked", "close", "disconnect", "rs ", "pub ", "exch", "ev close", "ev w ", "sig "))


def mon_closed(tr, sc):
    out = []
    closed_at = None
    rs_closed = False
    disc_inside = False
    for i, (op, lines) in enumerate(tr):
        f = op.split()
        if f and f[0] == "adopt":
            closed_at, rs_closed = None, False
        if closed_at is not None and i > closed_at:
            for l in lines:
                p = l.split()
                if l.startswith("ret ") and f and f[0] == "call" and f[1] == p[1] and "closed" not in p[2].split("+") and p[2] != "deny" and p[2] != "max":
                    out.append(("after-close:not-errclosed", "%s after Close returned `%s`" % (f[2], p[2])))
                if l.startswith("pub ok") or (l.startswith("pub err ") and p[2] not in ("closed", "deny", "max")):
                    out.append(("after-close:publish", "persisted publish after Close and ReadSlices' ErrClosed: `%s`" % l)) if rs_closed else None
                if l.startswith(("rs msg", "rs big")) and not rs_closed:
                    continue     # received before the Close and still in the read buffer: handed over, nothing blocks ("ErrClosed instead of blocking")
                if l.startswith("rs ") and not l.startswith("rs err closed") and not l.startswith("rs err store"):
                    out.append(("after-close:readslices", "ReadSlices after Close returned `%s`" % l))
                if l.startswith("rs err closed"):
                    rs_closed = True
                if l.startswith("blocked "):
                    out.append(("after-close:blocks", "a call blocks after Close: %s" % l))
        # Close never waits for other goroutines' I/O (it interrupts them); it may only queue behind a Disconnect that is inside
        if f and f[0] == "disconnect" and any(l == "blocked disconnect" for l in lines):
            disc_inside = True
        if any(l.startswith(("ret disconnect", "disconnect ")) for l in lines):
            disc_inside = disc_inside and not any(l.startswith("ret disconnect") for l in lines)
        if f and f[0] == "close" and any(l == "blocked close" for l in lines) and not disc_inside \
                and not any(l.startswith(("unsupported", "dead after")) for l in lines):
            out.append(("close-blocks", "Close does not return although no Disconnect is in progress: every other goroutine is at rest "
                        "(a stalled write or dial is to be interrupted by Close, not waited for)"))
        for l in lines:
            if l == "close ok" or l == "ret close ok" or (l.startswith("disconnect ") and closed_at is None) or l.startswith("ret disconnect"):
                if closed_at is None:
                    closed_at = i
    return out


def with_epilogue(scripts, r):
    out = []
    for sc in scripts:
        ep = [r.choice(["close", "disconnect"]), "rs", "close", "disconnect", "call z1 ping", "call z2 pub 0 74 68", "call z3 sub 1 61",
              "pal 0 61 31", "rs"]
        out.append(sc + ep)
    return out


def run(ctx):
    mon = lambda tr, sc: SC.mon_sanity(tr) + mon_closed(tr, sc) + [h for h in SC.mon_wire(tr) if h[0] == "wire:after-disconnect"]
    from .sessgen import Gen
    g = Gen(ctx.rng, PROFILE, (6, 26))
    n = 300 if ctx.quick() else 5000
    extra = with_epilogue([g.script() for _ in range(n)], ctx.rng)
    # Disconnect with its quit signal already given on a client that never had a connection: the select between the quit branch
    # and the free write lock is the runtime's choice (the model calls the op unsupported there, so only the monitors judge:
    # no panic, no hang, closed afterwards); several fresh clients so that both branches are taken in every run
    extra += [["init 636c6c 0 16384 2", "disconnect quit", "rs", "close", "call z1 ping", "rs"] for _ in range(24 if ctx.quick() else 200)]
    v, stats, hist, samples, nd = SC.run_property(ctx, MODULE, PROFILE, 0, 0, [mon], keep, length=(6, 26), extra=extra)
    return SC.finish(ctx, v, stats, hist, samples, nd,
                     "Close/Disconnect issued in every client state the harness can hold a goroutine in: never connected, blocked in the "
                     "Dialer, awaiting CONNACK, reader parked on the live connection, a writer blocked inside conn.Write (Close interrupts it, "
                     "Disconnect waits for it), offline, down, already closed; repeated and mixed closers; afterwards every method must return "
                     "ErrClosed, ReadSlices ErrClosed, pending exchanges ErrClosed; hang detection by goroutine states",
                     SC.SESSION_ASSUMPTIONS + ["partial: closers at I/O boundaries only; promptness is 'returns while every other goroutine is at rest', wall-clock is not measured",
                                               "goroutine leaks are not measured yet"])
