"""Small MQTT 3.1.1 packet builder / framing parser used by generators and monitors."""


def varint(n):
    out = bytearray()
    while n > 0x7f:
        out.append((n & 0x7f) | 0x80)
        n >>= 7
    out.append(n)
    return bytes(out)


def packet(head, body):
    return bytes([head]) + varint(len(body)) + body


def s16(s):
    return bytes([len(s) >> 8, len(s) & 0xff]) + s


def publish(qos, topic, payload, pid=0, dup=False, retain=False):
    head = 0x30 | (8 if dup else 0) | (qos << 1) | (1 if retain else 0)
    body = s16(topic) + (bytes([pid >> 8, pid & 0xff]) if qos else b"") + payload
    return packet(head, body)


def ack(kind, pid):
    head = {"puback": 0x40, "pubrec": 0x50, "pubrel": 0x62, "pubcomp": 0x70, "unsuback": 0xb0}[kind]
    return bytes([head, 2, pid >> 8, pid & 0xff])


def suback(pid, codes):
    return packet(0x90, bytes([pid >> 8, pid & 0xff]) + bytes(codes))


def connack(sp=0, code=0):
    return bytes([0x20, 2, sp, code])


PINGRESP = bytes([0xd0, 0])


def frames(data):
    """Splits a byte log into (complete packets, trailing partial, malformed?)."""
    out, i = [], 0
    while i < len(data):
        j, n, sh = i + 1, 0, 0
        while True:
            if j >= len(data):
                return out, data[i:], False
            b = data[j]
            n |= (b & 0x7f) << sh
            sh += 7
            j += 1
            if b < 0x80:
                break
            if sh > 21:
                return out, data[i:], True
        if j + n > len(data):
            return out, data[i:], False
        out.append(data[i:j + n])
        i = j + n
    return out, b"", False


def parse(pkt):
    """Decodes a complete packet into a dict (enough for the monitors)."""
    t, fl = pkt[0] >> 4, pkt[0] & 15
    j = 1
    while pkt[j] >= 0x80:
        j += 1
    body = pkt[j + 1:]
    d = {"type": t, "flags": fl, "body": body}
    names = {1: "connect", 2: "connack", 3: "publish", 4: "puback", 5: "pubrec", 6: "pubrel", 7: "pubcomp", 8: "subscribe",
             9: "suback", 10: "unsubscribe", 11: "unsuback", 12: "pingreq", 13: "pingresp", 14: "disconnect"}
    d["name"] = names.get(t, "reserved")
    if t == 3:
        tl = (body[0] << 8) | body[1]
        d["topic"] = body[2:2 + tl]
        d["qos"], d["dup"], d["retain"] = (fl >> 1) & 3, bool(fl & 8), bool(fl & 1)
        k = 2 + tl
        if d["qos"]:
            d["id"] = (body[k] << 8) | body[k + 1]
            k += 2
        d["payload"] = body[k:]
    elif t in (4, 5, 6, 7, 9, 11, 8, 10) and len(body) >= 2:
        d["id"] = (body[0] << 8) | body[1]
    elif t == 1 and len(body) >= 10:
        d["connflags"] = body[7]
        d["clean"] = bool(body[7] & 2)
        d.update(parse_connect(body))
    return d


def parse_connect(body):
    """strict decode of a CONNECT variable header and payload: every field announced by the flags, nothing else"""
    d = {}
    try:
        if body[:7] != b"\x00\x04MQTT\x04":
            return {"connect_malformed": "protocol name or level"}
        fl = body[7]
        d["keepalive"] = (body[8] << 8) | body[9]
        k = [10]

        def field(what):
            if k[0] + 2 > len(body):
                raise ValueError("%s: no length prefix (%d bytes left)" % (what, len(body) - k[0]))
            n = (body[k[0]] << 8) | body[k[0] + 1]
            if k[0] + 2 + n > len(body):
                raise ValueError("%s: field of %d bytes exceeds the %d bytes left" % (what, n, len(body) - k[0] - 2))
            v = body[k[0] + 2:k[0] + 2 + n]
            k[0] += 2 + n
            return v
        d["cid"] = field("client identifier")
        if fl & 1:
            raise ValueError("reserved flag set")
        if fl & 4:
            d["willtopic"], d["willmsg"] = field("will topic"), field("will message")
            d["willqos"], d["willretain"] = (fl >> 3) & 3, bool(fl & 0x20)
            if d["willqos"] == 3:
                raise ValueError("will QoS 3")
        elif fl & 0x38:
            raise ValueError("will QoS or will retain without will flag")
        if fl & 0x80:
            d["user"] = field("user name")
        if fl & 0x40:
            if not fl & 0x80:
                pass            # MQTT 3.1.1 forbids it; the client documents that it sends an empty user name then
            d["pass"] = field("password")
        if k[0] != len(body):
            raise ValueError("%d bytes beyond the last field" % (len(body) - k[0]))
    except (ValueError, IndexError) as e:
        d["connect_malformed"] = str(e)
    return d


def fnv1a32(data):
    h = 0x811c9dc5
    for b in data:
        h = ((h ^ b) * 0x01000193) & 0xffffffff
    return h


def record(pkt, seq):
    """a stored record as the client writes it: packet, storage sequence number (8 bytes LE), FNV-1a over both (4 bytes BE)"""
    body = bytes(pkt) + seq.to_bytes(8, "little")
    return body + fnv1a32(body).to_bytes(4, "big")
