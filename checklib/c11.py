"""C11 — every request completes and gets its own response."""
from . import sesscheck as SC, mq

MODULE = "Props.C11"
PROFILE = {"publish": 3, "ack": 2, "inbound": 3, "connect": 8, "fault": 6, "restart": 0.2, "call": 30, "response": 18,
           "hostile": 1, "close": 0.5, "blocked": 8, "bigbuf": 0.05}


def keep(l):
    return l.startswith(("ret ", "blocked", "ev w ", "close", "disconnect", "rs "))


def mon_requests(tr, sc):
    out = []
    pending = {}          # tag -> kind
    sub_id = {}           # tag -> (id, filters)
    w = SC.Wire()
    fedsub = {}           # id -> codes of the last SUBACK fed for it
    inbuf = b""
    plans, hs_need = [], 0      # queued dial replies; CONNACK bytes the handshake still takes from the stream
    extras = []                 # per queued dial reply: the bytes behind its first four
    live, prebytes = False, b""
    for i, (op, lines) in enumerate(tr):
        f = op.split()
        if f and f[0] == "dial":
            plans.append(len(SC.unhex(f[2])) if f[1] == "ok" and len(f) > 2 else ("block" if f[1] == "block" else None))
            extras.append(SC.unhex(f[2])[4:] if f[1] == "ok" and len(f) > 2 else b"")      # what comes in one segment with the CONNACK
        if f and f[0] == "brk":
            plans, prebytes, extras = [], b"", []
        if f and f[0] == "adopt":
            pending, sub_id = {}, {}
        if f and f[0] == "call" and "noclient" not in lines:
            pending[f[1]] = f[2]
        if f and f[0] == "feed":
            for a in f[1:]:
                if a in ("tmo", "err", "eof", "block"):
                    if a in ("err", "eof"):
                        inbuf = b""
                    continue
                data = SC.unhex(a)
                if not live:
                    prebytes += data      # handed to the connection that is dialled next
                    continue
                take = min(hs_need, len(data))
                hs_need -= take
                inbuf += data[take:]
                fr, rest, bad = mq.frames(inbuf)
                inbuf = b"" if bad else rest
                for pk in fr:
                    if pk[0] == 0x90 and len(pk) >= 5:
                        d = mq.parse(pk)
                        fedsub[d["id"]] = list(d["body"][2:])
        for l in lines:
            p = l.split()
            if l.startswith("ev close") or (l.startswith("rs err ") and not l.startswith("rs err store")):
                inbuf = b""
                live = False
            if l.startswith("ev dial fail"):
                while plans and plans[0] == "block":
                    plans.pop(0)
                    extras.pop(0)
                if plans:
                    plans.pop(0)
                    extras.pop(0)
            if l.startswith("ev dial ok"):
                while plans and plans[0] == "block":
                    plans.pop(0)
                    extras.pop(0)
                n = plans.pop(0) if plans else 4
                extra = extras.pop(0) if extras else b""
                hs_need = max(0, 4 - (n if n is not None else 4))
                live = True
                take = min(hs_need, len(prebytes))
                hs_need -= take
                inbuf, prebytes = extra + prebytes[take:], b""
                fr, rest, bad = mq.frames(inbuf)
                inbuf = b"" if bad else rest
                for pk in fr:
                    if pk[0] == 0x90 and len(pk) >= 5:
                        d = mq.parse(pk)
                        fedsub[d["id"]] = list(d["body"][2:])
            if l.startswith("ev w ") and f and f[0] == "call" and f[2] == "sub":
                for d in w.add(i, p[2], SC.unhex(p[3])):
                    if d["name"] == "subscribe":
                        body, fs, k = d["body"], [], 2
                        while k + 2 <= len(body):
                            n = (body[k] << 8) | body[k + 1]
                            fs.append(body[k + 2:k + 2 + n])
                            k += 2 + n + 1
                        sub_id[f[1]] = (d["id"], fs)
            elif l.startswith("ev w "):
                w.add(i, p[2], SC.unhex(p[3]))
            if l.startswith("ret ") and p[1] in pending:
                kind = pending.pop(p[1])
                cls = p[2]
                if kind == "sub" and p[1] in sub_id and (cls == "ok" or cls.startswith("suberr")):
                    pid, fs = sub_id[p[1]]
                    codes = fedsub.get(pid)
                    if codes is None:
                        out.append(("own-response:unsolicited", "Subscribe %s completed with `%s` although no SUBACK for its identifier %04x was sent" % (p[1], cls, pid)))
                    elif len(codes) != len(fs):
                        out.append(("own-response:count-mismatch-accepted", "Subscribe %s with %d filters completed with `%s` on a SUBACK that carries %d return codes" % (p[1], len(fs), cls, len(codes))))
                    else:
                        want = [fs[j] for j, c in enumerate(codes) if c == 0x80]
                        wcls = "ok" if not want else "suberr:" + ",".join(x.hex() if x else "-" for x in want)
                        if cls != wcls:
                            out.append(("own-response:wrong", "Subscribe %s got `%s`, the SUBACK for its identifier says `%s`" % (p[1], cls, wcls)))
    # a request is told when its connection is lost: once a later connection has been set up, nothing written on an older one still waits
    nconn, where, waiting = 0, {}, {}
    for i, (op, lines) in enumerate(tr):
        f = op.split()
        if f and f[0] in ("adopt", "init"):
            where, waiting = {}, {}
        dialled = False
        for l in lines:
            p = l.split()
            if l.startswith("ev dial ok"):
                nconn += 1
                dialled = True
            elif l.startswith("ev w ") and f and f[0] == "call" and len(f) > 2:
                head = {"ping": ("c0",), "sub": ("82",), "unsub": ("a2",)}.get(f[2], ())
                if head and p[3].startswith(head):
                    where[f[1]] = int(p[2])
            elif l.startswith("blocked ") and f and f[0] == "call" and p[1] in where:
                waiting[p[1]] = where[p[1]]
            elif l.startswith("ret "):
                waiting.pop(p[1], None)
        if dialled:
            old = sorted(t for t, c in waiting.items() if c < nconn - 1)
            if old and not any(l.startswith(("unsupported", "stalled", "hang", "dead after")) for l in lines):
                out.append(("lost-connection-untold", "request(s) %s were written on connection %d and still wait although connection %d has been set up since"
                            % (old, waiting[old[0]], nconn - 1)))
                for t in old:
                    waiting.pop(t)
    # a quit signal ends the wait of its request at once - wherever it waits: for the connect in progress, for the write lock, for the
    # response. (Only inside conn.Write the signal is not looked at: scripts that park a writer there are left out.)
    gates = any(o.startswith(("wpol", "sgate", "cpol", "exhold")) or (o.startswith("dial ok") and len(o.split()) > 3 and "g" in o.split()[3]) for o in sc)
    if not gates:
        open_calls = set()
        for i, (op, lines) in enumerate(tr):
            f = op.split()
            if f and f[0] in ("adopt", "init"):
                open_calls = set()
            if f and f[0] == "call" and any(l == "blocked " + f[1] for l in lines):
                open_calls.add(f[1])
            for l in lines:
                if l.startswith("ret "):
                    open_calls.discard(l.split()[1])
            if f and f[0] == "quit" and f[1] in open_calls and not any(l.startswith(("unsupported", "stalled", "hang", "dead after", "noclient")) for l in lines):
                out.append(("quit-ignored", "request %s still waits after its quit signal was given" % f[1]))
                open_calls.discard(f[1])
    # the epilogue closed the client: nothing may be left waiting
    dead = any(l.startswith(("dead after", "stalled ", "hang ", "readall parked", "counters stalled")) for _, ls in tr for l in ls)
    # (a writer left at a scripted gate that the script never opens keeps the locks: then Close itself waits, by the script's doing)
    closed_ok = any(l == "close ok" or (l.startswith("disconnect ") and not l.startswith("disconnect blocked")) or l == "ret close ok" for _, ls in tr for l in ls)
    dead = dead or not closed_ok or any(l in ("blocked close", "blocked disconnect") for o, ls in tr[-3:] for l in ls)
    if (sc and sc[-1] == "#epilogue" or any(o == "close" for o in sc[-4:])) and not dead:
        if pending:
            out.append(("never-returns", "request(s) %s never returned, even after Close" % sorted(pending)))
    return out


def with_epilogue(scripts):
    return [sc + ["brk", "close", "rs", "rs"] for sc in scripts]


def run(ctx):
    mon = lambda tr, sc: SC.mon_sanity(tr) + mon_requests(tr, sc) + SC.mon_unordered_ids(tr) + SC.mon_slots(tr)
    from .sessgen import Gen
    g = Gen(ctx.rng, PROFILE, (8, 30))
    n = 300 if ctx.quick() else 5000
    extra = with_epilogue([g.script() for _ in range(n)])
    v, stats, hist, samples, nd = SC.run_property(ctx, MODULE, PROFILE, 0, 0, [mon], keep, length=(8, 30), extra=extra)
    return SC.finish(ctx, v, stats, hist, samples, nd,
                     "concurrent Subscribe/Unsubscribe/Ping/Publish calls (goroutines parked by the harness), SUBACK/UNSUBACK/PINGRESP in "
                     "any order incl. late, duplicate, unsolicited, wrong count and illegal codes, connection loss, quit before/after "
                     "submission, requests blocked inside conn.Write and queued behind it on the write semaphore (answers arriving before the request waits); every script ends with broker close + Close + ReadSlices, after which "
                     "every request must have returned; SubscribeError is checked against the SUBACK sent for that request's identifier",
                     SC.SESSION_ASSUMPTIONS + ["partial: calls interleave only at the points where the harness can park a goroutine (lockWrite, conn.Write, response wait); preemption between two statements of one call is not explored"])
