"""C08 — a connection carries whole packets only, under short writes and concurrency."""
import itertools
from . import common as C

PROP = "C08"
MODULE = "Props.C08"


def policies(ctx, total, exhaustive):
    """Write policies for a packet of `total` bytes."""
    r = ctx.rng
    out = ["-"]
    if exhaustive:
        for k in range(total + 1):
            for kind in "tec":
                out.append("%s%d" % (kind, k))
            for k2 in range(0, total - k + 1):
                out.append("t%d,t%d" % (k, k2))
                out.append("t%d,e%d" % (k, k2))
        for k in range(1, total):
            out.append("t%d,t0" % k)
            out.append("t1,t1,t%d" % k)
    else:
        for _ in range(12):
            n = r.randrange(1, 5)
            ent = []
            for _ in range(n):
                kind = r.choice("ttteco")
                ent.append("o" if kind == "o" else "%s%d" % (kind, r.choice([0, 1, 2, r.randrange(total + 2), total])))
            out.append(",".join(ent))
    return out


def run(ctx):
    v = C.Verdict(ctx)
    b = C.build(ctx, [MODULE])
    C.proof_audit(ctx, MODULE)
    stats = {"wt": 0, "wb": 0, "ok_complete": 0, "failed_prefix": 0, "with_progress_timeout": 0}
    distinct, samples = set(), []
    if not b["go_ok"]:
        v.broken_tie("harness does not build against /repo", {"log": b["log"][-2000:]})
        return v.finish(C.proof_coverage(ctx, {"evaluations": 1, "distinct_nontrivial": 0}), [])
    if ctx.audit["problems"]:
        v.broken_tie("proof obligations of %s do not check: %s" % (MODULE, ctx.audit["problems"][:3]), {"audit": ctx.audit})
    r = ctx.rng
    lines, meta = [], []
    # single buffer packets
    small = [1, 2, 3, 5, 8] if ctx.quick() else [1, 2, 3, 4, 5, 6, 8, 12]
    for n in small:
        p = bytes(range(1, n + 1))
        for pol in policies(ctx, n, True):
            lines.append("wt %s %s" % (p.hex(), pol))
            meta.append(("wt", [p], pol))
    for n in [40, 200, 5000]:
        p = bytes(r.randrange(256) for _ in range(n))
        for pol in policies(ctx, n, False):
            lines.append("wt %s %s" % (p.hex(), pol))
            meta.append(("wt", [p], pol))
    # vectored packets: header + payload in every split
    splits = [(1, 1), (2, 1), (3, 2), (4, 3), (6, 3), (5, 0), (2, 4)]
    if not ctx.quick():
        splits += [(7, 5), (1, 6), (3, 3, 2), (2, 0, 3), (1, 1, 1, 1)]
    else:
        splits += [(2, 0, 3), (2, 2, 2)]
    for sp in splits:
        data = bytes(range(0x10, 0x10 + sum(sp)))
        bufs, o = [], 0
        for k in sp:
            bufs.append(data[o:o + k])
            o += k
        for pol in policies(ctx, sum(sp), True):
            lines.append("wb %s %s" % (",".join(C.hexs(x) for x in bufs), pol))
            meta.append(("wb", bufs, pol))
    for _ in range(60 if ctx.quick() else 600):
        bufs = [bytes(r.randrange(256) for _ in range(r.choice([0, 1, 5, 9, 130]))), bytes(r.randrange(256) for _ in range(r.choice([0, 1, 50, 3000])))]
        tot = sum(map(len, bufs))
        for pol in policies(ctx, tot, False)[:6]:
            lines.append("wb %s %s" % (",".join(C.hexs(x) for x in bufs), pol))
            meta.append(("wb", bufs, pol))
    impl, model = C.run_cases(ctx, "pure", [lines], timeout=1800)
    impl, model = impl[0], model[0]
    for k, (kind, bufs, pol) in enumerate(meta):
        io = impl[k] if k < len(impl) else "<missing>"
        mo = model[k] if k < len(model) else "<missing>"
        stats[kind] += 1
        whole = b"".join(bufs)
        distinct.add((kind, tuple(map(len, bufs)), pol))
        if "t" in pol:
            stats["with_progress_timeout"] += 1
        f = io.split()
        # monitor on the implementation's own output: logged bytes are a prefix; ok => complete
        bad = None
        if len(f) != 3 or not f[2].startswith("log="):
            bad = "unexpected output"
        else:
            log = bytes.fromhex(f[2][4:]) if f[2][4:] != "-" else b""
            if not whole.startswith(log):
                bad = "bytes on the connection are not a prefix of the packet (wire %s, packet %s)" % (log.hex()[:60], whole.hex()[:60])
            elif f[1] == "ok" and log != whole:
                bad = "success reported but only %d of %d bytes were written" % (len(log), len(whole))
            elif f[1] == "ok":
                stats["ok_complete"] += 1
            else:
                stats["failed_prefix"] += 1
        if bad:
            sig = "C08:%s:%s" % (kind, "success-incomplete" if "success" in bad else "not-prefix")
            v.violation(sig, "%s with policy %s: %s" % ("writeTo" if kind == "wt" else "writeBuffersTo", pol, bad),
                        {"port": "pure", "script": [lines[k][:400]], "impl": [io[:400]], "model": [mo[:400]]})
        elif io != mo:
            v.broken_tie("%s differs from model under policy %s: impl %s model %s" % (kind, pol, io[:100], mo[:100]),
                         {"port": "pure", "script": [lines[k][:400]], "impl": [io[:400]], "model": [mo[:400]]})
    samples = [{"op": lines[i][:100], "impl": impl[i][:100]} for i in (7, len(lines) // 2, len(lines) - 1) if i < len(impl)]
    # the connection-level clause on the real client: every connection's byte log frames as whole packets (plus at most one
    # incomplete tail), with writers stalled inside conn.Write - also between header and payload of a vectored write - while the
    # read routine has acknowledgements to send, short writes and errors in requests, resends and acknowledgements
    from . import sesscheck as SC
    prof = {"publish": 10, "ack": 6, "inbound": 8, "connect": 8, "fault": 10, "restart": 0.3, "call": 10, "response": 4,
            "hostile": 0.5, "close": 0.3, "blocked": 14, "midpacket": 0.5, "bigbuf": 0.05}
    smon = lambda tr, sc: SC.mon_sanity(tr) + [h for h in SC.mon_wire(tr) if h[0] in ("wire:malformed", "wire:after-disconnect")]
    skeep = lambda l: l.startswith(("ev w ", "ret ", "blocked", "rs "))
    _, sstats, shist, ssamples, snd = SC.run_property(ctx, MODULE, prof, 200, 4000, [smon], skeep, length=(8, 26), verdict=v)
    stats["session_scripts"] = sstats["scripts"]
    stats["session_unsupported"] = sstats["unsupported"]
    stats["session_not_reproduced"] = sstats.get("hits_not_reproduced", 0) + sstats.get("diffs_not_reproduced", 0)
    stats["session_ops_by_kind"] = shist
    ev = stats["wt"] + stats["wb"]
    cov = C.proof_coverage(ctx, {
        "evaluations": ev, "distinct_nontrivial": len(distinct),
        "rule": "every split of small packets (single buffer and 2-4 buffer vectors) into accepted byte counts with timeout/hard/closed "
                "outcomes at each split, two-step policies exhaustively, random policies for large packets; distinct = (buffer sizes, policy)",
        "samples": samples, "histogram": stats, "traces_validated_against_impl": ev,
    })
    return v.finish(cov, ["net.Conn.Write accepts a prefix of what it is given (A-conn)",
                          "net.Buffers.WriteTo modelled for the plain io.Writer path (compared every run through the real stdlib)",
                          "connection-level clause under concurrency: one writer at a time is a Sync theorem (A-atomic); on the real client it is searched with writers parked inside conn.Write, not proved"])
