"""C03 — exactly-once publish: no PUBLISH after recorded PUBREC; PUBREL until PUBCOMP."""
from . import sesscheck as SC

MODULE = "Props.C03"
PROFILE = {"wrap": 0.15, "publish": 18, "ack": 18, "inbound": 1, "connect": 10, "fault": 8, "restart": 4, "call": 1, "response": 1,
           "hostile": 0.5, "close": 0.2, "bigbuf": 0.05}


def keep(l):
    return l.startswith(("ev save", "ev del", "ev savefail", "ev delfail", "pub ", "exch", "ev w ", "ctr ", "adopt "))


def run(ctx):
    want = ("outbound:publish-after-pubrec", "outbound:duplicate-delivery", "outbound:id-reuse", "outbound:pubrel-before-save",
            "outbound:pubrel-without-publish", "outbound:forged-progress")
    mon = lambda tr, sc: SC.mon_sanity(tr) + [h for h in SC.mon_outbound(tr) if h[0] in want]
    dmon = lambda tr, sc: SC.mon_drained(tr)
    v, stats, hist, samples, nd = SC.run_property(ctx, MODULE, PROFILE, 250, 4000, [mon], keep, length=(10, 36),
                                                  drain=True, drain_monitors=[dmon])
    SC.volatile_stage(ctx, MODULE, PROFILE, v, stats)
    return SC.finish(ctx, v, stats, hist, samples, nd,
                     "exactly-once biased histories with acknowledgements lost at each of the four stages (connection breaks, save/delete "
                     "faults, restarts); a reference broker (awaitRel set) judges the implementation's wire for duplicates",
                     SC.SESSION_ASSUMPTIONS + ["the broker is the reference model of MQTT 3.1.1 4.3.3, not a real broker"])
