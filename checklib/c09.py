"""C09 — emitted packets decode to the request; invalid arguments denied without trace."""
import itertools
from . import common as C

PROP = "C09"
MODULE = "Props.C09"


def py_valid_string(b):
    if len(b) > 65535:
        return False
    try:
        b.decode("utf-8")
    except UnicodeDecodeError:
        return False
    return 0 not in b


def pattern(n):
    return bytes((i * 7 + 3) & 0xff for i in range(n))


def gen_strings(ctx):
    r = ctx.rng
    out = []
    # exhaustive: all strings of length <= 2 (sampled second byte in quick), 3-byte strings with special leads
    out.append(b"")
    for a in range(256):
        out.append(bytes([a]))
    seconds = range(256) if not ctx.quick() else [0, 0x41, 0x7f, 0x80, 0x8f, 0x90, 0x9f, 0xa0, 0xbf, 0xc0, 0xc2, 0xff]
    for a in range(256):
        for b in seconds:
            out.append(bytes([a, b]))
    for a in [0xc2, 0xdf, 0xe0, 0xe1, 0xec, 0xed, 0xee, 0xef, 0xf0, 0xf1, 0xf3, 0xf4, 0xf5]:
        for b in [0x7f, 0x80, 0x8f, 0x90, 0x9f, 0xa0, 0xbf, 0xc0]:
            for c in [0x00, 0x7f, 0x80, 0xbf, 0xc0]:
                out.append(bytes([a, b, c]))
                out.append(bytes([a, b, c, 0x80]))
                out.append(bytes([a, b, c, 0xbf, 0x41]))
    # class based
    frag = [b"a", b"/", b"+", b"#", "é".encode(), "€".encode(), "😀".encode(), "퟿".encode("utf-8", "surrogatepass"),
            b"\xed\xa0\x80", b"\xed\xbf\xbf", b"\xc0\x80", b"\xe0\x80\x80", b"\xf0\x80\x80\x80", b"\xf4\x90\x80\x80",
            b"\xf4\x8f\xbf\xbf", b"\xef\xbf\xbf", b"\xef\xbf\xbd", b"\xef\xbf\xbe", b"\xef\xbf", b"\xbd", b"\x00", b"\x01", b"\x7f", b"\xc2\x80", b"\xe2\x82", b"\xf0\x9f\x98", b"\xff", b"\x80"]
    for _ in range(300 if ctx.quick() else 3000):
        out.append(b"".join(r.choice(frag) for _ in range(r.randrange(1, 8))))
    # the replacement character itself is a valid code point (a decoder that signals errors with it must not refuse it)
    for t in (b"\xef\xbf\xbd", b"id-\xef\xbf\xbd", b"\xef\xbf\xbd/\xef\xbf\xbd", b"a\xef\xbf\xbdb", b"\xef\xbf\xbd\xef\xbf", b"\xef\xbf\xbd\xbd"):
        out.append(t)
    # boundary lengths, valid and invalid content
    for n in [127, 128, 65535, 65536]:
        out.append(b"a" * n)
        out.append("é".encode() * (n // 2) + b"a" * (n % 2))
        out.append(b"a" * (n - 1) + b"\x00")
        out.append(b"a" * (n - 1) + b"\xff")
    return out


def run(ctx):
    v = C.Verdict(ctx)
    b = C.build(ctx, [MODULE])
    C.proof_audit(ctx, MODULE)
    stats = {"strcheck": 0, "topiccheck": 0, "pubhead": 0, "pub_decoded": 0, "connreq": 0, "denied": 0, "accepted": 0}
    distinct = set()
    samples = []
    if not b["go_ok"]:
        v.broken_tie("harness does not build against /repo", {"log": b["log"][-2000:]})
        return v.finish(C.proof_coverage(ctx, {"evaluations": 1, "distinct_nontrivial": 0}), [])
    if b["facts_missing"]:
        v.broken_tie("facts no longer located: %s" % b["facts_missing"], {})
    if ctx.audit["problems"]:
        v.broken_tie("proof obligations of %s do not check: %s" % (MODULE, ctx.audit["problems"][:3]), {"audit": ctx.audit})
    r = ctx.rng

    # ---- strings -------------------------------------------------------
    strs = gen_strings(ctx)
    lines = []
    for s in strs:
        lines.append("strcheck " + C.hexs(s))
        lines.append("topiccheck " + C.hexs(s))
    impl, model = C.run_cases(ctx, "pure", [lines])
    impl, model = impl[0], model[0]
    for i, s in enumerate(strs):
        for j, kind in enumerate(("strcheck", "topiccheck")):
            k = 2 * i + j
            io = impl[k] if k < len(impl) else "<missing>"
            mo = model[k] if k < len(model) else "<missing>"
            stats[kind] += 1
            valid = py_valid_string(s) and (kind == "strcheck" or len(s) > 0)
            want = kind + (" ok" if valid else " deny")
            distinct.add((kind, s[:6], len(s)))
            if io != want:
                what = ("valid %s refused" if valid else "invalid %s accepted") % ("string" if j == 0 else "topic")
                v.violation("C09:%s:%s" % (kind, "refuse-valid" if valid else "accept-invalid"),
                            "%s: %s (len %d) -> %s" % (what, s[:24].hex(), len(s), io),
                            {"port": "pure", "script": [lines[k][:200]], "impl": [io], "want": want})
            elif io != mo:
                v.broken_tie("%s differs from model on %s: impl %s model %s" % (kind, s[:24].hex(), io, mo),
                             {"port": "pure", "script": [lines[k][:200]], "impl": [io], "model": [mo]})
            stats["denied" if not valid else "accepted"] += 1
    samples.append({"strcheck": strs[700][:16].hex(), "result": impl[1400] if len(impl) > 1400 else ""})

    # ---- publish packets ----------------------------------------------
    topics = [b"a", b"a/b", "tëst/€".encode(), b"x" * 127, b"x" * 128, b"y" * 65535, b"", b"\x00", b"\xff", b"z" * 65536]
    sizes = [0, 1, 2, 100, 119, 120, 121, 127, 128, 16000, 16376, 16377, 16378, 16383, 16384, 2097140, 2097146, 2097147, 2097148, 2097152]
    if not ctx.quick():
        sizes += [268435455 - k for k in (0, 1, 2, 3, 4, 5, 6, 7, 8, 130, 131, 132)] + [268435456]
    else:
        sizes += [268435455 - k for k in (4, 5)]
    heads = [(0x30, 0), (0x31, 0), (0x32, 0x8000), (0x33, 0x8001), (0x34, 0xc000), (0x35, 0xffff), (0x32, 0xbfff)]
    pcases = []
    for t in topics:
        for n in sizes:
            if len(t) > 1000 and n > 1000 and n < 2000000:
                continue
            for (h, pid) in (heads if n < 1000 else heads[:3]):
                pcases.append((h, pid, t, n))
    for _ in range(200 if ctx.quick() else 2000):
        t = bytes(r.choice(b"ab/+#") for _ in range(r.randrange(1, 140)))
        pcases.append(r.choice(heads) + (t, r.choice([r.randrange(0, 300), r.randrange(16000, 16500), r.randrange(2097000, 2097300)])))
    lines = ["pubhead %d %d %s %d" % (h, pid, C.hexs(t), n) for (h, pid, t, n) in pcases]
    impl, model = C.run_cases(ctx, "pure", [lines], timeout=1800)
    impl, model = impl[0], model[0]
    dec_lines, dec_meta = [], []
    for k, (h, pid, t, n) in enumerate(pcases):
        io = impl[k] if k < len(impl) else "<missing>"
        mo = model[k] if k < len(model) else "<missing>"
        stats["pubhead"] += 1
        size = 2 + len(t) + n + (2 if pid else 0)
        valid = py_valid_string(t) and len(t) > 0 and size <= 268435455
        distinct.add(("pub", h, len(t), n))
        if valid and not io.startswith("pubhead pkt "):
            v.violation("C09:publish:refuse-valid", "valid PUBLISH refused (topic %d bytes, payload %d): %s" % (len(t), n, io),
                        {"port": "pure", "script": [lines[k][:300]], "impl": [io]})
        elif not valid and io != "pubhead deny":
            v.violation("C09:publish:accept-invalid", "invalid PUBLISH not denied (topic %s.., payload %d): %s" % (t[:8].hex(), n, io[:80]),
                        {"port": "pure", "script": [lines[k][:300]], "impl": [io[:300]]})
        elif io != mo:
            v.broken_tie("publishPacket differs from model: impl %s model %s" % (io[:120], mo[:120]),
                         {"port": "pure", "script": [lines[k][:300]], "impl": [io[:300]], "model": [mo[:300]]})
        if valid and io.startswith("pubhead pkt "):
            f = io.split()
            if f[4] != "true":
                v.violation("C09:publish:payload", "PUBLISH payload buffer is not the caller's message", {"script": [lines[k][:300]], "impl": [io[:300]]})
            if n <= 20000 and len(t) <= 200:
                dec_lines.append("decode " + f[2] + pattern(n).hex())
                dec_meta.append((h, pid, t, n, lines[k]))
            else:
                # header only: check the remaining length with a python varint decoder
                hb = bytes.fromhex(f[2])
                val, sh, i = 0, 0, 1
                while True:
                    val |= (hb[i] & 0x7f) << sh
                    sh += 7
                    i += 1
                    if hb[i - 1] < 0x80:
                        break
                if hb[0] != h or val != size or i > 5 or len(hb) - i != size - n:
                    v.violation("C09:publish:header", "PUBLISH header wrong for payload %d: %s" % (n, f[2][:40]),
                                {"script": [lines[k][:300]], "impl": [io[:300]]})
    samples.append({"pubhead": lines[5], "impl": impl[5] if len(impl) > 5 else ""})
    # reference-decode what the implementation emitted
    dec = C.run_bin(ctx, "driver", "oracle", dec_lines, timeout=1800)
    for (h, pid, t, n, line), d in zip(dec_meta, dec):
        stats["pub_decoded"] += 1
        qos = (h >> 1) & 3
        want = "decoded rest=0 publish dup=false qos=%d retain=%s topic=%s id=%d payload=%s" % (
            qos, "true" if h & 1 else "false", C.hexs(t), pid, C.hexs(pattern(n)))
        if d != want:
            v.violation("C09:publish:decode", "emitted PUBLISH does not decode to the request: got %s want %s" % (d[:100], want[:100]),
                        {"port": "pure", "script": [line[:300]], "decoded": d[:400], "want": want[:400]})

    # ---- CONNECT ---------------------------------------------------------
    ccases = []
    users = [b"", b"u", "üser".encode(), b"\xff", b"u" * 65535, b"u" * 65536]
    passes = [None, b"", b"pw", b"p" * 65535, b"p" * 65536]
    wtopics = [b"", b"w/t", b"\x00", b"w" * 65536]
    wmsgs = [None, b"", b"bye", b"m" * 65535, b"m" * 65536]
    cids = [b"", b"c", b"client-1", b"i" * 23, b"i" * 65535]
    for bits in range(32):
        clean, ret, alo, eo, big = [(bits >> i) & 1 for i in range(5)]
        ccases.append((clean, r.choice([0, 1, 60, 65535]), r.choice(users[:3]), r.choice(passes[:3]), r.choice(wtopics[:2]),
                       r.choice(wmsgs[:3]), ret, alo, eo, r.choice(cids[:4])))
    for _ in range(150 if ctx.quick() else 1500):
        ccases.append((r.randrange(2), r.choice([0, 1, 255, 256, 65535]), r.choice(users), r.choice(passes), r.choice(wtopics),
                       r.choice(wmsgs), r.randrange(2), r.randrange(2), r.randrange(2), r.choice(cids)))
    oh = lambda x: "nil" if x is None else C.hexs(x)
    lines = ["connreq %d %d %s %s %s %s %d %d %d %s" % (c[0], c[1], C.hexs(c[2]), oh(c[3]), C.hexs(c[4]), oh(c[5]), c[6], c[7], c[8], C.hexs(c[9]))
             for c in ccases]
    impl, model = C.run_cases(ctx, "pure", [lines], timeout=1800)
    impl, model = impl[0], model[0]
    dec_lines, dec_meta = [], []
    for k, c in enumerate(ccases):
        io = impl[k] if k < len(impl) else "<missing>"
        mo = model[k] if k < len(model) else "<missing>"
        stats["connreq"] += 1
        clean, ka, user, pw, wt, wm, ret, alo, eo, cid = c
        valid = py_valid_string(user) and (pw is None or len(pw) <= 65535) and (wm is None or len(wm) <= 65535) and \
            (py_valid_string(wt) and (wm is None or len(wt) > 0))
        distinct.add(("connreq", clean, len(user), pw is None, wm is None, ret, alo, eo))
        if valid and not io.startswith("connreq pkt "):
            v.violation("C09:config:refuse-valid", "valid Config refused: %s -> %s" % (lines[k][:80], io), {"script": [lines[k][:300]], "impl": [io]})
        elif not valid and io != "connreq deny":
            v.violation("C09:config:accept-invalid", "illegal Config accepted: %s" % lines[k][:80], {"script": [lines[k][:300]], "impl": [io[:200]]})
        elif io != mo:
            v.broken_tie("newCONNREQ differs from model: impl %s model %s" % (io[:100], mo[:100]),
                         {"port": "pure", "script": [lines[k][:300]], "impl": [io[:300]], "model": [mo[:300]]})
        if valid and io.startswith("connreq pkt "):
            dec_lines.append("decode " + io.split()[2])
            dec_meta.append((c, lines[k]))
    dec = C.run_bin(ctx, "driver", "oracle", dec_lines, timeout=1800)
    for (c, line), d in zip(dec_meta, dec):
        clean, ka, user, pw, wt, wm, ret, alo, eo, cid = c
        b2 = lambda x: "true" if x else "false"
        if wm is None:
            w = "nowill"
        else:
            w = "will %s %s %d %s" % (C.hexs(wt), C.hexs(wm), 2 if eo else (1 if alo else 0), b2(ret))
        hasuser = user != b"" or pw is not None
        want = "decoded rest=0 connect clean=%s keepalive=%d cid=%s %s user=%s pass=%s" % (
            b2(clean), ka, C.hexs(cid), w, C.hexs(user) if hasuser else "nil", oh(pw))
        if d != want:
            v.violation("C09:connect:decode", "emitted CONNECT does not decode to the Config: got %s want %s" % (d[:140], want[:140]),
                        {"port": "pure", "script": [line[:300]], "decoded": d[:400], "want": want[:400]})
    samples.append({"connreq": lines[3][:120], "impl": impl[3][:120] if len(impl) > 3 else ""})

    # "invalid arguments denied without trace" on the real client: a denied request writes nothing, stores nothing and
    # holds no transaction slot afterwards - including requests whose filters are valid one by one and too large together
    from . import sess, sesscheck as SC
    r = ctx.rng
    denied = ["call %s sub 1 none", "call %s sub 1 -", "call %s sub 2 61,ff", "call %s sub 0 6100", "call %s unsub none", "call %s unsub 61,-",
              "call %s pub 0 - 6869", "call %s pub 0 2b 6869", "call %s pub 1 612f23 00", "pal 0 - 6869", "peo 1 23 6869", "pal 0 6100 6869",
              "call %s subhuge 4100 65535", "call %s unsubhuge 4097 65535", "call %s subhuge 4096 65533"]
    sscripts = []
    for k in range(3 if ctx.quick() else 12):
        # a Config that is refused leaves the Persistence as it was: the session can still be initialised afterwards
        sc = []
        for variant in r.sample(["nuluser", "baduser", "bigpass", "willnotopic", "badwilltopic", "bigwill", "nodialer"], 3):
            sc += ["initx 636c69 " + variant, "store"]
        sc += ["init 636c69 0 4 4", "dial ok 20020000", "feed block", "rs", "call keep sub 1 612f62", "counters", "store"]
        picks = r.sample(denied[:12], 6) + r.sample(denied[12:], 1 if ctx.quick() else 2)
        r.shuffle(picks)
        for j, d in enumerate(picks):
            sc += [d % ("d%d" % j) if "%s" in d else d, "counters", "store"]
        sc += ["call after unsub 61", "counters"]
        sscripts.append(sc)
    # accepted requests at the boundaries of the remaining-length encoding, on the real client: each must frame on the wire
    # with exactly the announced length, so that the packet written next (a PINGREQ) still stands on its own
    bscripts = []
    for rls in ([127, 128, 129], [16383, 16384, 16385], [128, 16384], [2097151, 2097152] if not ctx.quick() else [129, 16383]):
        for kind in ("unsub", "sub"):
            sc = ["init 636c69 0 4 4", "dial ok 20020000", "feed block", "rs"]
            for j, rl in enumerate(rls):
                ln = rl - (4 if kind == "unsub" else 5)
                if ln > 65535:
                    n = rl // 60000 + 1                      # several filters of equal length plus the rest in the packet's size
                    per = (rl - 2) // n - (2 if kind == "unsub" else 3)
                    sc += ["call b%d %shuge %d %d" % (j, kind, n, per), "call p%d ping" % j, "brk", "rs", "dial ok 20020000", "feed block", "rs"]
                    continue
                sc += ["call b%d %shuge 1 %d" % (j, kind, ln), "call p%d ping" % j, "brk", "rs", "dial ok 20020000", "feed block", "rs"]
            bscripts.append(sc)
    stats["boundary_requests"] = 0
    for sc, (io, mo) in zip(bscripts, sess.run_session(ctx, bscripts)):
        tr = SC.parse_trace(io, sc)
        for h in SC.mon_wire(tr):
            v.violation("C09:" + h[0], "a request at a remaining-length boundary: " + h[1], {"port": "session", "script": [o[:80] for o in sc], "impl": [l[:160] for l in io[-12:]]})
        w = SC.Wire()
        for i, (op, lines) in enumerate(tr):
            names = []
            for l in lines:
                if l.startswith("ev w "):
                    names += [d["name"] for d in w.add(i, l.split()[2], SC.unhex(l.split()[3]))]
            f = op.split()
            if len(f) > 2 and f[0] == "call" and f[2].endswith("huge"):
                stats["boundary_requests"] += 1
                if names != [("unsubscribe" if f[2].startswith("unsub") else "subscribe")]:
                    v.violation("C09:boundary-request", "`%s` put %s on the wire, want exactly one %s packet" % (op, names or "nothing that frames", f[2][:-4]),
                                {"port": "session", "script": [o[:80] for o in sc], "impl": [l[:160] for l in io[-12:]]})
            if len(f) > 2 and f[0] == "call" and f[2] == "ping" and names != ["pingreq"]:
                v.violation("C09:boundary-request", "the PINGREQ after a request at a remaining-length boundary does not stand on its own: %s" % (names or "nothing that frames"),
                            {"port": "session", "script": [o[:80] for o in sc], "impl": [l[:160] for l in io[-12:]]})
        if not sess.unsupported(mo):
            d = C.first_diff(io, mo)
            if d:
                v.broken_tie("implementation and model disagree on requests at remaining-length boundaries: impl `%s` model `%s`" % (d[1][:100], d[2][:100]),
                             {"port": "session", "script": [o[:80] for o in sc], "impl": [l[:160] for l in io[-20:]], "model": [l[:160] for l in mo[-20:]]})
    stats["deny_session_ops"] = 0
    for sc, (io, mo) in zip(sscripts, sess.run_session(ctx, sscripts)):
        tr = SC.parse_trace(io, sc)
        for h in SC.mon_records(tr):
            v.violation("C09:" + h[0], "an accepted request among denied ones: " + h[1], {"port": "session", "script": sc, "impl": io[-12:]})
        last_ctr, last_store = None, None
        for i, (op, lines) in enumerate(tr):
            f = op.split()
            if f and f[0] == "initx":
                stats["deny_session_ops"] += 1
                after = [l for o, ls in tr[i + 1:i + 2] for l in ls if l.startswith("store")]
                if any(l.startswith("init ok") for l in lines):
                    v.violation("C09:config-accepted", "InitSession accepted the illegal Config `%s`" % f[2], {"port": "session", "script": sc[:i + 2], "impl": io[:8]})
                elif any(l.startswith("ev save") for l in lines) or (after and after[0].strip() != "store"):
                    v.violation("C09:deny-trace:init", "InitSession refused the Config `%s` and left a trace in the Persistence: %s" % (f[2], (lines + after)[:3]),
                                {"port": "session", "script": sc[:i + 2], "impl": io[:8]})
            if f and f[0] == "init" and not any(l == "init ok" for l in lines):
                v.violation("C09:deny-trace:init", "InitSession with a legal Config fails after refused attempts on the same Persistence: %s" % lines[:2],
                            {"port": "session", "script": sc[:i + 1], "impl": io[:10]})
            den = any(l.split()[-1:] == ["deny"] for l in lines if l.startswith(("ret ", "pub err")))
            if den:
                stats["deny_session_ops"] += 1
                if any(l.startswith(("ev w ", "ev save", "ev del")) for l in lines):
                    v.violation("C09:deny-trace:io", "the denied request `%s` wrote to the connection or the store: %s" % (op[:50], lines[:3]),
                                {"port": "session", "script": sc[:i + 1], "impl": io[-12:]})
                nxt = [l for o, ls in tr[i + 1:i + 3] for l in ls if l.startswith(("ctr ", "store"))]
                for l in nxt:
                    ref = last_ctr if l.startswith("ctr ") else last_store
                    if ref is not None and l != ref:
                        v.violation("C09:deny-trace:state", "after the denied request `%s` the client's bookkeeping changed: `%s` was `%s`" % (op[:50], l[:120], ref[:120]),
                                    {"port": "session", "script": sc[:i + 3], "impl": io[-12:]})
            for l in lines:
                if l.startswith("ctr "):
                    last_ctr = l
                elif l.startswith("store"):
                    last_store = l
        if not sess.unsupported(mo):
            d = C.first_diff(io, mo)
            if d:
                v.broken_tie("implementation and model disagree on denied requests (session port): impl `%s` model `%s`" % (d[1][:100], d[2][:100]),
                             {"port": "session", "script": sc, "impl": io[-20:], "model": mo[-20:]})

    ev = stats["strcheck"] + stats["topiccheck"] + stats["pubhead"] + stats["connreq"]
    cov = C.proof_coverage(ctx, {
        "evaluations": ev, "distinct_nontrivial": len(distinct),
        "rule": "strings: exhaustive length<=2 (sampled seconds in quick), special-lead 3/4-byte strings, class-based fragments, boundary "
                "lengths; PUBLISH: topics x payload sizes across every remaining-length width boundary x heads; CONNECT: option "
                "combinations; distinct = distinct (kind, prefix/length/option vector); every emitted packet is decoded by the Lean reference decoder",
        "samples": samples, "histogram": stats, "traces_validated_against_impl": ev,
    })
    return v.finish(cov, ["utf8.ValidString is modelled by Model.utf8Valid and compared on every run (also against Python's strict decoder)",
                          "SUBSCRIBE/UNSUBSCRIBE composition and the no-trace clause are exercised through the session port"])
