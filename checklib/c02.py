"""C02 — restart resumes exactly the unacknowledged set, at any stop point, repeatedly."""
from . import sesscheck as SC

MODULE = "Props.C02"
PROFILE = {"wrap": 0.15, "publish": 20, "ack": 12, "inbound": 2, "connect": 8, "fault": 6, "restart": 9, "call": 1, "response": 1,
           "hostile": 0.3, "close": 0.1, "bigbuf": 0.05}


def keep(l):
    return l.startswith(("adopt ", "ctr ", "store", "ev w ", "ev save", "ev del", "pub "))


def mon_restart(tr, sc):
    out = []
    damaged = any(o.startswith("damage") for o in sc)
    last_store = None
    for i, (op, lines) in enumerate(tr):
        f = op.split()
        for l in lines:
            if l.startswith("store"):
                last_store = l
        if f and f[0] == "adopt" and not damaged:
            res = [l for l in lines if l.startswith("adopt ")]
            if res and res[0].startswith("adopt ok") and res[0] != "adopt ok -":
                out.append(("restart:warning", "AdoptSession warned on an undamaged session: %s" % res[0][:120]))
            if res and res[0].startswith("adopt ok") and last_store is not None and i + 1 < len(tr):
                recs = SC.parse_store_line(last_store)
                n1 = sum(1 for k, p, _ in recs if 0x8000 <= k < 0xc000 and p)
                n2 = sum(1 for k, p, _ in recs if 0xc000 <= k < 0x10000 and p)
                ctr = [l for l in tr[i + 1][1] if l.startswith("ctr ")]
                if ctr:
                    kv = dict(x.split("=") for x in ctr[0].split()[1:])
                    if int(kv["q1"]) != n1 or int(kv["q2"]) != n2:
                        out.append(("restart:pending-set", "adopted client has %s/%s pending transfers, the store holds %d/%d" %
                                    (kv["q1"], kv["q2"], n1, n2)))
                    if int(kv["a1"]) - int(kv["acked"]) != n1 or int(kv["a2"]) - int(kv["completed"]) != n2:
                        out.append(("restart:counters", "adopted counters span %d/%d sequence numbers for %d/%d records" %
                                    (int(kv["a1"]) - int(kv["acked"]), int(kv["a2"]) - int(kv["completed"]), n1, n2)))
    return out


def run(ctx):
    mon = lambda tr, sc: SC.mon_sanity(tr) + mon_restart(tr, sc) + \
        [h for h in SC.mon_outbound(tr) if h[0] in ("outbound:duplicate-delivery", "outbound:publish-after-pubrec", "outbound:id-reuse")]
    dmon = lambda tr, sc: SC.mon_drained(tr)
    v, stats, hist, samples, nd = SC.run_property(ctx, MODULE, PROFILE, 250, 4000, [mon], keep, length=(12, 40),
                                                  drain=True, drain_monitors=[dmon])
    return SC.finish(ctx, v, stats, hist, samples, nd,
                     "histories with 1..k stop/adopt cycles at arbitrary operation boundaries (a failed Save/Delete is the stop before it), "
                     "new publishes and acknowledgements in between, limits changed between generations; the adopted pending set is compared "
                     "with the store snapshot taken right before, and the drain epilogue must complete everything",
                     SC.SESSION_ASSUMPTIONS + ["stop points are persistence-operation boundaries (nothing else survives a stop); torn saves are C19's subject",
                                               "classification+sort of the listed records is covered by the correspondence, not by a theorem (C02_recon_exact assumes the cleaned lists are the true windows)"])
