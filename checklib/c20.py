"""C20 — mqtttest doubles flag every deviation and mimic the client's contract."""
import itertools
from . import common as C

MODULE = "Props.C20"


def run(ctx):
    v = C.Verdict(ctx)
    b = C.build(ctx, [MODULE])
    C.proof_audit(ctx, MODULE)
    stats = {"publish_mock": 0, "subscribe_mock": 0, "readslices_mock": 0, "exchange_stub": 0, "stubs": 0}
    if not b["go_ok"]:
        v.broken_tie("harness does not build against /repo", {"log": b["log"][-2000:]})
        return v.finish(C.proof_coverage(ctx, {"evaluations": 1, "distinct_nontrivial": 0}), [])
    if ctx.audit["problems"]:
        v.broken_tie("proof obligations of %s do not check: %s" % (MODULE, ctx.audit["problems"][:3]), {"audit": ctx.audit})
    r = ctx.rng
    cases, meta = [], []
    msgs, topics, errs = ["01", "02"], ["61", "62"], ["nil", "e1"]
    maxlen = 2 if ctx.quick() else 3
    # publish mock: all expectation lists x invocation sequences over {m0,m1}x{t0,t1}x{quit}
    transfers = [(m, t, e) for m in msgs for t in topics for e in errs]
    wants = [()] + [(w,) for w in transfers[:4]] + [(a, b2) for a in transfers[:3] for b2 in transfers[4:6]]
    calls = [(q, m, t) for q in ("nil", "closed") for m in msgs for t in topics]
    # a zero-length message is the same message whether the slice is nil or empty
    zs = ["nil", "-"]
    for wm in zs:
        for cm in zs:
            for e in errs:
                w = ((wm, "61", e),)
                for seq in ([("nil", cm, "61")], [("nil", cm, "61"), ("nil", wm, "61")], [("nil", "01", "61")], [("closed", cm, "61"), ("nil", cm, "61")]):
                    sc = ["pubmock " + ";".join("%s:%s:%s" % x for x in w)] + ["pcall %s %s %s" % c for c in seq] + ["cleanup"]
                    cases.append(sc)
                    meta.append(("pub", tuple((("" if m in zs else m), t, e2) for m, t, e2 in w), [(q, ("" if m in zs else m), t) for q, m, t in seq]))
    for w in wants:
        for n in range(0, maxlen + 1):
            seqs = list(itertools.product(calls, repeat=n))
            if len(seqs) > 150:
                seqs = r.sample(seqs, 150)
            for seq in seqs:
                sc = ["pubmock " + (";".join("%s:%s:%s" % x for x in w) if w else "-")]
                sc += ["pcall %s %s %s" % c for c in seq] + ["cleanup"]
                cases.append(sc)
                meta.append(("pub", w, seq))
    # subscribe / unsubscribe mocks: filter sets over {a,b,c}
    fsets = ["61", "62", "61,62", "62,61", "61,63", "none"]
    fwants = [()] + [((f, e),) for f in fsets[:5] for e in errs] + [((fsets[2], "nil"), (fsets[0], "e1"))]
    fcalls = [(q, f) for q in ("nil", "open", "closed") for f in fsets]
    for kind in ("sub", "unsub"):
        for w in fwants:
            for n in range(0, 3):
                seqs = list(itertools.product(fcalls, repeat=n))
                if len(seqs) > 60:
                    seqs = r.sample(seqs, 60)
                for seq in seqs:
                    sc = ["submock %s %s" % (kind, ";".join("%s:%s" % x for x in w) if w else "-")]
                    sc += ["scall %s %s" % c for c in seq] + ["cleanup"]
                    cases.append(sc)
                    meta.append(("sub", w, seq))
    # ReadSlices mock
    for w in wants[:8]:
        for n in range(0, 4):
            cases.append(["rsmock " + (";".join("%s:%s:%s" % x for x in w) if w else "-")] + ["rcall"] * n + ["cleanup"])
            meta.append(("rs", w, n))
    # exchange stub scripts up to length 4 over {plain, wrapped ErrClosed, ErrClosed, block 0, block 3ms, nil}
    toks = ["e1", "wclosed", "closed", "b0", "b3", "bn", "nil", "wb3", "wb0"]
    for n in range(0, 4 if ctx.quick() else 5):
        seqs = list(itertools.product(toks, repeat=n))
        if len(seqs) > 220:
            seqs = r.sample(seqs, 220)
        for seq in seqs:
            for ef in (["nil"] if n else ["nil", "e2"]) + (["e2"] if n == 1 else []):
                cases.append(["exstub %s %s" % (ef, ",".join(seq) if seq else "-"), "ecall"])
                meta.append(("ex", ef, seq))
    # stubs
    for e in errs + ["closed"]:
        for q in ("nil", "open", "closed"):
            cases.append(["pubstub %s %s" % (e, q), "substub %s %s 61" % (e, q), "substub %s %s none" % (e, q)])
            meta.append(("stub", e, q))
    # one stub, several calls in a row: a cancelled call leaves the stub as it was
    for e in errs + ["closed"]:
        for qs in itertools.product(("nil", "open", "closed"), repeat=3):
            cases.append(["pubstubh %s %s" % (e, ",".join(qs)), "substubh %s %s" % (e, ",".join(qs))])
            meta.append(("stubh", e, qs))
    cases.append(["rsstub 0102 7475", "rsstub - -"])
    meta.append(("rsstub",))
    impl, model = C.run_cases(ctx, "mocks", cases, timeout=1800)
    distinct = set()
    samples = []
    for sc, m, io, mo in zip(cases, meta, impl, model):
        kind = m[0]
        stats[{"pub": "publish_mock", "sub": "subscribe_mock", "rs": "readslices_mock", "ex": "exchange_stub"}.get(kind, "stubs")] += 1
        distinct.add(tuple(sc))
        bad = None
        # property judged on the implementation's own output
        if any(l.startswith("panic") for l in io) :
            bad = ("panic", "double panicked: %s" % [l for l in io if l.startswith("panic")][0][:100])
        elif kind == "pub":
            w, seq = m[1], m[2]
            idx, fails = 0, 0
            for (q, mm, tt), line in zip(seq, io):
                if q == "closed":
                    want_ret = "canceled"
                else:
                    if idx >= len(w):
                        fails += 1
                        want_ret = "nil"
                    else:
                        if (mm, tt) != (w[idx][0], w[idx][1]):
                            fails += 1
                        want_ret = w[idx][2]
                    idx += 1
                if line != "pcall %s fails=%d" % (want_ret, fails):
                    bad = ("publish-mock", "publish mock: call %s/%s (quit %s) against %s gave `%s`, want `pcall %s fails=%d`" %
                           (mm, tt, q, w[idx - 1] if 0 < idx <= len(w) else "nothing", line, want_ret, fails))
                    break
            if not bad:
                want_fail = fails > 0 or idx != len(w)
                got_fail = not io[-1].endswith("fails=0")
                if want_fail != got_fail:
                    bad = ("publish-mock-count", "publish mock: %d expectations, %d counted calls: final `%s`" % (len(w), idx, io[-1]))
        elif kind == "rs":
            w, n = m[1], m[2]
            want_fail = n != len(w)                 # too few calls and too many calls are both deviations
            got_fail = not io[-1].endswith("fails=0")
            if want_fail != got_fail:
                bad = ("readslices-mock-count", "ReadSlices mock: %d expectations, %d calls: final `%s`" % (len(w), n, io[-1]))
        elif kind == "sub" and not any(c[1] == "none" for c in m[2]):
            w, seq = m[1], m[2]
            idx, fails, seen = 0, 0, 0
            for (q, fs), line in zip(seq, io):
                deviates = False
                if q == "closed":
                    want_ret = "canceled"
                else:
                    if idx >= len(w):
                        fails += 1
                        deviates = True
                        want_ret = "nil"
                    else:
                        exp = set() if w[idx][0] == "none" else set(w[idx][0].split(","))
                        if set(fs.split(",")) != exp:
                            fails += 1
                            deviates = True
                        want_ret = w[idx][1]
                    idx += 1
                try:
                    now = int(line.rsplit("fails=", 1)[1])
                except (IndexError, ValueError):
                    now = -1
                # each invocation is judged on its own: a matching one adds no failure, a deviating one at least one
                if line.split()[1:2] != [want_ret] or now < 0 or (now - seen > 0) != deviates:
                    bad = ("subscribe-mock", "subscribe mock: call with filters %s (quit %s) against %s gave `%s` (%d failures before it), want return %s and %s"
                           % (fs, q, w[idx - 1] if 0 < idx <= len(w) else "nothing", line, seen, want_ret, "a new failure" if deviates else "no new failure"))
                    break
                seen = now
            if not bad:
                want_fail = fails > 0 or idx != len(w)
                got_fail = not io[-1].endswith("fails=0")
                if want_fail != got_fail:
                    bad = ("subscribe-mock-count", "subscribe mock: %d expectations, %d counted calls: final `%s`" % (len(w), idx, io[-1]))
        elif kind == "ex":
            ef, seq = m[1], m[2]
            if ef == "nil" and not (io and io[0] == "exstub panic"):
                if len(io) > 1 and io[1].startswith("ecall ") and not io[1].startswith("ecall err"):
                    deliv = [t for t in seq if not t.startswith(("b", "wb"))]
                    openend = bool(seq) and (seq[-1] in ("closed", "wclosed", "b0", "wb0"))
                    want = "ecall %s %s" % (",".join(deliv) if deliv else "-", "open" if openend else "closed")
                    if io[1] != want:
                        bad = ("exchange-stub", "exchange stub script %s: got `%s`, want `%s`" % (",".join(seq), io[1], want))
        elif kind == "stub":
            e, q = m[1], m[2]
            want0 = "pubstub " + ("canceled" if q == "closed" else e)
            if io[0] != want0:
                bad = ("stub", "publish stub with quit %s returned `%s`, want `%s`" % (q, io[0], want0))
        elif kind == "stubh":
            e, qs = m[1], m[2]
            want = ",".join("canceled" if q == "closed" else e for q in qs)
            if io != ["pubstubh " + want, "substubh " + want]:
                bad = ("stub-history", "one stub with fix %s called with quits %s returned %s, want %s for both" % (e, ",".join(qs), io, want))
        elif kind == "rsstub":
            if io != ["rsstub private", "rsstub private"]:
                bad = ("rsstub", "ReadSlices stub does not return private copies: %s" % io)
        if bad:
            v.violation("C20:" + bad[0], bad[1], {"port": "mocks", "script": sc, "impl": io, "model": mo})
        elif io != mo:
            d = C.first_diff(io, mo)
            v.broken_tie("mqtttest double differs from the model: impl `%s` model `%s` in %s" % (d[1], d[2], sc[:2]),
                         {"port": "mocks", "script": sc, "impl": io, "model": mo})
        if len(samples) < 3 and kind in ("pub", "ex") and len(sc) > 2:
            samples.append({"script": sc, "impl": io})
    cov = C.proof_coverage(ctx, {
        "evaluations": len(cases), "distinct_nontrivial": len(distinct),
        "rule": "exhaustive over a small alphabet: expectation lists x invocation sequences ({m0,m1}x{t0,t1}x quit nil/closed, filter sets over "
                "{a,b,c} with quit nil/open/closed, too few and too many calls) up to length %d; all exchange scripts up to length %d over "
                "{plain, ErrClosed, wrapped ErrClosed, block 0, block 3ms, nil}" % (maxlen, 3 if ctx.quick() else 4),
        "samples": samples, "histogram": stats, "traces_validated_against_impl": len(cases),
    })
    return v.finish(cov, ["'private copies' is checked operationally (mutate, call again); value semantics has no aliasing",
                          "Fatalf of the recording testing.TB unwinds with a panic the harness recovers (the real one ends the goroutine)"])
