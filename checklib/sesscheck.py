"""Shared engine of the session-based property checks: generate scripts, run
implementation and model, project and diff, run the monitors on the
implementation's trace, shrink, report."""
import time, glob, os, random
from . import common as C, sess, mq
from .sessgen import Gen


# --------------------------------------------------------------------------
# trace parsing

def parse_trace(lines, script=None):
    """[(op, [output lines])]; echoed operations are truncated, the script has them in full"""
    ops = []
    k = 0
    for l in lines:
        if l.startswith("> "):
            full = l[2:]
            if script is not None and k < len(script) and script[k].startswith(full[:100]):
                full = script[k]
            k += 1
            ops.append((full, []))
        elif ops:
            ops[-1][1].append(l)
        else:
            ops.append(("", [l]))
    return ops


def unhex(h):
    return b"" if h == "-" else bytes.fromhex(h)


class Wire:
    """incremental framing of what the client wrote, per connection"""

    def __init__(self):
        self.buf = {}
        self.packets = []   # (opindex, conn, parsed)
        self.malformed = []

    def add(self, opi, conn, data):
        b = self.buf.get(conn, b"") + data
        fr, rest, bad = mq.frames(b)
        if bad:
            self.malformed.append((opi, conn, b.hex()))
            rest = b""
        self.buf[conn] = rest
        out = []
        for p in fr:
            try:
                d = mq.parse(p)
            except Exception:
                # frames as a packet but its body does not fit its type: what the client wrote is not MQTT
                self.malformed.append((opi, conn, p.hex()))
                continue
            self.packets.append((opi, conn, d))
            out.append(d)
        return out


# --------------------------------------------------------------------------
# monitors: each takes the parsed implementation trace and returns [(signature, what)]

def mon_sanity(tr):
    out = []
    for i, (op, lines) in enumerate(tr):
        for l in lines:
            if l.startswith("panic"):
                out.append(("panic", "panic in op %d `%s`: %s" % (i, op[:60], l[:160])))
            elif l.startswith("hang") or l == "spin" or l.startswith("CRASH"):
                out.append(("hang:" + op.split()[0], "op %d `%s` never returned / busy loop: %s" % (i, op[:60], l[:80])))
    return out + mon_records(tr) + mon_signals(tr)


def mon_signals(tr):
    """C10/C12: what Online() and Offline() show whenever the script looks: never both released, one of them released whenever
    every goroutine is at rest, and after a Close or Disconnect that returned: Offline released and Online blocked, for good"""
    out = []
    closed = False
    for i, (op, lines) in enumerate(tr):
        f = op.split()
        if f and f[0] in ("init", "vinit", "adopt"):
            closed = False
        for l in lines:
            if l == "close ok" or l == "ret close ok" or (l.startswith("disconnect ") and not l.startswith("disconnect blocked")) or l.startswith("ret disconnect "):
                closed = True
            if l.startswith("sig online="):
                on, off = l.split()[1].endswith("1"), l.split()[2].endswith("1")
                if on and off:
                    out.append(("signals:both-released", "Online and Offline are both released (`%s` after `%s`)" % (l, tr[i - 1][0][:40] if i else "")))
                elif not on and not off and not any(x.startswith(("unsupported", "stalled", "hang", "dead after")) for x in lines):
                    out.append(("signals:none-released", "neither Online nor Offline is released while every goroutine is at rest (`%s`)" % l))
                elif closed and on:
                    out.append(("signals:online-after-close", "Online is released after Close/Disconnect returned"))
    return out


def mon_records(tr):
    """what is stored and sent under an identifier belongs to that identifier: a record under an at-least-once key is the QoS 1
    PUBLISH with that identifier, under an exactly-once key the QoS 2 PUBLISH or the PUBREL with it, under a marker key the PUBREC;
    a PUBLISH on the wire carries an identifier from the space of its level; the PUBLISH records of accepted publishes follow each
    other without a gap (the identifier is the acceptance count)"""
    out = []
    last = {1: None, 2: None}
    maxseq = None              # the highest storage sequence number in the store, when known
    listing = None             # the valid records of the last `store` listing: key -> storage sequence number
    slow_store = any(o.split()[:1] == ["sgate"] for o, _ in tr)     # two Saves parked in the store may be logged in either order
    w = Wire()
    for i, (op, lines) in enumerate(tr):
        f = op.split()
        if f and f[0] in ("init", "vinit", "adopt", "initx", "damage", "wrapstore"):
            last = {1: None, 2: None}
            maxseq = 0 if f[0] == "init" else None
        if f and f[0] == "store":
            listing = {}
            for l in lines:
                if l.startswith("store"):
                    for ent in l.split()[1:]:
                        k, v, n = ent.split(":")
                        if v != "corrupt":
                            listing[int(k, 16)] = int(n)
        elif f and f[0] == "adopt":
            res = [l for l in lines if l.startswith("adopt ")]
            if listing is not None and i > 0 and tr[i - 1][0].split()[:1] == ["store"] and res and res[0].startswith("adopt ok"):
                # the session continues: storage sequence numbers go on after the highest one in the store, and - when AdoptSession
                # had nothing to complain about - identifiers go on after the newest pending one of each level
                maxseq = max([n for k, n in listing.items() if outbound_key(k)] or [0])      # (only outbound records are ordered by it)
                if res[0].split()[2:3] == ["-"]:
                    for lvl, lo in ((1, 0x8000), (2, 0xc000)):
                        ks = {k for k in listing if lo <= k < lo + 0x4000}
                        ends = [k for k in ks if (lo | ((k + 1) & 0x3fff)) not in ks]
                        if len(ends) == 1 and len(ks) < 0x4000:
                            last[lvl] = ends[0]
            listing = None
        elif f and f[0] != "counters":
            listing = None if f and f[0] in ("damage",) else listing
        for l in lines:
            p = l.split()
            if l.startswith("ev save ") and len(p) == 5 and ":" not in p[3]:
                try:
                    key, pk = int(p[2], 16), unhex(p[3])
                    seq = int(p[4])
                except ValueError:
                    continue
                if outbound_key(key):
                    if maxseq is not None and not slow_store and seq <= maxseq:
                        out.append(("records:storage-sequence", "the record saved under key %x got the storage sequence number %d although the store held %d already: "
                                    "a later AdoptSession would sort it before older records" % (key, seq, maxseq)))
                    maxseq = seq if maxseq is None else max(maxseq, seq)
                if key == 0 or not pk:
                    continue
                t, qos = pk[0] >> 4, (pk[0] >> 1) & 3
                pid = None
                if t == 3 and len(pk) > 4:
                    j = 1
                    while j < len(pk) and pk[j] >= 0x80:
                        j += 1
                    body = pk[j + 1:]
                    tl = (body[0] << 8) | body[1] if len(body) >= 2 else 0
                    if qos and len(body) >= 4 + tl:
                        pid = (body[2 + tl] << 8) | body[3 + tl]
                elif t in (5, 6) and len(pk) == 4:
                    pid = (pk[2] << 8) | pk[3]
                ok = (0x8000 <= key < 0xc000 and t == 3 and qos == 1 and pid == key) or \
                     (0xc000 <= key < 0x10000 and ((t == 3 and qos == 2) or t == 6) and pid == key) or \
                     (key >= 0x10000 and t == 5 and pid == key & 0xffff)
                if not ok:
                    out.append(("records:key-mismatch", "the record stored under key %x is `%s`: not the packet that belongs to this key" % (key, p[3][:40])))
                lvl = 1 if 0x8000 <= key < 0xc000 else (2 if 0xc000 <= key < 0x10000 else 0)
                if lvl and t == 3:
                    prev = last[lvl]
                    if prev is not None and key != (prev & 0xc000) | ((prev + 1) & 0x3fff):
                        out.append(("records:id-gap", "accepted publishes of level %d got the identifiers %04x and then %04x: the identifier does not follow the acceptance count" % (lvl, prev, key)))
                    last[lvl] = key
            elif l.startswith("ev w "):
                for d in w.add(i, p[2], unhex(p[3])):
                    if d["name"] == "publish" and d.get("qos") in (1, 2) and "id" in d:
                        lo = 0x8000 if d["qos"] == 1 else 0xc000
                        if not lo <= d["id"] < lo + 0x4000:
                            out.append(("records:wire-level-space", "PUBLISH with QoS %d carries the identifier %04x, outside the space of its level" % (d["qos"], d["id"])))
    return out


def mon_wire(tr):
    """C08/C18: whole packets per connection; CONNECT first; DISCONNECT last."""
    out = []
    w = Wire()
    first = {}
    after_disc = set()
    for i, (op, lines) in enumerate(tr):
        for l in lines:
            if l.startswith("ev w "):
                _, _, conn, hx = l.split()
                for d in w.add(i, conn, unhex(hx)):
                    if conn not in first:
                        first[conn] = d["name"]
                        if d["name"] != "connect":
                            out.append(("wire:first-not-connect", "first packet on connection %s is %s" % (conn, d["name"])))
                    if conn in after_disc:
                        out.append(("wire:after-disconnect", "packet %s written after DISCONNECT on connection %s" % (d["name"], conn)))
                    if d["name"] == "disconnect":
                        after_disc.add(conn)
                    if d.get("connect_malformed"):
                        out.append(("wire:connect-malformed", "CONNECT on connection %s does not decode: %s" % (conn, d["connect_malformed"])))
                    if d["name"] == "reserved" or (d["name"] in ("connack", "suback", "unsuback", "pingresp")):
                        out.append(("wire:not-a-client-packet", "client wrote a %s packet" % d["name"]))
    for opi, conn, hx in w.malformed:
        out.append(("wire:malformed", "bytes on connection %s do not frame as MQTT packets: %s" % (conn, hx[:80])))
    return out


def outbound_key(k):
    return 0x8000 <= k < 0x10000


def mon_outbound(tr):
    """C01/C03/C05/C13/C17 on the implementation trace: records stay until the
    matching acknowledgement was fed; no PUBLISH after a recorded PUBREC;
    reference broker delivers exactly-once messages once; first appearances in
    order; exchanges close only after the record left."""
    out = []
    w = Wire()
    fed = b""                  # everything fed so far (acknowledgements are searched in it)
    stored = {}                # key -> "publish" | "pubrel"
    instance = {}              # key -> instance counter of the message currently using it
    inst_n = 0
    await_rel = set()          # reference broker: QoS 2 identifiers awaiting PUBREL
    delivered = {}             # instance -> deliveries by the reference broker
    ex_key = {}                # exchange id -> key
    deleted = set()
    first_seen = {1: [], 2: []}
    written_complete = {}      # instance -> seen completely on the wire in this generation
    gen_adopted = False
    last_store = None
    for i, (op, lines) in enumerate(tr):
        f = op.split()
        if f and f[0] == "feed":
            for a in f[1:]:
                if a not in ("tmo", "err", "eof", "block"):
                    fed += unhex(a)
        if f and f[0] == "dial" and len(f) > 2 and f[1] == "ok":
            fed += unhex(f[2])
        if f and f[0] == "damage" and f[1] in ("rm", "stray"):
            stored.pop(int(f[2], 16), None)
        for l in lines:
            if l.startswith("store"):
                last_store = l
        if f and f[0] == "adopt":
            gen_adopted = True
            written_complete = {}
            if last_store is not None:
                # the new generation starts from what the store holds
                stored, instance = {}, {}
                for k, pk, seq in sorted(parse_store_line(last_store), key=lambda r: r[2]):
                    if outbound_key(k) and pk:
                        t = pk[0] >> 4
                        if t in (3, 6):
                            inst_n += 1
                            instance[k] = inst_n
                            stored[k] = "publish" if t == 3 else "pubrel"
                first_seen = {1: [], 2: []}
            # records AdoptSession reports as dropped no longer count as pending
            for l in lines:
                if l.startswith("adopt ok ") and l != "adopt ok -":
                    for wtxt in l.split()[2].split(";"):
                        kind, _, rng = wtxt.partition(":")
                        if kind in ("gap", "relgap"):
                            ab, _, _c = rng.partition(">")
                            a, b = [int(x, 16) for x in ab.split("-")]
                            k, guard = a, 0
                            while guard < 20000:
                                stored.pop(k, None)
                                if k == b:
                                    break
                                k = (k & 0xc000) | ((k + 1) & 0x3fff)
                                guard += 1
                        elif kind == "corrupt-kept":
                            stored.pop(int(rng, 16), None)
        saved_here = None
        for l in lines:
            p = l.split()
            if l.startswith("ev save "):
                k = int(p[2], 16)
                if not outbound_key(k):
                    continue
                pk = unhex(p[3]) if not p[3].startswith(("short", "badsum")) else b""
                t = pk[0] >> 4 if pk else 0
                if t == 3:
                    if stored.get(k):
                        out.append(("outbound:id-reuse", "identifier %04x given to a new message while its record is still pending" % k))
                    inst_n += 1
                    instance[k] = inst_n
                    stored[k] = "publish"
                    saved_here = k
                elif t == 6:
                    if stored.get(k) != "publish":
                        out.append(("outbound:pubrel-without-publish", "PUBREL saved under %04x which holds no PUBLISH" % k))
                    if bytes([0x50, 2, k >> 8, k & 255]) not in fed:
                        out.append(("outbound:forged-progress", "PUBREC for %04x recorded but the broker never sent it" % k))
                    stored[k] = "pubrel"
            elif l.startswith("ev del "):
                k = int(p[2], 16)
                if not outbound_key(k):
                    continue
                want = bytes([0x40 if k < 0xc000 else 0x70, 2, k >> 8, k & 255])
                if op.startswith("adopt") or op.startswith("damage"):
                    pass   # AdoptSession removes corrupt records
                elif want not in fed:
                    out.append(("outbound:forged-progress", "record %04x deleted but the broker never sent %s" % (k, want.hex())))
                if k >= 0xc000 and stored.get(k) == "publish" and not op.startswith("adopt"):
                    out.append(("outbound:forged-progress", "exactly-once record %04x deleted before its PUBREC was recorded" % k))
                stored.pop(k, None)
                deleted.add(k)
            elif l.startswith("pub ok ex="):
                ex = int(l.split("=")[1])
                if saved_here is None:
                    out.append(("outbound:accept-without-save", "publish accepted (exchange %d) without a Save" % ex))
                else:
                    ex_key[ex] = (saved_here, instance.get(saved_here))
            elif l.startswith("exchclose "):
                ex = int(p[1])
                if ex in ex_key:
                    k, inst = ex_key[ex]
                    if stored.get(k) and instance.get(k) == inst:
                        out.append(("outbound:close-before-ack", "exchange %d closed while record %04x is still stored" % (ex, k)))
            elif l.startswith("ev w "):
                conn, hx = p[2], p[3]
                for d in w.add(i, conn, unhex(hx)):
                    if d["name"] == "publish" and d["qos"] > 0:
                        k = d["id"]
                        lvl = d["qos"]
                        inst = instance.get(k)
                        if stored.get(k) == "pubrel":
                            out.append(("outbound:publish-after-pubrec", "PUBLISH %04x transmitted although its PUBREC was recorded" % k))
                        if not stored.get(k):
                            out.append(("outbound:publish-not-stored", "PUBLISH %04x transmitted without a stored record" % k))
                        if inst is not None:
                            if inst not in first_seen[lvl]:
                                if first_seen[lvl] and inst < first_seen[lvl][-1]:
                                    out.append(("outbound:order", "PUBLISH %04x first appears on the wire after a later accepted one" % k))
                                first_seen[lvl].append(inst)
                            was = written_complete.get(inst, False)
                            if d["dup"] and not was and not gen_adopted:
                                out.append(("outbound:dup-on-first", "first transmission of %04x carries DUP" % k))
                            if not d["dup"] and was:
                                out.append(("outbound:no-dup-on-resend", "retransmission of %04x lacks DUP" % k))
                            written_complete[inst] = True
                        if lvl == 2:
                            if k not in await_rel:
                                await_rel.add(k)
                                delivered[inst] = delivered.get(inst, 0) + 1
                                if delivered[inst] > 1:
                                    out.append(("outbound:duplicate-delivery", "reference broker delivered exactly-once message %04x twice" % k))
                    elif d["name"] == "pubrel":
                        await_rel.discard(d["id"])
                        if stored.get(d["id"]) == "publish":
                            out.append(("outbound:pubrel-before-save", "PUBREL %04x on the wire before it was recorded" % d["id"]))
    return out


def mon_limits(tr, m1, m2):
    """C17: ErrMax exactly at the configured limit; never more in flight than the limit."""
    out = []
    cap = lambda m: 16384 if (m < 0 or m > 16383) else m
    caps = {1: cap(m1), 2: cap(m2)}
    count = {1: 0, 2: 0}
    lvl_of = lambda k: 1 if 0x8000 <= k < 0xc000 else (2 if 0xc000 <= k < 0x10000 else 0)
    for i, (op, lines) in enumerate(tr):
        f = op.split()
        if f and f[0] == "adopt":
            if any(l.startswith("adopt ok") for l in lines):
                caps = {1: cap(int(f[2])), 2: cap(int(f[3]))}
            else:
                return out     # no client after a fatal AdoptSession
        for l in lines:
            p = l.split()
            if l.startswith("ev save ") and f and f[0] in ("pal", "peo"):
                lv = lvl_of(int(p[2], 16))
                if lv:
                    count[lv] += 1
            elif l.startswith("ev del ") and not (f and f[0] == "adopt"):
                lv = lvl_of(int(p[2], 16))
                if lv:
                    count[lv] -= 1
            elif l.startswith("ctr "):
                kv = dict(x.split("=") for x in p[1:])
                if not (kv["a1"] == "0" and kv["q1"] == "0" and kv["a2"] == "0" and kv["q2"] == "0"):
                    count = {1: int(kv["q1"]), 2: int(kv["q2"])}
            elif l.startswith("pub err ") and "max" in p[2].split("+") and f[0] in ("pal", "peo"):
                lvl = 1 if f[0] == "pal" else 2
                if count[lvl] < caps[lvl]:
                    out.append(("limits:max-below-limit", "ErrMax with %d of %d level-%d transfers in flight" % (count[lvl], caps[lvl], lvl)))
        for lvl in (1, 2):
            if count[lvl] > caps[lvl]:
                out.append(("limits:over-limit", "%d level-%d transfers in flight, limit %d" % (count[lvl], lvl, caps[lvl])))
    return out


def mon_deadline(tr):
    """C13 "never waits beyond what PauseTimeout permits": whenever the broker stalls inside the handshake reply or inside a
    packet (the scripted connection reports where the stream stands), a read deadline must be armed - the harness configures a
    non-zero PauseTimeout and never lets time pass, so an unarmed wait there would last for ever"""
    out = []
    nconn, double = 0, None      # connections dialled so far; the connection that was fed two expiries in a row
    for i, (op, lines) in enumerate(tr):
        f = op.split()
        if f and f[0] == "feed" and any(a == "tmo" and b == "tmo" for a, b in zip(f[1:], f[2:])):
            double = nconn - 1
        if f and f[0] == "brk":
            double = None
        for l in lines:
            p = l.split()
            if l.startswith("ev dial ok"):
                nconn += 1
            # two deadline expiries in a row: the second one saw no progress, the connection must be given up - the read
            # routine cannot be found waiting on it afterwards
            if double is not None and double == nconn - 1 and l.startswith("ev stall %d " % double) \
                    and not any(x.startswith(("unsupported", "dead after")) for x in lines):
                out.append(("deadline:expiry-ignored", "connection %d saw two read deadline expiries in a row (the second without progress) and the read routine still waits on it: `%s`" % (double, l)))
                double = None
            if l.startswith("ev stall ") and p[3:4] == ["idle"]:
                out.append(("deadline:armed-while-idle", "during `%s` the client waits between two packets with a read deadline still set (connection %s): "
                            "the idle connection would be given up although nothing is in transfer" % (op[:40], p[2])))
            elif l.startswith("ev stall dial"):
                out.append(("deadline:unarmed-wait:dial", "during `%s` the Dialer is invoked with a context that never expires although PauseTimeout is "
                            "configured: a dial that gets no answer blocks ReadSlices for good" % op[:40]))
            elif l.startswith("ev stall ") and p[-1] == "unarmed":
                out.append(("deadline:unarmed-wait:" + ("readall" if op.split()[:1] == ["readall"] else p[3]),
                            "during `%s` the client waits for the stalled broker %s without a read deadline (connection %s)"
                            % (op[:40], "inside the handshake reply" if p[3] == "handshake" else "inside a packet", p[2])))
    return out


def mon_slots(tr):
    """C17/C11: a Subscribe or Unsubscribe that has returned holds no transaction slot any more (whatever it returned), so the
    number of slots in use never exceeds the number of such calls that are still on their way"""
    out = []
    pending = set()
    for i, (op, lines) in enumerate(tr):
        f = op.split()
        if f and f[0] in ("adopt", "init", "vinit"):
            pending = set()
        if f and f[0] == "call" and len(f) > 2 and f[2] in ("sub", "unsub", "subhuge", "unsubhuge") and "noclient" not in lines:
            pending.add(f[1])
        for l in lines:
            if l.startswith("ret "):
                pending.discard(l.split()[1])
        for l in lines:
            if l.startswith("ctr ") and "tx=" in l:
                tx = int(l.rsplit("tx=", 1)[1])
                if tx > len(pending):
                    out.append(("slots:leaked", "%d subscribe/unsubscribe slots are in use while %d such calls are on their way: a call that returned kept its slot" % (tx, len(pending))))
    return out


def mon_unordered_ids(tr):
    """C17/C11: a SUBSCRIBE or UNSUBSCRIBE never goes out with an identifier that another request still holds, and the
    identifiers stay inside their 13-bit spaces (0x6000.. subscribe, 0x4000.. unsubscribe). Packets are taken from the framed
    byte stream of each connection, not from single write events."""
    out = []
    holder = {}        # identifier -> tag of the call that wrote it and has not returned
    w = Wire()
    for i, (op, lines) in enumerate(tr):
        f = op.split()
        if f and f[0] in ("adopt", "init"):
            holder = {}
        for l in lines:
            p = l.split()
            if l.startswith("ret "):
                for k in [k for k, t in holder.items() if t == p[1]]:
                    del holder[k]
            elif l.startswith("ev w ") and len(p) > 3:
                for d in w.add(i, p[2], unhex(p[3])):
                    if d["name"] not in ("subscribe", "unsubscribe") or "id" not in d:
                        continue
                    pid = d["id"]
                    space = 0x6000 if d["name"] == "subscribe" else 0x4000
                    if pid & ~0x1fff != space:
                        out.append(("unordered:space", "%s with identifier %04x outside its space %04x..%04x" % (d["name"].upper(), pid, space, space + 0x1fff)))
                    tag = f[1] if f and f[0] == "call" else "?"
                    if pid in holder and holder[pid] != tag and tag != "?" and holder[pid] != "?":
                        out.append(("unordered:id-reuse", "identifier %04x written for request %s while request %s still holds it" % (pid, tag, holder[pid])))
                    holder[pid] = tag
    return out


DOC_CLASSES = {
    "pub": {"ok", "closed", "down", "canceled", "deny", "submit"},
    "sub": {"ok", "closed", "down", "max", "canceled", "deny", "suberr", "submit", "break", "abandoned"},
    "unsub": {"ok", "closed", "down", "max", "canceled", "deny", "submit", "break", "abandoned"},
    "ping": {"ok", "closed", "down", "max", "canceled", "submit", "break", "abandoned"},
    "persist": {"closed", "max", "deny", "store"},
    "disconnect": {"ok", "closed", "down", "canceled", "submit"},
}
NOT_SUBMITTED = {"closed", "down", "max", "canceled", "deny"}
DETAIL = {"timeout", "hard", "netclosed", "eof", "ueof"}


def mon_errors(tr):
    """C14: error classes per method; not-submitted classes wrote nothing."""
    out = []
    kind_of = {}
    wrote_for = set()
    for i, (op, lines) in enumerate(tr):
        f = op.split()
        if f and f[0] == "call":
            f[2] = {"subhuge": "sub", "unsubhuge": "unsub"}.get(f[2], f[2])
            kind_of[f[1]] = f[2]
        wrote = any(l.startswith("ev w ") for l in lines)
        if f and f[0] == "call":
            # bytes of this very request on the wire (whole or a prefix: they start with its packet type), while it did not return yet
            head = {"ping": ("c0",), "sub": ("82",), "unsub": ("a2",), "pub": ("30", "31")}.get(f[2], ())
            if any(l.startswith("ev w ") and l.split()[3].startswith(head) for l in lines) and head:
                wrote_for.add(f[1])
        for l in lines:
            p = l.split()
            if l.startswith("ret ") and p[1] in kind_of:
                tags = set(t.split(":")[0] for t in p[2].split("+"))
                main = tags - DETAIL
                allowed = DOC_CLASSES[kind_of[p[1]]]
                if p[1] in wrote_for and main and main <= NOT_SUBMITTED and not (f and f[0] == "call" and f[1] == p[1]):
                    out.append(("errors:not-submitted-wrote", "%s %s returned `%s` (a class that promises nothing was sent) although its request was written to the connection earlier"
                                % (kind_of[p[1]], p[1], p[2])))
                if not main or not main <= allowed:
                    out.append(("errors:undocumented:" + kind_of[p[1]], "%s returned an error outside its documented classes: %s" % (kind_of[p[1]], p[2])))
                if f and f[0] == "call" and f[1] == p[1] and (main & NOT_SUBMITTED) and wrote and "submit" not in main:
                    out.append(("errors:not-submitted-wrote", "%s returned %s although bytes were written" % (kind_of[p[1]], p[2])))
            elif l.startswith("pub err ") and f and f[0] in ("pal", "peo"):
                tags = set(t.split(":")[0] for t in p[2].split("+")) - DETAIL
                if not tags or not tags <= DOC_CLASSES["persist"]:
                    out.append(("errors:undocumented:persist", "persisted publish returned %s" % p[2]))
                if any(x.startswith("pub ok") for x in lines) or any(x.startswith("ev save") and not x.startswith("ev savefail") for x in lines if "pub err" in l and "store" not in l):
                    out.append(("errors:dropped-but-saved", "persisted publish returned %s but left a record" % p[2]))
            elif l.startswith("ev backoff-mismatch"):
                out.append(("errors:backoff-nil", "Client.Backoff(%s) is %s although IsDeny/IsEnd/SubscribeError say the error is %s"
                            % (p[2], "not nil" if p[3] == "permanent=true" else "nil", "permanent" if p[3] == "permanent=true" else "not permanent")))
            elif l.startswith("disconnect "):
                tags = set(t.split(":")[0] for t in p[1].split("+")) - DETAIL
                if not tags or not tags <= DOC_CLASSES["disconnect"]:
                    out.append(("errors:undocumented:disconnect", "Disconnect returned %s" % p[1]))
    return out


def next_inbound_ack(tr, i):
    """the first PUBACK or PUBREC the client writes after operation i and before it returns another message"""
    for op, lines in tr[i + 1:]:
        if op.split()[:1] in (["adopt"], ["init"], ["vinit"]):
            return None
        for l in lines:
            if l.startswith(("rs msg ", "rs big ")):
                return None
            if l.startswith("ev w "):
                fr, _, _ = mq.frames(unhex(l.split()[3]))
                for pk in fr:
                    if len(pk) == 4 and pk[0] in (0x40, 0x50):
                        return ("puback" if pk[0] == 0x40 else "pubrec", (pk[2] << 8) | pk[3])
    return None


def mon_inbound(tr):
    """C04/C07: acknowledgements only after ownership was taken, with the right
    identifier; exactly-once messages returned once per cycle; PUBREL answered."""
    out = []
    w = Wire()
    fedq = []          # inbound PUBLISH packets fed and not yet matched to a return
    streams = {}       # per (conn) raw inbound stream for frame parsing
    cur = [0]
    owed = None        # (name, id) owed for the message last returned
    owed_op = -1
    took = False
    marker_op, acked_here = {}, set()
    markers = set()
    inbuf = b""
    live = False
    pending = []       # fed while no connection is up: handed to the next one
    prebytes = b""     # raw bytes fed while no connection is up
    plans, hs_need = [], 0
    replies, accepted_op = [], -1
    owned = set()        # exactly-once identifiers whose message the application took ownership of, cycle not ended by the broker
    cycle_open = set()   # exactly-once identifiers between the return of the message and the PUBCOMP on the wire
    clean_cfg = any(o.split()[:1] == ["init"] and o.split()[2] == "1" for o, _ in tr) or any(o.split()[:1] == ["adopt"] and o.split()[1:2] == ["1"] for o, _ in tr)
    for i, (op, lines) in enumerate(tr):
        f = op.split()
        if f and f[0] == "dial":
            plans.append(len(unhex(f[2])) if f[1] == "ok" and len(f) > 2 else ("block" if f[1] == "block" else None))
            replies.append(unhex(f[2]) if f[1] == "ok" and len(f) > 2 else (b"block" if f[1] == "block" else None))
        if f and f[0] == "brk":
            pending, inbuf, plans, prebytes, replies = [], b"", [], b"", []
        if f and f[0] == "feed":
            for a in f[1:]:
                if a in ("tmo", "err", "eof", "block"):
                    if a in ("err", "eof"):
                        inbuf = b""
                    continue
                data = unhex(a)
                if not live:
                    prebytes += data      # framed when the connection that gets them is dialled
                    continue
                take = min(hs_need, len(data))
                hs_need -= take
                inbuf += data[take:]
                fr, rest, bad = mq.frames(inbuf)
                inbuf = b"" if bad else rest
                for pk in fr:
                    try:
                        d = mq.parse(pk)
                    except Exception:
                        continue
                    if d["name"] == "publish" and "topic" in d and d["qos"] < 3:
                        (fedq if live else pending).append(d)
                    elif d["name"] == "pubrel" and live and "id" in d:
                        fedq.append(d)
        if f and f[0] == "damage" and len(f) > 2:
            try:
                if int(f[2], 16) >= 0x10000:
                    markers.discard(int(f[2], 16) - 0x10000)
            except ValueError:
                pass
        if f and f[0] == "init":
            markers, cycle_open, owned = set(), set(), set()
        if f and f[0] in ("adopt",):
            owed, fedq, inbuf, live = None, [], b"", False
            # cycles survive a restart through the markers in the store
            cycle_open = set(markers)
            owned = set(markers)
        if f and f[0] == "rs" and owed is not None and i > owed_op:
            took = True        # the application invoked ReadSlices again: the slices of the last message are released
            if owed[0] == "pubrec" and not any(x in ("noclient",) or x.startswith(("unsupported", "dead after")) for x in lines):
                owned.add(owed[1])
        for l in lines:
            p = l.split()
            if l.startswith("ev dial fail"):
                while plans and plans[0] == "block":
                    plans.pop(0)
                    replies.pop(0)
                if plans:
                    plans.pop(0)
                    replies.pop(0)
            if l.startswith("ev dial ok"):
                while plans and plans[0] == "block":
                    plans.pop(0)
                    replies.pop(0)
                rep = replies.pop(0) if replies else bytes([0x20, 2, 0, 0])
                accepted_op = i if (rep is not None and rep[:4] in (bytes([0x20, 2, 0, 0]), bytes([0x20, 2, 1, 0]))) else -1
                n = plans.pop(0) if plans else 4
                hs_need = max(0, 4 - (n if n is not None else 4))
                take = min(hs_need, len(prebytes))
                hs_need -= take
                inbuf, prebytes = (rep[4:] if rep is not None and rep != b"block" else b"") + prebytes[take:], b""     # (what comes in one segment with the CONNACK)
                live, fedq, pending = True, [], []
                fr, rest, bad = mq.frames(inbuf)
                inbuf = b"" if bad else rest
                for pk in fr:
                    try:
                        d = mq.parse(pk)
                    except Exception:
                        continue
                    if (d["name"] == "publish" and "topic" in d and d["qos"] < 3) or (d["name"] == "pubrel" and "id" in d):
                        fedq.append(d)
            elif l.startswith("ev close "):
                live, fedq = False, []
            elif l.startswith(("ret ", "exch ")) and "netclosed" in l.split()[-1].split("+"):
                live = False      # a write that finds the connection closed already closes nothing (no event): what is fed from now on
                                  # goes to the next connection, what the read routine has buffered may still be returned
            elif l.startswith("rs err ") and not (l.split()[2] == "store" and any(x.startswith("ev savefail 1") for x in lines)):
                live, fedq = False, []      # every other reader error takes the client offline
            if l.startswith("rs msg ") or l.startswith("rs big "):
                topic = unhex(p[2])
                same = lambda d: d["name"] == "publish" and d["topic"] == topic and \
                    (len(d["payload"]) == int(p[3]) if l.startswith("rs big") else d["payload"] == unhex(p[3]))
                cands = [d for d in fedq if same(d)]
                # several fed packets may look alike (a skipped retransmission and a later message with the same topic and size):
                # prefer the reading under which the client is right - the one the next acknowledgement on the wire speaks of
                benign = [d for d in cands if not (d["qos"] == 2 and (d.get("id") in markers or d.get("id") in owned))]
                nxt = next_inbound_ack(tr, i) if len(cands) > 1 else None
                told = [d for d in benign if nxt and d["qos"] in (1, 2) and ("puback" if d["qos"] == 1 else "pubrec", d.get("id")) == nxt]
                match = told[0] if told else (benign[0] if benign else (cands[0] if cands else None))
                if match is not None:
                    k = fedq.index(match)
                    # what the broker sent before it on this connection and was not returned: legitimate only for a retransmission
                    # inside an exactly-once cycle (open now, or ended by a PUBREL further down the stream)
                    for j, d in enumerate(fedq[:k]):
                        if d["name"] == "pubrel":
                            cycle_open.discard(d.get("id"))
                            owned.discard(d.get("id"))
                        elif not (d["qos"] == 2 and (d.get("id") in cycle_open or d.get("id") in markers
                                                      or any(e["name"] == "pubrel" and e.get("id") == d.get("id") for e in fedq[j + 1:k]))):
                            out.append(("inbound:lost", "PUBLISH (QoS %d, identifier %04x, topic %s) sent before a returned message on the same connection was never returned"
                                        % (d["qos"], d.get("id") or 0, d["topic"].hex())))
                    fedq = fedq[k + 1:]
                    took = False
                    if match["qos"] == 1:
                        owed, owed_op = ("puback", match.get("id")), i
                    elif match["qos"] == 2:
                        owed, owed_op = ("pubrec", match.get("id")), i
                        if match.get("id") in markers or match.get("id") in owned:
                            out.append(("inbound:second-delivery", "exactly-once message %04x returned again within one delivery cycle" % match.get("id")))
                        cycle_open.add(match.get("id"))
                    else:
                        owed = None
                else:
                    owed, owed_op = ("?", None), i     # a return this monitor cannot attribute: nothing is concluded about its acknowledgement
            elif l.startswith("ev save "):
                k = int(p[2], 16)
                if k >= 0x10000:
                    if k - 0x10000 not in markers:
                        marker_op[k - 0x10000] = i
                    markers.add(k - 0x10000)
            elif l.startswith("ev del "):
                k = int(p[2], 16)
                if k >= 0x10000:
                    markers.discard(k - 0x10000)
            elif l.startswith("ev w "):
                for d in w.add(i, p[2], unhex(p[3])):
                    if d["name"] == "pubcomp":
                        # the client answers a PUBREL: retransmissions of that very message which the broker sent right before the PUBREL
                        # are behind it (they may look like a later message and must not be taken for what a later return hands out)
                        kk = next((j for j, e in enumerate(fedq) if e["name"] == "pubrel" and e.get("id") == d.get("id")), None)
                        if kk is not None and all(e["name"] == "publish" and e["qos"] == 2 and
                                                  (e.get("id") == d.get("id") or e.get("id") in markers or e.get("id") in cycle_open or e.get("id") in owned)
                                                  for e in fedq[:kk]):
                            fedq = fedq[kk + 1:]
                        if d.get("id") in markers:
                            out.append(("inbound:pubcomp-before-release", "PUBCOMP %04x written while the record of that delivery cycle is still stored: "
                                        "the next message under this identifier would be taken for a retransmission" % d.get("id")))
                        cycle_open.discard(d.get("id"))
                        owned.discard(d.get("id"))
                    if d["name"] in ("puback", "pubrec"):
                        name, pid = d["name"], d.get("id")
                        if owed == ("?", None):
                            owed = None
                            acked_here.add((i, pid))
                        elif owed == (name, pid):
                            if owed_op == i and not any(x.startswith("rs msg") or x.startswith("rs big") for x in lines[lines.index(l):]):
                                pass
                            if owed_op == i:
                                # written in the same operation that returned the message: before ownership
                                idx_ret = max(j for j, x in enumerate(lines) if x.startswith("rs msg") or x.startswith("rs big"))
                                if lines.index(l) < idx_ret:
                                    pass
                                else:
                                    out.append(("inbound:ack-before-ownership", "%s %04x written before the application called ReadSlices again" % (name, pid)))
                            elif not took:
                                out.append(("inbound:ack-before-ownership", "%s %04x written during `%s`, before the application called ReadSlices again" % (name, pid, op[:30])))
                            owed = None
                            acked_here.add((i, pid))
                        elif name == "pubrec" and pid in markers and (pid in cycle_open or pid in owned or (i, pid) in acked_here) and \
                                (marker_op.get(pid, -1) < i or (i, pid) in acked_here):
                            pass    # duplicate confirmed again: ownership of that message was taken before, its cycle is still open
                        elif name == "puback" or name == "pubrec":
                            out.append(("inbound:ack-without-return", "%s %04x written without a returned message owing it" % (name, pid)))
        # "none is returned without eventually being acknowledged": due once the application read again and that call went on
        # to wait for the broker (or returned the next message) on a connection
        if f and f[0] == "rs" and owed is not None and owed[1] is not None and i > owed_op and took and lines \
                and (lines[-1].split()[:2] in (["rs", "parked"],) and live and hs_need == 0
                     or accepted_op == i and lines[-1] in ("rs err eof", "rs err ueof") and not any(x.startswith("rs err reset") for x in lines)) \
                and not any(x.startswith(("ev savefail", "unsupported", "stalled", "hang") + (() if accepted_op == i else ("ev close",))) for x in lines):
            out.append(("inbound:never-acknowledged", "the message returned at op %d owes %s %04x; the application read again (op %d) and waits for the broker, no acknowledgement was written"
                        % (owed_op, owed[0], owed[1], i)))
            owed = None
    return out


# --------------------------------------------------------------------------
# drain epilogue: grant one fault-free connection and a conforming broker

def parse_store_line(line):
    """'store k:pkt:seq ...' -> [(key, packet bytes or None, seq)]"""
    out = []
    for item in line.split()[1:]:
        k, pk, seq = item.split(":")
        out.append((int(k, 16), None if pk == "corrupt" else unhex(pk), int(seq)))
    return out


def add_drain(ctx, scripts):
    """Appends to every script the epilogue that lets a conforming broker
    acknowledge everything pending; the model tells what is pending."""
    probe = [sc + ["mstate"] for sc in scripts]
    outs = C.run_cases(ctx, "session", probe, which=("driver",))[0]
    heads = []
    for sc, mo in zip(scripts, outs):
        st = [l for l in mo if l.startswith("mstate ")]
        last_adopt = max([i for i, o in enumerate(sc) if o.startswith("adopt")] + [-1])
        if not st or sess.unsupported(mo) or any(o.startswith("damage") for o in sc[last_adopt + 1:]):
            heads.append(None)     # damage under a running client is outside the drain claim
            continue
        kv = dict(x.split("=") for x in st[-1].split()[1:])
        if kv["noClient"] == "true" or kv["closed"] == "true" or kv["link"] == "closed" or kv["waiters"] != "0" or kv.get("stuck") == "true":
            # (a goroutine parked by the script - in the Dialer, awaiting CONNACK, inside conn.Write - stays there: no drain)
            heads.append(None)
            continue
        ep = ["brk"]
        if kv["parked"] != "true" and kv["readConn"] == "true":
            ep.append("rs")          # the idle reader notices the broken connection
        heads.append(ep)
    probe2 = [sc + (h or []) + ["mstate", "counters"] for sc, h in zip(scripts, heads)]
    outs2 = C.run_cases(ctx, "session", probe2, which=("driver",))[0]
    res = []
    for sc, h, mo in zip(scripts, heads, outs2):
        ct = [l for l in mo if l.startswith("ctr ")]
        st = [l for l in mo if l.startswith("mstate ")]
        if h is None or not ct or not st or sess.unsupported(mo):
            res.append((sc, False))
            continue
        kv = dict(x.split("=") for x in st[-1].split()[1:])
        if kv["link"] == "live" or kv["closed"] == "true" or kv["noClient"] == "true":
            res.append((sc, False))
            continue
        cv = {k: int(x) for k, x in (y.split("=") for y in ct[-1].split()[1:])}
        k1 = lambda n: 0x8000 | (n & 0x3fff)
        k2 = lambda n: 0xc000 | (n & 0x3fff)
        acks1 = [mq.ack("puback", k1(n)) for n in range(cv["acked"], cv["a1"])]
        rel = [k2(n) for n in range(cv["completed"], cv["received"])]
        pub = [k2(n) for n in range(cv["received"], cv["a2"])]
        if len(acks1) + len(rel) + len(pub) > 600:
            res.append((sc, False))
            continue
        acks2 = [mq.ack("pubcomp", k) for k in rel] + [mq.ack("pubrec", k) for k in pub] + [mq.ack("pubcomp", k) for k in pub]
        ep = h + ["dial ok 20020000",
                  "feed " + " ".join(a.hex() for a in (acks1 + acks2)) + " block" if (acks1 or acks2) else "feed block",
                  "rs", "counters", "store"]
        res.append((sc + ep, True))
    return res


def mon_drained(tr):
    """C01 liveness: after the epilogue nothing is pending and every exchange of the last generation is closed."""
    out = []
    last_ctr = None
    open_ex = set()
    for op, lines in tr:
        f = op.split()
        if f and f[0] == "adopt":
            open_ex = set()
        for l in lines:
            if l.startswith("ctr "):
                last_ctr = l
            elif l.startswith("pub ok ex="):
                open_ex.add(int(l.split("=")[1]))
            elif l.startswith("exchclose "):
                open_ex.discard(int(l.split()[1]))
    if last_ctr is not None:
        cv = {k: int(x) for k, x in (y.split("=") for y in last_ctr.split()[1:])}
        if cv["a1"] - cv["acked"] or cv["a2"] - cv["completed"] or cv["q1"] or cv["q2"]:
            out.append(("drain:still-pending", "after a fault-free connection with a conforming broker %d + %d transfers are still pending" %
                        (cv["a1"] - cv["acked"], cv["a2"] - cv["completed"])))
        elif open_ex:
            out.append(("drain:exchange-open", "exchange(s) %s never closed although every transfer was acknowledged" % sorted(open_ex)[:6]))
    return out


# --------------------------------------------------------------------------
# engine

def corpus_scripts(kind="session"):
    out = []
    for path in sorted(glob.glob(os.path.join(C.ROOT, "corpus", kind, "*.ops"))):
        out.append((os.path.basename(path), [l.strip() for l in open(path) if l.strip() and not l.startswith("#")]))
    return out


def shrink(ctx, script, fails):
    """delta debugging over operations: `fails(script)` must stay true"""
    cur = list(script)
    n = 2
    budget = 60
    t_end = time.time() + (40 if ctx.quick() else 240)     # scripts that make the client hang are slow to re-run
    while len(cur) >= 2 and budget > 0 and time.time() < t_end:
        chunk = max(1, len(cur) // n)
        reduced = False
        for i in range(0, len(cur), chunk):
            cand = cur[:i] + cur[i + chunk:]
            budget -= 1
            if cand and fails(cand):
                cur, reduced = cand, True
                n = max(n - 1, 2)
                break
            if budget <= 0 or time.time() > t_end:
                break
        if not reduced:
            if chunk == 1:
                break
            n = min(len(cur), n * 2)
    return cur


def project(lines, keep):
    """the lines compared between implementation and model; consecutive writes on one connection count as one"""
    out = []
    for l in lines:
        if not keep(l):
            continue
        if l.startswith("ev w ") and out and out[-1].startswith("ev w "):
            a, b = out[-1].split(), l.split()
            if len(a) == 4 and len(b) == 4 and a[2] == b[2]:
                out[-1] = "ev w %s %s" % (a[2], a[3] + b[3])
                continue
        out.append(l)
    return out


def run_property(ctx, module, profile, n_quick, n_thorough, monitors, keep, length=(8, 30), extra=None, sig_prefix=None,
                 drain=False, drain_monitors=None, verdict=None, transform=None, corpus=True):
    """Returns the Verdict-filled result. `monitors`: list of callables(trace, script)->[(sig, what)].
    `keep`: projection predicate on output lines for the differential comparison."""
    prop = ctx.prop
    v = verdict or C.Verdict(ctx)
    b = C.build(ctx, [module])
    if verdict is None or ctx.audit is None:
        C.proof_audit(ctx, module)
    stats = {"scripts": 0, "ops": 0, "unsupported": 0, "diffs": 0, "monitor_hits": 0, "corpus": 0}
    hist = {}
    if not b["go_ok"] or not os.path.exists(os.path.join(ctx.work, "driver")):
        v.broken_tie("harness or driver does not build against /repo", {"log": b["log"][-3000:]})
        return v, stats, hist, [], 0
    if b["facts_missing"]:
        v.broken_tie("facts no longer located: %s" % b["facts_missing"], {})
    if ctx.audit["problems"]:
        v.broken_tie("proof obligations of %s do not check: %s" % (module, ctx.audit["problems"][:3]), {"audit": ctx.audit})
    if b.get("pinned_facts"):
        v.broken_tie("the model no longer compiles against the regenerated facts; searching with the committed facts", {})
    scripts = []
    for name, sc in (corpus_scripts() if corpus else []):
        scripts.append(sc)
        stats["corpus"] += 1
    for sc in (extra or []):
        scripts.append(sc)
    g = Gen(ctx.rng, profile, length)
    n = n_quick * 3 if ctx.quick() else n_thorough * 2     # sharded over the cores: still seconds (quick) resp. a minute or two (thorough)
    for _ in range(n):
        scripts.append(g.script())
    if transform:
        scripts = [transform(sc) for sc in scripts]
    drained = {}
    bases = {}
    if drain:
        withep = add_drain(ctx, scripts)
        bases = {id(full): base for base, (full, ok) in zip(scripts, withep)}
        scripts = [sc for sc, _ in withep]
        drained = {id(sc): ok for sc, ok in withep}
        stats["drain_epilogues"] = sum(1 for _, ok in withep if ok)
    res = sess.run_session(ctx, scripts)
    samples = []
    distinct = set()
    for sc, (impl, model) in zip(scripts, res):
        if impl == ["<no output>"]:
            stats["incomplete"] = stats.get("incomplete", 0) + 1      # beyond the time budget: not run, not judged
            continue
        stats["scripts"] += 1
        stats["ops"] += len(sc)
        for op in sc:
            k = op.split()[0]
            hist[k] = hist.get(k, 0) + 1
        tr = parse_trace(impl, sc)
        hits = []
        for mon in monitors:
            hits.extend(mon(tr, sc))
        if drained.get(id(sc)) and not sess.unsupported(model):
            for mon in (drain_monitors or []):
                hits.extend(mon(tr, sc))
        nontrivial = sum(1 for l in impl if l.startswith("ev w ") or l.startswith("ev save")) >= 2
        if nontrivial:
            distinct.add(hash(tuple(sc)))
        # listed findings are reported once (unshrunk) and do not hide anything else the script shows
        ksigs = {x for k in C.known_findings() if k.get("status") == "known" and k["property"] == prop
                 for x in k.get("signatures", [k.get("signature")])}
        for sig, what in hits:
            if "%s:%s" % (prop, sig) in ksigs:
                stats["known_hits"] = stats.get("known_hits", 0) + 1
                v.violation("%s:%s" % (prop, sig), what, {"port": "session", "script": sc})
        if any("%s:%s" % (prop, h[0]) in ksigs for h in hits):
            # the closing drain of such a script fails for the listed reason (e.g. the client cannot connect): same finding
            hits = [h for h in hits if not h[0].startswith("drain:")]
        hits = [h for h in hits if "%s:%s" % (prop, h[0]) not in ksigs]
        if hits:
            stats["monitor_hits"] += 1
            sig, what = hits[0]
            if "%s:%s" % (prop, sig) in [x for x, _, _ in v.violations]:
                continue        # this kind of failure has its (shrunk) replay already
            # shrink while the same monitor signature fires
            is_drain = sig.startswith("drain:")
            def fails(cand):
                if is_drain:
                    full, ok = add_drain(ctx, [cand])[0]
                    if not ok:
                        return False
                    cand = full
                i2, _ = sess.run_session(ctx, [cand], shards=1)[0]
                t2 = parse_trace(i2, cand)
                return any(s == sig for mon in (monitors + (drain_monitors or [])) for s, _ in mon(t2, cand))
            start = bases.get(id(sc), sc) if is_drain else sc
            # the sessions are driven through goroutine states, not through time: what a monitor saw in a batch run on a loaded
            # machine must show again when the script runs alone (twice), or it was an artefact of the quiescence detection
            if not (fails(start) or fails(start)):
                stats["hits_not_reproduced"] = stats.get("hits_not_reproduced", 0) + 1
                continue
            small = shrink(ctx, start, fails) if len(v.violations) < 3 else start
            if is_drain:
                small = add_drain(ctx, [small])[0][0]
            i2, m2 = sess.run_session(ctx, [small], shards=1)[0]
            v.violation("%s:%s" % (prop, sig), what, {"port": "session", "script": small, "impl": i2[-40:], "model": m2[-40:]})
            continue
        if sess.unsupported(model):
            stats["unsupported"] += 1
            continue
        if impl == ["<no output>"] or model == ["<no output>"]:
            stats["incomplete"] = stats.get("incomplete", 0) + 1      # beyond the time budget: not judged
            continue
        pi, pm = project(impl, keep), project(model, keep)
        d = C.first_diff(pi, pm)
        if d:
            stats["diffs"] += 1
            if len(v.broken) < 2:
                def fails2(cand):
                    i2, m2 = sess.run_session(ctx, [cand], shards=1)[0]
                    return (not sess.unsupported(m2)) and C.first_diff(project(i2, keep), project(m2, keep)) is not None
                if not (fails2(sc) or fails2(sc)):
                    # the disagreement does not show when the script runs alone: an artefact of the quiescence detection under load
                    stats["diffs_not_reproduced"] = stats.get("diffs_not_reproduced", 0) + 1
                    stats["diffs"] -= 1
                    continue
                small = shrink(ctx, sc, fails2)
                i2, m2 = sess.run_session(ctx, [small], shards=1)[0]
                d2 = C.first_diff(project(i2, keep), project(m2, keep)) or d
                v.broken_tie("implementation and model disagree (session port): impl `%s` model `%s`" % (d2[1][:100], d2[2][:100]),
                             {"port": "session", "script": small, "impl": i2[-40:], "model": m2[-40:]})
        if len(samples) < 2 and nontrivial:
            samples.append({"script": sc[:12], "impl_tail": impl[-6:]})
    return v, stats, hist, samples, len(distinct)


def finish(ctx, v, stats, hist, samples, ndistinct, rule, assumptions, extra_cov=None):
    ev = max(1, stats["scripts"])
    cov = C.proof_coverage(ctx, {
        "evaluations": ev, "distinct_nontrivial": ndistinct, "rule": rule,
        "samples": samples or [{"note": "no non-trivial sample"}],
        "histogram": dict(stats, ops_by_kind=hist), "traces_validated_against_impl": stats["scripts"] - stats["unsupported"],
    })
    if extra_cov:
        cov.update(extra_cov)
    return v.finish(cov, assumptions)


SESSION_ASSUMPTIONS = [
    "A-conn: net.Conn modelled as scripted chunks / write policies (simconn)",
    "A-store: user Persistence is a map with atomic operations whose failures are no-ops (simstore)",
    "A-bufio: bufio.Reader modelled from the Go 1.23 sources, exercised through the real package on every run",
    "sequential scripts: each operation runs to quiescence (goroutine states) before the next; interleavings inside one operation are the Sync model's subject",
]


def volatile_stage(ctx, module, profile, v, stats, n_quick=120, n_thorough=2000, drain=True):
    """the same kind of histories on VolatileSession (the package's own in-memory Persistence): no persistence events to watch,
    the wire and the calls must be those of the model, and after a fault-free connection nothing may remain pending"""
    vprofile = dict(profile, fault=0, restart=0, damage=0, wrap=0, blocked=0)
    vkeep = lambda l: l.startswith(("ev w ", "rs ", "pub ", "exch", "ret ", "blocked", "ctr "))
    vtransform = lambda sc: [("v" + o if o.startswith("init ") else o) for o in sc if o.split()[0] not in ("sfail", "dfail", "lfail", "store", "damage")]
    vmon = lambda tr, sc: mon_sanity(tr)
    dmon = lambda tr, sc: mon_drained(tr)
    _, vstats, _, _, _ = run_property(ctx, module, vprofile, n_quick, n_thorough, [vmon], vkeep, length=(10, 36), verdict=v, transform=vtransform,
                                      corpus=False, drain=drain, drain_monitors=[dmon] if drain else None)
    stats["volatile_scripts"] = vstats["scripts"]
