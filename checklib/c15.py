"""C15 — stored records round-trip exactly; single-byte damage is always detected."""
from . import common as C

PROP = "C15"
MODULE = "Props.C15"


def gen_packets(ctx):
    r = ctx.rng
    sizes = [0, 1, 2, 5, 11, 12, 13, 127, 128, 300]
    sizes += [5000] if ctx.quick() else [5000, 70000, 200000]
    sizes += [r.randrange(0, 64) for _ in range(20 if ctx.quick() else 200)]
    seqs = [0, 1, 255, 256, 2**32 - 1, 2**32, 2**63, 2**64 - 1]
    out = []
    for i, n in enumerate(sizes):
        p = bytes(r.randrange(256) for _ in range(n))
        s = seqs[i % len(seqs)] if i < 2 * len(seqs) else r.randrange(2**64)
        out.append((p, s, r.randrange(0, n + 1)))
    return out


def run(ctx):
    v = C.Verdict(ctx)
    b = C.build(ctx, [MODULE])
    C.proof_audit(ctx, MODULE)
    stats = {"enc": 0, "dec_roundtrip": 0, "dec_mutated": 0, "dec_truncated": 0, "multi_byte_undetected": 0,
             "multi_byte_tried": 0}
    samples = []
    distinct = set()
    if not b["go_ok"]:
        v.broken_tie("harness does not build against /repo", {"log": b["log"][-2000:]})
        return v.finish(C.proof_coverage(ctx, {"evaluations": 1, "distinct_nontrivial": 0}), [])
    if b["facts_missing"]:
        v.broken_tie("facts no longer located: %s" % b["facts_missing"], {})
    if ctx.audit["problems"]:
        v.broken_tie("proof obligations of %s do not check: %s" % (MODULE, ctx.audit["problems"][:3]), {"audit": ctx.audit})

    pk = gen_packets(ctx)
    # pass 1: encode on both sides (joined and split buffers)
    cases = []
    for p, s, k in pk:
        cases.append(["enc %s %d" % (C.hexs(p), s), "enc %s %d %d" % (C.hexs(p), s, k)])
    impl, model = C.run_cases(ctx, "pure", cases)
    records = []
    for (p, s, k), io, mo, case in zip(pk, impl, model, cases):
        stats["enc"] += 2
        distinct.add(("enc", len(p), s))
        d = C.first_diff(io, mo)
        if d:
            v.violation("C15:enc-diff", "encodeValue differs from the documented layout (packet %d bytes, seq %d): impl %s model %s"
                        % (len(p), s, d[1][:80], d[2][:80]), {"script": case, "impl": io, "model": mo})
        if io and io[0].startswith("enc "):
            rec = bytes.fromhex(io[0][4:]) if io[0][4:] != "-" else b""
            records.append((p, s, rec))
            if len(io) > 1 and io[1] != io[0]:
                v.violation("C15:enc-split", "encodeValue depends on buffer split", {"script": case, "impl": io})
    if len(samples) < 3 and records:
        samples.append({"packet": C.hexs(records[3][0]), "seq": records[3][1], "stored": C.hexs(records[3][2])})

    # pass 1b: a value handed to Persistence.Save stays what was encoded while the next value is being encoded (another goroutine's
    # Save may still be reading it: a publish of the other level, a slow store)
    cases2 = []
    for i in range(0, len(pk) - 1, max(1, len(pk) // 60)):
        (p1, s1, _), (p2, s2, _) = pk[i], pk[i + 1]
        cases2.append(["enc2 %s %d %s %d" % (C.hexs(p1), s1, C.hexs(p2), s2)] * 3)
    impl2, model2 = C.run_cases(ctx, "pure", cases2)
    stats["enc2"] = 0
    for case, io, mo in zip(cases2, impl2, model2):
        stats["enc2"] += len(case)
        if any(l.endswith("stable=false") for l in io):
            v.violation("C15:value-not-stable", "a value handed to Save changed when the next value was encoded: the record under the first key no longer "
                        "round-trips", {"port": "pure", "script": case[:1], "impl": io})
        else:
            d = C.first_diff(io, mo)
            if d:
                v.violation("C15:enc-diff", "encodeValue differs from the documented layout: impl %s model %s" % (d[1][:80], d[2][:80]),
                            {"port": "pure", "script": case[:1], "impl": io, "model": mo})

    # pass 2: decode what the implementation stored; damage; truncate
    r = ctx.rng
    cases, meta = [], []
    budget = 150000 if ctx.quick() else 1500000
    for p, s, rec in records:
        cases.append(["dec " + C.hexs(rec)])
        meta.append(("roundtrip", p, s, rec, None))
        # truncations: every length for small records, sampled for big
        lens = range(len(rec)) if len(rec) <= 40 else sorted({0, 1, 11, 12, len(rec) - 1, len(rec) - 4, len(rec) - 12} |
                                                                 {r.randrange(len(rec)) for _ in range(10)})
        for n in lens:
            cases.append(["dec " + C.hexs(rec[:n])])
            meta.append(("trunc", p, s, rec, n))
    # exhaustive single-byte damage: every position x every other value, on small records;
    # sampled positions (all 255 values) on large ones
    for p, s, rec in records:
        if budget <= 0:
            break
        if len(rec) <= 48:
            poss = range(len(rec))
        else:
            poss = sorted({0, len(p) - 1 if p else 0, len(p), len(p) + 7, len(p) + 8, len(rec) - 1} |
                          {r.randrange(len(rec)) for _ in range(6)})
        if len(rec) > 1000 and ctx.quick():
            poss = list(poss)[:3]
        for i in poss:
            vals = range(256) if len(rec) <= 1000 else [rec[i] ^ 1, rec[i] ^ 0x80, (rec[i] + 1) % 256]
            lines = []
            for x in vals:
                if x == rec[i]:
                    continue
                m = bytearray(rec)
                m[i] = x
                lines.append("dec " + bytes(m).hex())
            cases.append(lines)
            meta.append(("mut", p, s, rec, i))
            budget -= len(lines)
    # multi-byte damage is measured, not claimed
    for p, s, rec in records[:10]:
        lines = []
        for _ in range(200 if ctx.quick() else 2000):
            m = bytearray(rec)
            for _ in range(r.choice([2, 3])):
                j = r.randrange(len(m))
                m[j] = r.randrange(256)
            if bytes(m) != rec:
                lines.append("dec " + bytes(m).hex())
        cases.append(lines)
        meta.append(("multi", p, s, rec, None))

    # the integrity layer in front of the user's Persistence: a present record of any length is checked, only an absent one is nil
    for p, s, rec in records[:12]:
        cases.append(["rload 0 -", "rload 1 " + C.hexs(rec)] + ["rload 1 " + (C.hexs(rec[:n]) if n else "-") for n in range(min(len(rec), 14))])
        meta.append(("rload", p, s, rec, None))

    impl, model = C.run_cases(ctx, "pure", cases)
    for (kind, p, s, rec, arg), io, mo, case in zip(meta, impl, model, cases):
        d = C.first_diff(io, mo)
        if kind == "roundtrip":
            stats["dec_roundtrip"] += 1
            want = "dec ok %s %d" % (C.hexs(p), s)
            if io != [want]:
                v.violation("C15:roundtrip", "stored value does not round-trip (packet %d bytes, seq %d): got %s" % (len(p), s, io[:1]),
                            {"script": case, "impl": io, "want": want})
        elif kind == "trunc":
            stats["dec_truncated"] += 1
            if arg < 12 and io != ["dec err"]:
                v.violation("C15:short", "value of %d bytes (< 12) not rejected: %s" % (arg, io[:1]), {"script": case, "impl": io})
            elif d:
                v.broken_tie("decodeValue differs from model on a truncated value (len %d): impl %s model %s" % (arg, d[1], d[2]),
                             {"script": case[:3], "impl": io[:3], "model": mo[:3]})
        elif kind == "mut":
            stats["dec_mutated"] += len(case)
            distinct.add(("mut", len(rec), arg))
            bad = [(c, o) for c, o in zip(case, io) if o != "dec err"]
            if bad or len(io) != len(case):
                c0, o0 = bad[0] if bad else (case[0], "<missing>")
                v.violation("C15:single-byte", "single-byte damage at position %d of a %d-byte record not detected: %s -> %s"
                            % (arg, len(rec), c0[:100], o0[:60]), {"script": [c0], "impl": [o0], "original": rec.hex()})
        elif kind == "rload":
            stats["rload"] = stats.get("rload", 0) + len(case)
            want = ["rload absent", "rload ok " + C.hexs(p)] + ["rload err"] * (len(case) - 2)
            if io != want:
                k = [j for j in range(len(want)) if j >= len(io) or io[j] != want[j]][0]
                v.violation("C15:load-layer", "Load through the integrity layer: `%s` gives `%s`, want `%s`" % (case[k][:80], io[k] if k < len(io) else "<missing>", want[k][:60]),
                            {"script": [case[k]], "impl": io[k:k + 1], "want": want[k]})
            elif d:
                v.broken_tie("ruggedPersistence.Load differs from model: impl %s model %s" % (d[1], d[2]), {"script": case, "impl": io, "model": mo})
        elif kind == "multi":
            stats["multi_byte_tried"] += len(case)
            stats["multi_byte_undetected"] += sum(1 for o in io if o != "dec err")
            if d:
                v.broken_tie("decodeValue differs from model on multi-byte damage: impl %s model %s" % (d[1], d[2]),
                             {"script": [case[d[0]]], "impl": [d[1]], "model": [d[2]]})
    # the records in use by a session: what the client stored stays intact while it resends from it (also with a Persistence
    # that hands out its own memory), and a record that was damaged is never used - it is reported at AdoptSession, or where
    # the client first needs it
    from . import sess, sesscheck as SC
    from .c16 import mon_damage
    r = ctx.rng
    sscripts = []
    for k in range(6 if ctx.quick() else 60):
        alias = ["alias"] if k % 2 == 0 else []
        sc = alias + ["init 636c69 0 4 4", "dial ok 20020000", "feed block", "rs", "pal 0 61 31", "peo 0 62 32", "store",
                      "feed eof", "rs", "dial ok 20020000", "feed 5002c000 eof", "rs", "rs", "store",
                      "dial ok 20020000", "feed block", "rs", "store"]
        sscripts.append(sc)
        off, val = r.randrange(0, 15), r.randrange(1, 256)
        sscripts.append(["init 636c69 0 4 4", "damage alter 0 %d %d" % (off, val), "store", "dial ok 20020000", "feed block", "rs", "rs"])
        sscripts.append(["init 636c69 0 4 4", "dial ok 20020000", "feed 34050001780009 block", "rs", "rs", "store",
                         "damage alter 10009 %d %d" % (off % 12, val), "store", "adopt 0 4 4", "dial ok 20020100", "feed 3c050001780009 block", "rs", "rs"])
    stats["session_scripts"] = len(sscripts)
    for sc, (io, mo) in zip(sscripts, sess.run_session(ctx, sscripts)):
        tr = SC.parse_trace(io, sc)
        damaged, hits = set(), []
        for i, (op, lines) in enumerate(tr):
            f = op.split()
            if f and f[0] == "damage":
                damaged.add(int(f[2], 16))
            for l in lines:
                if l.startswith("store"):
                    for ent in l.split()[1:]:
                        kk, vv, _ = ent.split(":")
                        if vv == "corrupt" and int(kk, 16) not in damaged:
                            hits.append(("record-changed", "record %s fails its integrity check although nothing damaged it: the client modified what it had stored (op %d `%s`)" % (kk, i, op[:30])))
                        if vv == "corrupt":
                            damaged.add(int(kk, 16))
                if l.startswith("ev w ") and l.split()[3].startswith("10") and 0 in damaged and any(
                        x.startswith("store") and " 0:corrupt:" in x + " " for _, ls in tr[:i] for x in ls):
                    hits.append(("damaged-record-used", "the client identifier record fails its integrity check, yet the client connects: %s" % l[:80]))
        hits += [h for h in mon_damage(tr, sc) if h[0].startswith("unreported") and not h[0].endswith("clientid")]
        for sig, what in hits[:1]:
            v.violation("C15:" + sig, what, {"port": "session", "script": sc, "impl": io[-14:]})
        if not hits and not sess.unsupported(mo):
            d = C.first_diff(io, mo)
            if d:
                v.broken_tie("implementation and model disagree (session port): impl `%s` model `%s`" % (d[1][:100], d[2][:100]),
                             {"port": "session", "script": sc, "impl": io[-14:], "model": mo[-14:]})
    samples.append({"mutated_decode": cases[len(records)][0][:80] if len(cases) > len(records) else ""})
    ev = sum(stats[k] for k in ("enc", "dec_roundtrip", "dec_mutated", "dec_truncated", "multi_byte_tried"))
    cov = C.proof_coverage(ctx, {
        "evaluations": ev, "distinct_nontrivial": len(distinct),
        "rule": "records from random packets of boundary sizes x boundary sequence numbers; distinct = (record length, damaged position) "
                "pairs with all 255 other byte values tried, plus distinct (length, seq) encodings; non-trivial = record decodes before damage",
        "samples": samples, "histogram": stats, "traces_validated_against_impl": ev,
        "explanation": "theorems C15_roundtrip / C15_single_byte_detected / C15_short_rejected / C15_layout over the Lean model; "
                       "model tied to mqtt.go by regenerated facts (hash constructor, byte orders, minimum length) and by running "
                       "encodeValue/decodeValue of the real package and the model on the same inputs",
    })
    return v.finish(cov, ["hash/fnv New32a is FNV-1a (compared against the model on every run)",
                          "multi-byte damage is measured only: %d of %d undetected" % (stats["multi_byte_undetected"], stats["multi_byte_tried"])])
