"""C05 — publishes and resends keep acceptance order; DUP marks only re-deliveries."""
from . import sesscheck as SC, mq

MODULE = "Props.C05"
PROFILE = {"wrap": 0.15, "publish": 25, "ack": 8, "inbound": 1, "connect": 12, "fault": 8, "restart": 2, "call": 2, "response": 1,
           "hostile": 0.3, "close": 0.2, "bigbuf": 0.05}


def keep(l):
    return l.startswith(("ev w ", "exchclose", "pub ", "ev save"))


def run(ctx):
    want = ("outbound:order", "outbound:dup-on-first", "outbound:no-dup-on-resend", "outbound:publish-not-stored")
    mon = lambda tr, sc: SC.mon_sanity(tr) + [h for h in SC.mon_outbound(tr) if h[0] in want]
    v, stats, hist, samples, nd = SC.run_property(ctx, MODULE, PROFILE, 250, 4000, [mon], keep, length=(10, 36))
    # the same histories on VolatileSession (the package's own in-memory store): no persistence events, the wire must be the same
    vprofile = dict(PROFILE, fault=0, restart=0, damage=0, wrap=0, blocked=0)
    vkeep = lambda l: l.startswith(("ev w ", "rs ", "pub ", "exch", "ret ", "blocked"))
    vtransform = lambda sc: [("v" + o if o.startswith("init ") else o) for o in sc if o.split()[0] not in ("sfail", "dfail", "lfail", "store", "damage")]
    vmon = lambda tr, sc: SC.mon_sanity(tr)
    _, vstats, _, _, _ = SC.run_property(ctx, MODULE, vprofile, 120, 2000, [vmon], vkeep, length=(10, 36), verdict=v, transform=vtransform, corpus=False)
    stats["volatile_scripts"] = vstats["scripts"]
    return SC.finish(ctx, v, stats, hist, samples, nd,
                     "sequential publishers with in-flight windows 1..max, partial first writes (so that 'written' differs from 'written "
                     "completely'), reconnects and restarts; wire order and DUP flags judged on the implementation's bytes",
                     SC.SESSION_ASSUMPTIONS + ["concurrent publishers: sequence-token exclusion is the Sync model's subject"])
