"""C05 — publishes and resends keep acceptance order; DUP marks only re-deliveries."""
from . import sesscheck as SC, mq

MODULE = "Props.C05"
PROFILE = {"wrap": 0.15, "publish": 25, "ack": 8, "inbound": 1, "connect": 12, "fault": 8, "restart": 2, "call": 2, "response": 1,
           "hostile": 0.3, "close": 0.2, "bigbuf": 0.05}


def keep(l):
    return l.startswith(("ev w ", "exchclose", "pub ", "ev save"))


def mon_pubrel_order(tr, sc):
    """PUBRELs go out in the order of the PUBRECs: judged on the wire alone (no persistence events needed, so it also serves
    VolatileSession): within the retransmission after a CONNECT no identifier is released twice, only identifiers whose
    PUBREC was sent by the broker are released, and their relative order is that of the PUBRECs"""
    out = []
    w = SC.Wire()
    rec_order = []          # identifiers in the order their PUBREC was fed
    released = []           # identifiers whose PUBREL was on the wire completely, no PUBCOMP fed since
    inbuf = b""
    for i, (op, lines) in enumerate(tr):
        f = op.split()
        if f and f[0] in ("feed", "dial"):
            for a in (f[1:] if f[0] == "feed" else f[2:3]):
                if a in ("tmo", "err", "eof", "block", "-"):
                    continue
                try:
                    inbuf += SC.unhex(a)
                except Exception:
                    continue
                # acknowledgements are found wherever they start in what the broker sent (the handshake reply precedes them)
                fr, k = [], 0
                while k + 4 <= len(inbuf):
                    if inbuf[k] in (0x50, 0x70) and inbuf[k + 1] == 2:
                        fr.append(inbuf[k:k + 4])
                        k += 4
                    else:
                        k += 1
                inbuf = inbuf[k:] if k < len(inbuf) and inbuf[-1:] != b"" and len(inbuf) - k < 4 else b""
                for pk in fr:
                    if pk[0] == 0x50 and len(pk) == 4:
                        pid = (pk[2] << 8) | pk[3]
                        if pid not in rec_order:
                            rec_order.append(pid)
                    elif pk[0] == 0x70 and len(pk) == 4:
                        pid = (pk[2] << 8) | pk[3]
                        if pid in rec_order:
                            rec_order.remove(pid)
                        if pid in released:
                            released.remove(pid)
        if f and f[0] in ("init", "vinit"):
            rec_order, released = [], []
        if f and f[0] == "damage":
            released = []       # records may be gone: nothing is concluded about what must be retransmitted
        for l in lines:
            p = l.split()
            if l.startswith("ev w ") and p[3].startswith("10"):
                burst = [d for d in w.add(i, p[2], SC.unhex(p[3])) if d["name"] == "pubrel"]
                ids = [d["id"] for d in burst]
                raw = SC.unhex(p[3])
                trailing = len(raw) > 2 + raw[1] if len(raw) > 1 and raw[1] < 0x80 else True
                established = any(x.split()[:2] in (["rs", "parked"], ["rs", "msg"], ["rs", "big"]) for x in lines[lines.index(l):])
                if not established:
                    continue        # the handshake failed: nothing is retransmitted on this connection
                # (an identifier may show twice: the PUBREL whose write failed is flushed again after the retransmission)
                ids = [x for j, x in enumerate(ids) if x not in ids[:j]]
                known = [x for x in ids if x in rec_order]
                if known != [x for x in rec_order if x in known]:
                    out.append(("pubrel:order", "PUBRELs retransmitted as %s, the PUBRECs came as %s" % (["%04x" % x for x in known], ["%04x" % x for x in rec_order])))
            elif l.startswith("ev w "):
                for d in w.add(i, p[2], SC.unhex(p[3])):
                    if d["name"] == "pubrel" and d["id"] not in released:
                        released.append(d["id"])
    return out


def run(ctx):
    want = ("outbound:order", "outbound:dup-on-first", "outbound:no-dup-on-resend", "outbound:publish-not-stored")
    mon = lambda tr, sc: SC.mon_sanity(tr) + [h for h in SC.mon_outbound(tr) if h[0] in want] + mon_pubrel_order(tr, sc)
    v, stats, hist, samples, nd = SC.run_property(ctx, MODULE, PROFILE, 250, 4000, [mon], keep, length=(10, 36))
    # the same histories on VolatileSession (the package's own in-memory store): no persistence events, the wire must be the same
    vprofile = dict(PROFILE, fault=0, restart=0, damage=0, wrap=0, blocked=0)
    vkeep = lambda l: l.startswith(("ev w ", "rs ", "pub ", "exch", "ret ", "blocked"))
    vtransform = lambda sc: [("v" + o if o.startswith("init ") else o) for o in sc if o.split()[0] not in ("sfail", "dfail", "lfail", "store", "damage")]
    vmon = lambda tr, sc: SC.mon_sanity(tr) + mon_pubrel_order(tr, sc)
    _, vstats, _, _, _ = SC.run_property(ctx, MODULE, vprofile, 120, 2000, [vmon], vkeep, length=(10, 36), verdict=v, transform=vtransform, corpus=False)
    stats["volatile_scripts"] = vstats["scripts"]
    return SC.finish(ctx, v, stats, hist, samples, nd,
                     "sequential publishers with in-flight windows 1..max, partial first writes (so that 'written' differs from 'written "
                     "completely'), reconnects and restarts; wire order and DUP flags judged on the implementation's bytes",
                     SC.SESSION_ASSUMPTIONS + ["concurrent publishers: sequence-token exclusion is the Sync model's subject"])
