"""C05 — publishes and resends keep acceptance order; DUP marks only re-deliveries."""
from . import sesscheck as SC

MODULE = "Props.C05"
PROFILE = {"wrap": 0.15, "publish": 25, "ack": 8, "inbound": 1, "connect": 12, "fault": 8, "restart": 2, "call": 2, "response": 1,
           "hostile": 0.3, "close": 0.2, "bigbuf": 0.05}


def keep(l):
    return l.startswith(("ev w ", "exchclose", "pub ", "ev save"))


def run(ctx):
    want = ("outbound:order", "outbound:dup-on-first", "outbound:no-dup-on-resend", "outbound:publish-not-stored")
    mon = lambda tr, sc: SC.mon_sanity(tr) + [h for h in SC.mon_outbound(tr) if h[0] in want]
    v, stats, hist, samples, nd = SC.run_property(ctx, MODULE, PROFILE, 250, 4000, [mon], keep, length=(10, 36))
    return SC.finish(ctx, v, stats, hist, samples, nd,
                     "sequential publishers with in-flight windows 1..max, partial first writes (so that 'written' differs from 'written "
                     "completely'), reconnects and restarts; wire order and DUP flags judged on the implementation's bytes",
                     SC.SESSION_ASSUMPTIONS + ["concurrent publishers: sequence-token exclusion is the Sync model's subject"])
