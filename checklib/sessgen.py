"""Generator of operation scripts for the sequential session port.
All random choices come from the rng handed in (derived from VERIF_SEED)."""
from . import mq

H = lambda b: b.hex() if b else "-"

DEFAULT_PROFILE = {
    "publish": 10, "ack": 10, "inbound": 8, "connect": 5, "fault": 3, "restart": 2, "call": 5, "response": 5,
    "hostile": 1, "close": 0.5, "damage": 0, "bigbuf": 0.3, "wrap": 0, "blocked": 0,
}


class Gen:
    def __init__(self, rng, profile=None, length=(8, 30)):
        self.r = rng
        self.p = dict(DEFAULT_PROFILE)
        if profile:
            self.p.update(profile)
        self.length = length

    # ---- helpers -----------------------------------------------------------
    def topic(self):
        r = self.r
        return bytes(r.choice(b"abcxyz/") for _ in range(r.choice([1, 1, 2, 3, 5, 9])))

    def payload(self, big_ok=True):
        r = self.r
        n = r.choice([0, 1, 2, 3, 5, 20] + ([70, 150, 300] if big_ok else []))
        return bytes(r.randrange(256) for _ in range(n))

    def new_script(self):
        r = self.r
        self.ops = []
        self.bufsize = None
        if r.random() < self.p["bigbuf"]:
            self.bufsize = r.choice([64, 64, 256])
            self.ops.append("bufsize %d" % self.bufsize)
        self.m1 = r.choice([0, 1, 2, 3, 4, 8, 8, 8, -1, 16384, 20000])
        self.m2 = r.choice([0, 1, 2, 3, 4, 8, 8, 8, -1])
        self.clean = r.choice([0, 0, 1])
        if r.random() < self.p.get("rwait", 0.15):
            # ReconnectWaitMin/Max as the application may leave or set them: defaults (zero), negative, maximum below the minimum
            self.ops.append("rwait %d %d" % r.choice([(0, 0), (0, 0), (-1, 0), (0, 500000000), (5000000000, 1000000000), (2000000000, 2000000000),
                                                     (1000000, 10000000000), (-5, -5)]))
        if r.random() < self.p.get("cfgx", 0.25):
            # the rest of the Config: user name, password (also without a user name), will, keep-alive
            user = r.choice([b"", b"", b"u", b"user", b"u" * 300])
            pw = r.choice([None, None, b"", b"pw", bytes(range(40)), bytes(range(256)) + b"xy"])
            wm = r.choice([None, None, b"", b"bye", b"w" * 256, bytes(range(256)) * 2])
            wq = r.choice([(0, 0), (1, 0), (0, 1)])
            self.ops.append("cfgx %d %s %s %s %s %d %d %d" % (r.choice([0, 30, 65535]), H(user), "nil" if pw is None else H(pw),
                                                             H(b"w/t") if wm is not None or r.random() < 0.3 else "-", "nil" if wm is None else H(wm),
                                                             r.choice([0, 1]), wq[0], wq[1]))
        self.ops.append("init %s %d %d %d" % (H(b"cl" + bytes([r.randrange(97, 123)])), self.clean, self.m1, self.m2))
        self.reset_client_state()
        self.acc1 = self.acc2 = 0
        self.out1, self.out2 = [], []     # pending ids, level 2 as [id, stage]
        self.markers = set()
        self.closed = False
        self.ntag = 0

    def reset_client_state(self):
        self.link = "pending"     # pending | down | live
        self.parked = False
        self.doomed = False       # inbound stream of the live conn ended with an error marker
        self.owed = False         # pendingAck likely set
        self.txn = 0
        self.subs = []            # [tag, id, nfilters]
        self.unsubs = []          # [tag, id]
        self.ping = None
        self.waiter = None
        self.reader_out = False   # a ReadSlices call is outstanding (parked)

    def cap(self, m):
        return 16384 if (m < 0 or m > 16383) else m

    def emit(self, *ops):
        self.ops.extend(ops)

    # ---- actions -------------------------------------------------------------
    def connect(self):
        r = self.r
        if self.closed:
            return
        if self.link == "live" and not self.doomed and r.random() < 0.8:
            return
        if self.waiter and self.owed:
            return
        kind = r.choices(["ok", "ok", "ok", "ok", "sp", "fail", "refuse", "bad", "short", "wfail"], k=1)[0]
        if self.link == "live":
            # kill the current connection first
            self.emit("feed eof")
        if kind == "ok" or kind == "sp":
            ca = mq.connack(1 if kind == "sp" else 0, 0)
            pol = ""
            if r.random() < 0.2 and not self.waiter and not self.owed:
                # the CONNACK comes in one segment with what follows it: a whole packet, or the first bytes of one
                nxt = mq.publish(0, self.topic(), self.payload(False))
                cut = r.choice([len(nxt), len(nxt), r.randrange(1, len(nxt))])
                self.emit("dial ok %s" % H(ca + nxt[:cut]), "feed %sblock" % ((H(nxt[cut:]) + " ") if cut < len(nxt) else ""), "rs")
                self.emit("rs")
            else:
                self.emit("dial ok %s%s" % (H(ca), pol), "feed block", "rs")
            if kind == "sp" and self.clean and not getattr(self, "had_conn", False):
                self.link = "down"
            else:
                self.link, self.parked, self.doomed, self.reader_out = "live", True, False, True
                self.had_conn = True
                self.owed = False
                self.waiter = None
        elif kind == "fail":
            self.emit("dial fail", "rs")
            self.link, self.parked, self.reader_out = "down", False, False
            self.waiter = None
        elif kind == "refuse":
            self.emit("dial ok %s" % H(mq.connack(0, r.choice([1, 2, 3, 4, 5, 6, 255]))), "rs")
            self.link, self.parked, self.reader_out = "down", False, False
            self.waiter = None
        elif kind == "bad":
            bad = r.choice([bytes([0x20, 2, 2, 0]), bytes([0x20, 3, 0, 0]), bytes([0x30, 2, 0, 0]), bytes([0x20, 2, 0x80, 0]),
                            bytes([0x20, 2, 1, 1]), bytes([0x21, 2, 0, 0])])
            self.emit("dial ok %s" % H(bad), "rs")
            self.link, self.parked, self.reader_out = "down", False, False
            self.waiter = None
        elif kind == "short":
            n = r.randrange(0, 4)
            tail = r.choice(["eof", "tmo", "err"])
            self.emit("dial ok %s" % H(mq.connack(0, 0)[:n]), "feed %s" % tail, "rs")
            self.link, self.parked, self.reader_out = "down", False, False
            self.waiter = None
        else:
            pol = r.choice(["t0", "e3", "c0", "t5,e2", "t4,t0", "o,e0", "o,t0", "o,c0", "o,e2", "o,o,e0", "o,o,t3", "o,t1,t0"])
            self.emit("dial ok %s %s" % (H(mq.connack(0, 0)), pol), "feed block", "rs")
            if pol.startswith("o") and (self.out1 or self.out2 or r.random() < 0.5):
                # the CONNECT goes out; what follows depends on whether a resend hits the failing write: ask the client
                self.emit("rs")
                if r.random() < 0.6:
                    self.ntag += 1
                    self.emit("call t%d %s" % (self.ntag, r.choice(["ping", "pub 0 74 6869", "sub 1 61"])))
                    self.emit("quit t%d" % self.ntag)
                self.emit("brk")
            self.link, self.parked, self.reader_out = "down", False, False
            self.waiter = None
        self.subs, self.unsubs, self.ping = [], [], None   # toOffline breaks them (approximation)
        if self.link == "down" and r.random() < self.p.get("backoff", 0.3):
            self.emit("backoff")

    def publish(self):
        r = self.r
        if self.closed and r.random() < 0.7:
            return
        lvl = r.choice([1, 1, 2, 2])
        op = "pal" if lvl == 1 else "peo"
        t = self.topic()
        if r.random() < 0.06:
            t = r.choice([b"", b"\x00", b"\xff\xfe", b"a\x00b"])
        msg = self.payload()
        if r.random() < 0.1:
            self.emit(r.choice(["sfail", "sfail", "wpol t0", "wpol t3", "wpol e1", "wpol c0", "wpol t2,t0", "wpol t1,t1,t1"]))
        faulty = bool(self.ops) and self.ops[-1].startswith("wpol") and self.ops[-1] != "wpol o"
        self.emit("%s %d %s %s" % (op, r.random() < 0.2, H(t), H(msg)))
        if faulty and self.link == "live":
            self.after_write_fault()
        # approximate bookkeeping (faults and denials make it drift; that is fine)
        if lvl == 1 and len(self.out1) < self.cap(self.m1):
            self.out1.append(0x8000 | (self.acc1 & 0x3fff))
            self.acc1 += 1
        elif lvl == 2 and len(self.out2) < self.cap(self.m2):
            self.out2.append([0xc000 | (self.acc2 & 0x3fff), 0])
            self.acc2 += 1

    def feed_and_read(self, pkts, tail="block"):
        """feeds packets to the live connection; the reader handles them"""
        chunks = []
        r = self.r
        data = b"".join(pkts)
        if len(pkts) > 1 and r.random() < 0.3:
            chunks = [H(data)]          # coalesced
        elif r.random() < 0.15 and len(data) > 1:
            k = r.randrange(1, len(data))   # split anywhere
            chunks = [H(data[:k]), H(data[k:])]
            if r.random() < 0.3:
                chunks.insert(1, "tmo")
        else:
            chunks = [H(p) for p in pkts]
        self.emit("feed " + " ".join(chunks + [tail]))
        if not self.reader_out:
            self.emit("rs")
            self.reader_out = True
        if tail != "block":
            self.doomed = True

    def ensure_live(self):
        if self.link != "live" or self.doomed:
            self.connect()
        return self.link == "live" and not self.doomed

    def ack(self):
        r = self.r
        if self.closed or not self.ensure_live():
            return
        pkts = []
        n = r.choice([1, 1, 1, 2, 3])
        for _ in range(n):
            roll = r.random()
            if roll < 0.45 and self.out1:
                pid = self.out1.pop(0)
                pkts.append(mq.ack("puback", pid))
            elif roll < 0.9 and self.out2:
                e = self.out2[0]
                if e[1] == 0:
                    pkts.append(mq.ack("pubrec", e[0]))
                    e[1] = 1
                    if r.random() < 0.5:
                        continue
                if self.out2 and self.out2[0][1] == 1 and r.random() < 0.8:
                    pkts.append(mq.ack("pubcomp", self.out2.pop(0)[0]))
            elif roll > 0.93:
                # acknowledgement the protocol does not allow here
                kind = r.choice(["puback", "pubrec", "pubcomp"])
                pid = r.choice([0, 0x8000, 0x8001, 0xc000, 0xc001, 0x8005, 0xc005, 0x4000, 0x6000, 0x0001, 0xbfff, 0xffff])
                pkts.append(mq.ack(kind, pid))
                self.feed_and_read(pkts)
                self.link, self.doomed, self.parked, self.reader_out = "pending", False, False, False
                return
        if pkts:
            if r.random() < 0.12 and self.link == "live":
                # the write the read routine makes in response (PUBREL) fails: the connection is lost in between
                self.emit("wpol " + r.choice(["e0", "t0", "c0", "e1", "t2,t0"]))
                self.feed_and_read(pkts)
                self.emit("rs")
                self.link, self.parked, self.reader_out, self.doomed = "pending", False, False, False
                self.subs, self.unsubs, self.ping = [], [], None
                self.owed = False
                return
            self.feed_and_read(pkts)

    def inbound(self):
        r = self.r
        if self.closed or not self.ensure_live():
            return
        pkts = []
        qos = r.choice([0, 1, 1, 2, 2, 2])
        pid = r.choice([1, 2, 3, 9, 0x1234, 0xffff])
        topic, payload = self.topic(), self.payload(big_ok=self.bufsize is not None)
        roll = r.random()
        if roll < 0.2 and self.markers:
            # broker retransmits an exactly-once message, or ends a cycle
            m = r.choice(sorted(self.markers))
            if r.random() < 0.5:
                pkts.append(mq.publish(2, topic, payload, m, dup=True))
            else:
                pkts.append(mq.ack("pubrel", m))
                self.markers.discard(m)
        elif roll < 0.3:
            pkts.append(mq.ack("pubrel", pid))      # PUBREL for an unknown identifier
        if r.random() < 0.85:
            pkts.append(mq.publish(qos, topic, payload, pid if qos else 0, retain=r.random() < 0.2))
        if not pkts:
            return
        # control packets before the publish are handled inside the same call
        if r.random() < 0.2:
            pkts.insert(0, mq.PINGRESP)
        # the reader returns the publish; a parked reader returns from the outstanding call
        self.feed_and_read(pkts, tail=r.choice(["block"] * 8 + ["eof", "err"]))
        self.reader_out = False
        self.parked = False
        if qos:
            self.owed = True
        if self.bufsize and len(payload) + len(topic) + 4 > self.bufsize and r.random() < 0.6:
            self.emit("readall")
        # application takes ownership with the next call
        if qos and not self.doomed and not self.waiter and r.random() < 0.12 and pkts and pkts[-1][0] >> 4 == 3:
            # the acknowledgement cannot be written (the connection broke meanwhile): it is owed to the broker on the next connection
            self.emit("wpol " + r.choice(["e0", "t0", "c0", "e1"]), "rs")
            self.link, self.parked, self.reader_out, self.doomed = "pending", False, False, False
            self.subs, self.unsubs, self.ping = [], [], None
            if r.random() < 0.8:
                self.emit("dial ok %s" % H(mq.connack(0, 0)), "feed block", "rs", "rs")
                self.link, self.parked, self.reader_out = "live", True, True
                self.had_conn = True
                self.owed = False
                if qos == 2:
                    self.markers.add(pid)
            return
        if r.random() < 0.85 and not self.doomed:
            if self.waiter:
                return
            self.emit("rs")
            self.reader_out = True
            self.owed = False
            if qos == 2:
                self.markers.add(pid)
        elif self.doomed:
            self.emit("rs")
            self.link, self.doomed = "pending", False
            self.subs, self.unsubs, self.ping = [], [], None

    def fault(self):
        r = self.r
        if self.closed:
            return
        k = r.choice(["dfail", "lfail", "wpol", "feederr", "sfail"])
        if k == "wpol":
            self.emit("wpol " + r.choice(["t0", "t1", "e0", "e2", "c0", "t3,t0", "o,t0", "o,o,e1"]))
        elif k == "feederr":
            if self.link == "live" and not self.doomed and not self.waiter:
                self.emit("feed " + r.choice(["err", "eof", "tmo"]))
                if not self.reader_out:
                    self.emit("rs")
                self.link, self.parked, self.reader_out, self.doomed = "pending", False, False, False
                self.subs, self.unsubs, self.ping = [], [], None
        else:
            self.emit(k)

    def restart(self):
        r = self.r
        self.emit("store")
        if r.random() < 0.25:
            self.m1 = r.choice([self.m1, 8, -1, 16384, 1, 2])
            self.m2 = r.choice([self.m2, 8, -1, 1, 2])
        self.emit("adopt %d %d %d" % (self.clean, self.m1, self.m2), "counters")
        self.reset_client_state()
        self.closed = False
        self.had_conn = False
        # accepted sequence numbers continue; the generator keeps its approximation

    def call(self):
        r = self.r
        if self.closed and r.random() < 0.6:
            return
        if self.link == "pending" and (self.waiter or self.owed):
            return
        self.ntag += 1
        tag = "t%d" % self.ntag
        kind = r.choice(["sub", "sub", "unsub", "ping", "pub", "pub"])
        if r.random() < 0.12 and self.link == "live":
            self.emit("wpol " + r.choice(["t0", "e1", "c0", "t2,e0"]))
            will_fail = True
        else:
            will_fail = False
        if kind in ("sub", "unsub") and self.link in ("live", "pending") and r.random() < self.p.get("txwrap", 0.12):
            # the identifier counter comes round to one that is still in flight (a response 8192 requests late)
            busy = [e[1] for e in (self.subs if kind == "sub" else self.unsubs)]
            if busy:
                self.txn = (r.choice(busy) & 0x1fff) - r.choice([0, 0, 1])
                self.txn %= 0x2000
                self.emit("txn %d" % self.txn)
            elif r.random() < 0.3:
                self.txn = 0x2000 - r.choice([1, 2])
                self.emit("txn %d" % self.txn)
        if kind == "sub":
            n = r.choice([1, 1, 2, 3])
            fs = [self.topic() + r.choice([b"", b"/#", b"/+"]) for _ in range(n)]
            if r.random() < 0.06:
                fs = r.choice([[], [b""], [b"a", b"\xff"]])
            self.emit("call %s sub %d %s" % (tag, r.choice([0, 1, 2]), ",".join(H(f) for f in fs) if fs else "none"))
            if fs and all(fs) and b"\xff" not in fs:
                while (0x6000 | (self.txn & 0x1fff)) in [e[1] for e in self.subs]:
                    self.txn += 1
                pid = 0x6000 | (self.txn & 0x1fff)
                self.txn += 1
                if self.link == "live" and not will_fail:
                    self.subs.append([tag, pid, len(fs)])
                elif self.link == "pending":
                    self.waiter = tag
                    self.subs.append([tag, pid, len(fs)])
        elif kind == "unsub":
            fs = [self.topic() for _ in range(r.choice([1, 2]))]
            self.emit("call %s unsub %s" % (tag, ",".join(H(f) for f in fs)))
            while (0x4000 | (self.txn & 0x1fff)) in [e[1] for e in self.unsubs]:
                self.txn += 1
            pid = 0x4000 | (self.txn & 0x1fff)
            self.txn += 1
            if self.link == "live" and not will_fail:
                self.unsubs.append([tag, pid])
            elif self.link == "pending":
                self.waiter = tag
                self.unsubs.append([tag, pid])
        elif kind == "ping":
            self.emit("call %s ping" % tag)
            if self.ping is None:
                if self.link == "live" and not will_fail:
                    self.ping = tag
                elif self.link == "pending":
                    self.waiter = tag
                    self.ping = tag
        else:
            t = self.topic()
            if r.random() < 0.08:
                t = r.choice([b"", b"\x00"])
            self.emit("call %s pub %d %s %s" % (tag, r.random() < 0.2, H(t), H(self.payload())))
            if self.link == "pending" and t not in (b"", b"\x00"):
                self.waiter = tag
        if will_fail and self.link == "live":
            self.after_write_fault()
        if self.waiter and r.random() < 0.3:
            self.emit("quit %s" % self.waiter)
            self.drop_tag(self.waiter)
            self.waiter = None

    def after_write_fault(self):
        """a failed write closed the connection: a parked reader reconnects by itself,
        otherwise let the read routine notice (else later requests busy-wait in lockWrite)"""
        if not self.reader_out:
            self.emit("rs")
        self.link, self.parked, self.reader_out, self.doomed = "pending", False, False, False
        self.subs, self.unsubs, self.ping = [], [], None
        self.owed = False

    def drop_tag(self, tag):
        self.subs = [s for s in self.subs if s[0] != tag]
        self.unsubs = [s for s in self.unsubs if s[0] != tag]
        if self.ping == tag:
            self.ping = None

    def response(self):
        r = self.r
        if self.closed:
            return
        if not (self.subs or self.unsubs or self.ping):
            return
        if self.link != "live" or self.doomed:
            return
        roll = r.random()
        pkts = []
        if self.subs and roll < 0.5:
            tag, pid, n = self.subs.pop(r.randrange(len(self.subs)))
            codes = [r.choice([0, 1, 2, 2, 0x80]) for _ in range(n)]
            m = r.random()
            if m < 0.08:
                codes = codes + [0]          # count mismatch
            elif m < 0.12:
                codes[0] = 3                 # illegal code
            elif m < 0.16:
                pid ^= 0x0800                # unknown identifier
            elif m < 0.22:
                # an UNSUBACK carrying the identifier of this pending SUBSCRIBE: not an answer to it
                self.subs.append([tag, pid, n])
                self.feed_and_read([mq.ack("unsuback", pid)])
                self.link, self.parked, self.reader_out = "pending", False, False
                self.subs, self.unsubs, self.ping = [], [], None
                return
            pkts.append(mq.suback(pid, codes))
            if 0.08 <= m < 0.12 or m < 0.08:
                self.feed_and_read(pkts)
                self.link, self.parked, self.reader_out = "pending", False, False
                self.subs, self.unsubs, self.ping = [], [], None
                return
        elif self.unsubs and roll < 0.8:
            tag, pid = self.unsubs.pop(0)
            if r.random() < 0.08:
                # a SUBACK carrying the identifier of this pending UNSUBSCRIBE
                self.feed_and_read([mq.suback(pid, [0])])
                self.link, self.parked, self.reader_out = "pending", False, False
                self.subs, self.unsubs, self.ping = [], [], None
                return
            pkts.append(mq.ack("unsuback", pid))
        elif self.ping:
            pkts.append(mq.PINGRESP)
            self.ping = None
        elif r.random() < 0.5 and (self.subs or self.unsubs):
            tag = (self.subs or self.unsubs)[0][0]
            self.emit("quit %s" % tag)
            self.drop_tag(tag)
            return
        if pkts:
            self.feed_and_read(pkts)

    def hostile(self):
        r = self.r
        if self.closed or not self.ensure_live():
            return
        choice = r.randrange(10)
        if choice >= 8:
            # a valid packet whose remaining length ends early: the body stops inside a field (topic, identifier, return codes)
            qos = r.choice([0, 1, 2])
            topic = r.choice([b"x", self.topic()])
            whole = r.choice([mq.publish(qos, topic, b"", 7 if qos else 0), mq.publish(qos, topic, b"", 7 if qos else 0),
                              mq.ack("puback", 0x8000), mq.ack("pubrec", 0xc000), mq.ack("pubrel", 7), mq.ack("pubcomp", 0xc000),
                              mq.suback(0x6000, [0]), mq.ack("unsuback", 0x4000)])
            body = whole[2:]                              # every byte of these bodies is needed: any shorter length is a violation
            body = body[:r.randrange(0, len(body))]
            data = bytes([whole[0], len(body)]) + body
        elif choice == 0:
            data = bytes(r.randrange(256) for _ in range(r.randrange(1, 12)))
        elif choice == 1:
            data = bytes([r.choice([0x00, 0x10, 0x20, 0x80, 0xa0, 0xc0, 0xe0, 0xf0]), 0])
        elif choice == 2:
            data = bytes([0x30, 0x85, 0x80, 0x80, 0x80, 0x00]) + b"\x00\x01x"
        elif choice == 3:
            data = bytes([0x36, 5, 0, 1, 0x78, 0, 9])            # QoS 3
        elif choice == 4:
            data = bytes([0x32, 5, 0, 1, 0x78, 0, 0])            # identifier zero
        elif choice == 5:
            data = bytes([0x30, 3, 0, 9, 0x78])                  # topic exceeds
        elif choice == 6:
            data = bytes([r.choice([0x40, 0x50, 0x62, 0x70, 0xb0]), r.choice([0, 1, 3]), 0x80, 0, 1][:2 + r.choice([0, 1, 3])])
        else:
            data = bytes([0x90, 2, 0x60, 0])
        if self.bufsize and r.random() < 0.3:
            # a violation in the header of a packet that is larger than the read buffer
            body = bytes(r.randrange(256) for _ in range(self.bufsize * 2))
            data = r.choice([mq.packet(0x36, mq.s16(b"t") + b"\x00\x09" + body), mq.packet(0x32, mq.s16(b"t") + b"\x00\x00" + body),
                             mq.packet(0x34, mq.s16(b"t") + b"\x00\x00" + body)])
        self.emit("feed %s eof" % H(data))
        if not self.reader_out:
            self.emit("rs")
        if r.random() < 0.5:
            self.emit("backoff")
        self.link, self.parked, self.reader_out, self.doomed = "pending", False, False, False
        self.subs, self.unsubs, self.ping = [], [], None
        self.waiter = None
        if r.random() < 0.5:
            self.connect()
            if self.link == "live":
                self.emit("feed d000 block")

    def stall(self):
        """the broker stops sending inside a packet (or inside the payload a BigMessage.ReadAll is reading): the client may
        only wait as long as PauseTimeout permits, i.e. with a read deadline armed"""
        r = self.r
        if self.closed or self.waiter or not self.ensure_live():
            return
        qos = r.choice([0, 1, 2])
        if self.bufsize and r.random() < 0.4:
            # a message beyond the read buffer, read with ReadAll while the broker stalls in the payload
            payload = bytes(r.randrange(256) for _ in range(self.bufsize * r.choice([2, 3])))
            pk = mq.publish(qos, self.topic(), payload, r.choice([5, 6, 7]) if qos else 0)
            cut = len(pk) - r.randrange(1, self.bufsize)
            if r.random() < 0.45:
                # the stall outlasts PauseTimeout: ReadAll sees an expiry without progress and fails; the connection stands in the
                # middle of the payload, so it must be given up - the next ReadSlices cannot be found reading on it
                forged = mq.publish(0, b"f", b"forged")
                self.emit("feed %s tmo tmo %s block" % (H(pk[:cut]), H(forged)))
                if not self.reader_out:
                    self.emit("rs")
                self.emit("readall")
                self.link, self.parked, self.reader_out, self.doomed = "pending", False, False, False
                self.subs, self.unsubs, self.ping = [], [], None
                self.owed = False
                self.connect()
                return
            self.emit("feed %s block" % H(pk[:cut]))
            if not self.reader_out:
                self.emit("rs")
            self.emit("readall")
            # the session ends here: the call cannot return while the broker stalls and no time passes
            self.closed = True
            return
        if self.bufsize and r.random() < 0.35:
            # a message beyond the read buffer that the application does not read, while the broker stalls inside it: the skip at
            # the next ReadSlices sees a deadline expiry without progress and must give the connection up
            payload = bytes(r.randrange(256) for _ in range(self.bufsize * r.choice([2, 3])))
            pk = mq.publish(qos, self.topic(), payload, r.choice([5, 6, 7]) if qos else 0)
            cut = len(pk) - r.randrange(1, self.bufsize)
            self.emit("feed %s block" % H(pk[:cut]))
            if not self.reader_out:
                self.emit("rs")
            self.emit("feed tmo tmo block", "rs", "backoff")
            self.link, self.parked, self.reader_out, self.doomed = "pending", False, False, False
            self.subs, self.unsubs, self.ping = [], [], None
            self.owed = False
            self.connect()
            return
        pk = mq.publish(qos, self.topic(), self.payload(False), r.choice([5, 6, 7]) if qos else 0)
        if r.random() < 0.3:
            pk = r.choice([mq.ack("puback", 0x8000), mq.suback(0x6000, [0]), mq.PINGRESP, mq.ack("pubrel", 9)])
        cut = r.randrange(1, len(pk))
        self.emit("feed %s block" % H(pk[:cut]))
        if not self.reader_out:
            self.emit("rs")
            self.reader_out = True
        what = r.choice(["rest", "rest", "tmo", "brk"])
        if what == "rest":
            self.emit("feed %s eof" % H(pk[cut:]))
        elif what == "tmo":
            self.emit("feed tmo tmo eof")
        else:
            self.emit("brk")
        self.emit("rs")
        self.link, self.parked, self.reader_out, self.doomed = "pending", False, False, False
        self.subs, self.unsubs, self.ping = [], [], None
        self.owed = False

    def close(self):
        r = self.r
        if self.closed:
            return
        hold = r.random() < 0.3
        if hold:
            # the application has not read its exchange channels when the client is closed: the closing notice must still fit
            self.emit("exhold")
            for _ in range(r.choice([1, 2])):
                self.publish()
        how = r.choice(["close", "close", "disconnect"])
        if how == "disconnect" and self.link == "live" and r.random() < 0.3:
            self.emit("cpol e")          # the DISCONNECT goes out, the Close of the connection then reports a failure
        self.emit(how)
        if not self.reader_out:
            self.emit("rs")
        if hold:
            self.emit("rs", "exread")
        self.closed = True
        self.link = "closed"
        self.subs, self.unsubs, self.ping, self.waiter = [], [], None, None

    def blocked(self):
        """operations placed while a goroutine is blocked at an I/O boundary: in the Dialer, awaiting
        the CONNACK, inside conn.Write holding the write lock"""
        r = self.r
        if self.closed or self.waiter:
            return
        kind = r.choice(["dial", "hs", "hs", "gate", "gate", "gate", "resend", "slowsave"])
        if kind == "slowsave":
            # a persisted publish parks inside a slow Persistence.Save (it holds the sequence lock of its level) while the
            # read routine connects, resends, or handles acknowledgements; then the store lets it through
            if self.m1 == 0 and self.m2 == 0:
                return
            self.emit("sgate", "%s 0 %s %s" % ("pal" if (self.m1 != 0 and (self.m2 == 0 or r.random() < 0.5)) else "peo", H(self.topic()), H(self.payload(False))))
            if self.link != "live" or self.doomed:
                if not self.reader_out:
                    self.emit("dial ok %s" % H(mq.connack(0, 0)), "feed block", "rs")
            else:
                roll = r.random()
                if roll < 0.4:
                    self.ntag += 1
                    self.emit("call t%d %s" % (self.ntag, r.choice(["ping", "pub 0 74 6869", "sub 1 61"])))
                elif roll < 0.7 and self.out1:
                    self.emit("feed %s block" % H(mq.ack("puback", self.out1[0])))
                    self.out1.pop(0)
                elif roll < 0.85:
                    self.emit("brk", "rs", "dial ok %s" % H(mq.connack(0, 0)), "feed block", "rs")
            self.emit("sgo", "rs", "counters")
            # the model does not follow a publish parked in the store: what comes after is judged by the monitors only
            self.link, self.parked, self.reader_out, self.doomed = "live", True, True, False
            self.had_conn = True
            return
        if kind == "resend":
            # the read routine stalls inside the resend of a pending publish (it holds the write lock, not the connection control)
            if self.reader_out or not (self.out1 or self.out2) or (self.link == "live" and not self.doomed):
                return
            self.emit("dial ok %s o,g" % H(mq.connack(0, 0)), "feed block", "rs")
            what = r.choice(["close", "close", "disconnect", "ok", "fail"])
            if what == "close":
                self.emit("close", "rs")
                self.closed, self.link = True, "closed"
            elif what == "disconnect":
                self.emit("disconnect")
                if r.random() < 0.4:
                    self.emit("close")
                self.emit("wgo " + r.choice(["ok", "t0"]), "rs")
                self.closed, self.link = True, "closed"
            elif what == "ok":
                self.emit("wgo ok")
                self.link, self.parked, self.reader_out, self.doomed = "live", True, True, False
                self.had_conn = True
            else:
                self.emit("wgo e0", "rs")
                self.link, self.parked, self.reader_out = "down", False, False
            return
        if kind in ("dial", "hs") and (self.link == "live" and not self.doomed):
            if self.reader_out or r.random() < 0.5:
                self.emit("brk")
            if not self.reader_out:
                self.emit("rs")
            self.link, self.parked, self.reader_out, self.doomed = "pending", False, False, False
            self.subs, self.unsubs, self.ping = [], [], None
        if kind == "dial":
            if self.reader_out:
                return
            if r.random() < 0.4:
                self.ntag += 1
                self.emit("call t%d %s" % (self.ntag, r.choice(["ping", "pub 0 74 68", "sub 1 61"])))
            self.emit("dial block", "rs")
            self.emit(r.choice(["close", "close", "disconnect"]))
            if r.random() < 0.5:
                self.emit(r.choice(["close", "disconnect"]))
            self.emit("rs")
            self.closed, self.link = True, "closed"
        elif kind == "hs":
            if self.reader_out:
                return
            ca = mq.connack(0, 0)
            k = r.randrange(0, 4)
            self.emit("dial ok %s" % H(ca[:k]), "feed block", "rs")
            what = r.choice(["complete", "complete", "close", "disconnect", "brk", "garbage"])
            if what == "complete":
                self.emit("feed %s block" % H(ca[k:]))
                self.link, self.parked, self.reader_out, self.doomed = "live", True, True, False
                self.had_conn = True
                self.owed = False
            elif what == "garbage":
                self.emit("feed %s block" % H(bytes([r.randrange(256) for _ in range(4 - k)])))
                self.emit("brk")
                self.link = "down"
            elif what == "brk":
                self.emit("brk")
                self.link = "down"
            else:
                self.emit(what, "rs")
                self.closed, self.link = True, "closed"
        else:
            if not (self.link == "live" and not self.doomed and self.reader_out):
                return
            self.ntag += 1
            tag = "t%d" % self.ntag
            call = r.choice(["ping", "pub 0 74 6869", "sub 1 612f23", "unsub 61"])
            if call == "ping" and self.ping:
                call = "pub 0 74 6869"
            if r.random() < self.p.get("midpacket", 0.15):
                # the writer stalls between the header and the payload of a vectored write while the broker's packets keep
                # coming: whatever the read routine has to send must wait for the write lock (whole packets only)
                self.emit("wpol o,g", "call %s pub 0 7474 %s" % (tag, H(self.payload(False) or b"x")))
                for _ in range(r.choice([1, 1, 2])):
                    self.emit("feed %s block" % H(r.choice([mq.ack("pubrel", r.choice([1, 2, 5, 9])), mq.PINGRESP,
                                                            mq.ack("pubrel", r.choice(sorted(self.markers) or [3]))])))
                self.emit("wgo " + r.choice(["ok", "ok", "t0", "e0"]))
                if self.ops[-1] != "wgo ok":
                    self.link, self.parked, self.reader_out, self.doomed = "pending", False, False, False
                    self.subs, self.unsubs, self.ping = [], [], None
                    self.emit("rs")
                return
            if r.random() < self.p.get("slowclose", 0.12) and call != "ping":
                # the connection dies while a write is in progress and its Close is slow: requests that still get through on the
                # dying connection must be told about its loss
                self.emit("wpol g", "call %s %s" % (tag, call), "cpol g",
                          "feed %s block" % H(r.choice([bytes([0x90, 3, 0x60, 1, 3]), bytes([0x00, 0]), bytes([0x20, 2, 0, 0])])), "wgo ok")
                for _ in range(r.choice([1, 2])):
                    self.ntag += 1
                    self.emit("call t%d %s" % (self.ntag, r.choice(["sub 1 62", "unsub 63", "ping", "pub 0 74 6869"])))
                self.emit("cgo", "rs")
                self.link, self.parked, self.reader_out, self.doomed = "pending", False, False, False
                self.subs, self.unsubs, self.ping = [], [], None
                self.connect()
                return
            self.emit("wpol g", "call %s %s" % (tag, call))
            # more requests queue up on the write semaphore behind the blocked one; the broker may answer meanwhile
            def ident(c):
                if c.startswith(("sub", "unsub")):
                    self.txn += 1
                    return (0x6000 if c.startswith("sub") else 0x4000) | ((self.txn - 1) & 0x1fff)
                return None
            queued = [(tag, call, ident(call))]
            slot = self.ping or (tag if call == "ping" else None)
            if r.random() < 0.6:
                for _ in range(r.choice([1, 1, 2, 3, 4, 6])):
                    roll = r.random()
                    if roll < 0.3:
                        self.emit("feed d000 block")          # PINGRESP, solicited or not
                        slot = None
                        self.ping = None
                    elif roll < 0.45 and len(queued) > 1:
                        qt, qc, _ = queued.pop(r.randrange(1, len(queued)))
                        self.emit("quit %s" % qt)
                        if slot == qt:
                            slot = None
                    else:
                        self.ntag += 1
                        qt = "t%d" % self.ntag
                        qc = r.choice(["ping", "ping", "pub 0 74 6869", "sub 1 612f23", "unsub 61"])
                        self.emit("call %s %s" % (qt, qc))
                        if qc == "ping":
                            if slot is None:
                                slot = qt
                                queued.append((qt, qc, None))
                        else:
                            queued.append((qt, qc, ident(qc)))
            what = r.choice(["ok", "ok", "ok", "fail", "close", "disconnect", "brk"] if len(queued) > 1 else ["ok", "ok", "fail", "close", "disconnect", "brk", "disconnect quit"])
            if len(queued) > 1 and what in ("fail", "brk"):
                # the queued requests would poll for the reconnect in an order the model does not fix
                for qt, qc, _ in queued[2:]:
                    self.emit("quit %s" % qt)
                self.waiter = queued[1][0]
            if what == "ok":
                self.emit("wgo ok")
                for qt, qc, pid in queued:
                    if qc.startswith("sub"):
                        self.subs.append([qt, pid, 1])
                    elif qc.startswith("unsub"):
                        self.unsubs.append([qt, pid])
                    elif qc == "ping" and slot == qt:
                        self.ping = qt
                if r.random() < 0.5 and self.ping:
                    self.feed_and_read([mq.PINGRESP])
                    self.ping = None
            elif what == "fail":
                self.emit("wgo " + r.choice(["t0", "e0", "c0", "t2"]))
                self.link, self.parked, self.reader_out, self.doomed = "pending", False, False, False
                self.subs, self.unsubs, self.ping = [], [], None
                self.emit("rs")
            elif what == "brk":
                self.emit("brk")
                self.link, self.parked, self.reader_out, self.doomed = "pending", False, False, False
                self.subs, self.unsubs, self.ping = [], [], None
            elif what == "disconnect quit":
                self.emit("disconnect quit", "rs")
                self.closed, self.link = True, "closed"
            else:
                self.emit(what)
                if what == "disconnect":
                    if r.random() < 0.4:
                        self.emit("close")
                    self.emit("wgo " + r.choice(["ok", "ok", "t0", "c0"]))
                self.emit("rs")
                self.closed, self.link = True, "closed"

    def damage(self):
        """damage records of the store right before a restart (C16)"""
        r = self.r
        keys = [k for k in self.out1] + [e[0] for e in self.out2]
        # the receive side: markers of exactly-once deliveries in progress, and the client identifier record
        keys += [m | 0x10000 for m in sorted(self.markers)]
        if r.random() < 0.15:
            keys.append(0)
        n = r.choice([1, 1, 2])
        for _ in range(n):
            kind = r.choice(["alter", "alter", "trunc", "rm", "stray"])
            if kind == "stray":
                self.emit("damage stray %x %s" % (r.choice([0x8100, 0xc100, 0x7000, 0x10005, 0x1, 0x4001]),
                                                  H(bytes(r.randrange(256) for _ in range(r.choice([0, 5, 11, 12, 20]))))))
            elif keys:
                k = r.choice(keys)
                if kind == "alter":
                    self.emit("damage alter %x %d %d" % (k, r.randrange(0, 16), r.randrange(256)))
                elif kind == "trunc":
                    self.emit("damage trunc %x %d" % (k, r.choice([0, 3, 11, 12, 13])))
                else:
                    self.emit("damage rm %x" % k)
        self.restart()

    def wrapstore(self):
        """a store left by a client whose identifiers are about to wrap around (or just did): records crafted the
        way the client writes them, adopted right away"""
        r = self.r
        seq = r.randrange(2, 1000)
        self.m1 = r.choice([8, 8, 16384, -1, 4])
        self.m2 = r.choice([8, 8, -1, 4])
        n1 = r.randrange(0, min(5, self.cap(self.m1)) + 1)
        n2 = r.randrange(0, min(5, self.cap(self.m2)) + 1)
        s1 = (0x4000 - r.randrange(0, n1 + 2)) % 0x4000          # first pending sequence number, level 1
        s2 = (0x4000 - r.randrange(0, n2 + 2)) % 0x4000
        recs = []
        for i in range(n1):
            k = 0x8000 | ((s1 + i) & 0x3fff)
            recs.append((k, mq.publish(1, b"t", bytes([97 + i]), k)))
        nrel = r.randrange(0, n2 + 1)
        for i in range(n2):
            k = 0xc000 | ((s2 + i) & 0x3fff)
            recs.append((k, mq.ack("pubrel", k) if i < nrel else mq.publish(2, b"t", bytes([65 + i]), k)))
        r.shuffle(recs)
        # storage order: level-wise in identifier order (acceptance order); PUBRELs carry later numbers than the PUBLISHes they replaced
        order = sorted(recs, key=lambda e: (e[1][0] >> 4 == 6, ((e[0] & 0x3fff) - (s1 if e[0] < 0xc000 else s2)) & 0x3fff))
        for k, pk in order:
            seq += r.randrange(1, 4)
            self.emit("damage stray %x %s" % (k, H(mq.record(pk, seq))))
        self.emit("store", "adopt %d %d %d" % (self.clean, self.m1, self.m2), "counters")
        self.reset_client_state()
        self.out1 = [0x8000 | ((s1 + i) & 0x3fff) for i in range(n1)]
        self.out2 = [[0xc000 | ((s2 + i) & 0x3fff), 1 if i < nrel else 0] for i in range(n2)]
        self.acc1, self.acc2 = s1 + n1, s2 + n2

    # ---- script ----------------------------------------------------------------
    def script(self):
        r = self.r
        self.new_script()
        self.had_conn = False
        if r.random() < self.p.get("wrap", 0):
            self.wrapstore()
        n = r.randrange(*self.length)
        acts = ["publish", "ack", "inbound", "connect", "fault", "restart", "call", "response", "hostile", "close", "damage", "blocked", "stall"]
        w = [self.p.get(a, 0) for a in acts]
        for _ in range(n):
            a = r.choices(acts, weights=w, k=1)[0]
            getattr(self, a)()
            if r.random() < self.p.get("sig", 0.15):
                self.emit("sig")         # what Online() and Offline() tell the application at this point
        self.emit("sig", "counters", "store")
        return self.ops
