"""C10 — the read routine never wedges: failed connections are left and redialed."""
from . import sesscheck as SC

MODULE = "Props.C10"
PROFILE = {"publish": 6, "ack": 4, "inbound": 10, "connect": 10, "fault": 10, "restart": 0.3, "call": 12, "response": 4,
           "hostile": 4, "close": 0.3, "blocked": 10, "bigbuf": 0.3, "stall": 3}


def keep(l):
    return l.startswith(("rs ", "ev dial", "ev close", "ret ", "blocked", "close", "disconnect", "hang", "spin", "backoff", "sig "))


def mon_redial(tr, sc):
    """after the read routine reported a connection-level error, the next ReadSlices dials again"""
    out = []
    need_dial = False
    for i, (op, lines) in enumerate(tr):
        f = op.split()
        if f and f[0] in ("adopt", "close", "disconnect"):
            need_dial = False
        if f and f[0] == "rs" and need_dial:
            if not any(l.startswith("ev dial") or l.startswith("rs err closed") or l == "noclient" or l.startswith("rs parked")
                       or l.startswith("rs err store") or l.startswith("rs err corrupt") for l in lines):
                out.append(("redial:missing", "ReadSlices after a connection failure neither dialled nor reported ErrClosed: %s" % lines[:3]))
            need_dial = False
        for l in lines:
            if l.startswith("rs err "):
                cls = l.split()[2]
                tags = set(cls.split("+"))
                if tags & {"eof", "ueof", "reset", "timeout", "hard", "netclosed", "down"} and "closed" not in tags:
                    need_dial = True
                elif "closed" in tags:
                    need_dial = False
            if l.startswith("ev dial"):
                need_dial = False
    return out


def mon_backoff(tr, sc):
    """the wait ReadBackoff decides on (observed at its hook, never awaited): within the configured bounds [3 s, 20 s] for
    an error that needs a reconnect, the maximum for a refusal, doubling on consecutive failures, blocking for ErrClosed"""
    out = []
    last, prev_wait, fails = None, None, 0
    lo, hi = 3000, 20000          # the harness's default Config
    for i, (op, lines) in enumerate(tr):
        f = op.split()
        if f and f[0] == "rwait":
            # as documented: a zero minimum means one second, a negative one no wait; the maximum is raised to the effective minimum
            mn, mx = int(f[1]), int(f[2])
            mn = 10 ** 9 if mn == 0 else max(mn, 0)
            mx = max(mx, mn)
            lo, hi = mn // 10 ** 6, mx // 10 ** 6
        for l in lines:
            if l.startswith("rs err "):
                last = set(l.split()[2].split("+"))
            elif l.startswith(("rs msg", "rs big")):
                last, prev_wait = None, None
            if l.startswith("ev dial ok"):
                pass
        if f and f[0] in ("adopt", "init"):
            last, prev_wait = None, None
        if f and f[0] == "backoff" and lines and lines[0].startswith("backoff ") and last is not None:
            w = lines[0].split()[1]
            if "closed" in last:
                if w != "never":
                    out.append(("backoff:closed", "ReadBackoff after ErrClosed gives `%s`, want a channel that blocks" % w))
                continue
            if not w.endswith("ms"):
                continue
            ms = int(w[:-2])
            if any(t.startswith("refused") for t in last):
                if ms != hi:
                    out.append(("backoff:refused", "ReadBackoff after a refused connect waits %d ms, ReconnectWaitMax is %d ms" % (ms, hi)))
            elif last & {"store", "corrupt", "other"}:
                pass        # the connection may still be there (Persistence error): fixed 1 s
            elif not (lo <= ms <= hi):
                out.append(("backoff:bounds", "ReadBackoff after `%s` waits %d ms, outside [ReconnectWaitMin %d, ReconnectWaitMax %d]" % ("+".join(sorted(last)), ms, lo, hi)))
    return out


def run(ctx):
    mon = lambda tr, sc: SC.mon_sanity(tr) + mon_redial(tr, sc) + mon_backoff(tr, sc) + SC.mon_deadline(tr)
    v, stats, hist, samples, nd = SC.run_property(ctx, MODULE, PROFILE, 300, 5000, [mon], keep, length=(8, 30))
    return SC.finish(ctx, v, stats, hist, samples, nd,
                     "write failures by Publish/Subscribe/Ping/persisted publishes placed before, between and after the read routine's own "
                     "writes and reads (incl. a writer blocked inside conn.Write when the broker closes), read errors/EOF/expiries at any byte, "
                     "failures during dial, handshake and resend, consecutive failed connects; hang and busy-loop detection by goroutine states",
                     SC.SESSION_ASSUMPTIONS + ["partial: interleavings are those reachable by blocking goroutines at I/O boundaries (dial, CONNACK, conn.Write, "
                                               "read); preemption between two statements is covered by the Sync theorems only (A-atomic)",
                                               "timers are not awaited: the idle time ReadBackoff decides on is observed at a hook and compared with the model and the bounds"])
