"""C17 — in-flight packet identifiers unique and bounded; excess gets ErrMax, no block."""
from . import sesscheck as SC

MODULE = "Props.C17"
PROFILE = {"wrap": 0.15, "publish": 25, "ack": 12, "inbound": 1, "connect": 5, "fault": 3, "restart": 4, "call": 14, "response": 5, "txwrap": 0.3,
           "hostile": 0.5, "close": 0.3, "bigbuf": 0.05}


def keep(l):
    return l.startswith(("ev save", "ev del", "pub ", "ctr ", "adopt ", "ret ", "blocked", "exch")) or \
        (l.startswith("ev w ") and True)


def run(ctx):
    def mon(tr, sc):
        init = [o for o in sc if o.startswith("init ")]
        m1, m2 = (int(init[0].split()[3]), int(init[0].split()[4])) if init else (0, 0)
        out = SC.mon_sanity(tr) + SC.mon_limits(tr, m1, m2)
        out += [h for h in SC.mon_outbound(tr) if h[0] in ("outbound:id-reuse",)]
        out += SC.mon_unordered_ids(tr) + SC.mon_slots(tr)
        return out
    v, stats, hist, samples, nd = SC.run_property(ctx, MODULE, PROFILE, 250, 4000, [mon], keep, length=(10, 40))
    return SC.finish(ctx, v, stats, hist, samples, nd,
                     "random publish/ack/restart histories with limits in {0,1,2,3,4,8,-1,16384,20000}; distinct = distinct scripts "
                     "(hash) with at least two persistence or wire events; plus the regression corpus",
                     SC.SESSION_ASSUMPTIONS + ["A-ovf: fewer than 2^64 publishes per level"])
