"""Running session scripts on implementation and model, parsing traces."""
import concurrent.futures, os
from . import common as C


def run_session(ctx, scripts, shards=None, timeout=None):
    """scripts: list of list-of-lines. Returns list of (impl_lines, model_lines). Scripts the time budget did not reach
    come back as ["<no output>"] on both sides."""
    if timeout is None:
        timeout = 150 if ctx.quick() else 2400
    if shards is None:
        shards = min(12, max(1, len(scripts) // 40))
    if shards <= 1:
        impl, model = C.run_cases(ctx, "session", scripts, timeout=timeout)
        return list(zip(impl, model))
    parts = [scripts[i::shards] for i in range(shards)]
    with concurrent.futures.ThreadPoolExecutor(max_workers=shards) as ex:
        outs = list(ex.map(lambda p: C.run_cases(ctx, "session", p, timeout=timeout), parts))
    res = [None] * len(scripts)
    for k, (impl, model) in enumerate(outs):
        for j, (a, b) in enumerate(zip(impl, model)):
            res[k + j * shards] = (a, b)
    return res


def unsupported(model_lines):
    return any(l.startswith("unsupported") for l in model_lines)


def split_ops(script, out):
    """Attributes output lines to script ops is not possible exactly (ops print a
    variable number of lines); monitors work on the flat trace instead."""
    return out
