"""C06 — inbound messages are returned byte-exact under any fragmentation and size."""
from . import common as C, sess, mq, sesscheck as SC

MODULE = "Props.C06"
H = lambda b: b.hex() if b else "-"


def make_stream(r, bufsize):
    """a well-formed broker stream: PUBLISH at all levels around the buffer size, control packets in between"""
    pkts, expect, used = [], [], set()
    n = r.choice([1, 2, 3, 4])
    for i in range(n):
        if r.random() < 0.25:
            pkts.append(r.choice([mq.PINGRESP, mq.ack("unsuback", 0x4000 | r.randrange(8192)), mq.suback(0x6000 | r.randrange(8192), [1]),
                                  mq.ack("pubrel", r.randrange(1, 9))]))
            continue
        qos = r.choice([0, 0, 1, 2])
        tl = r.choice([1, 1, 2, 5, min(20, bufsize // 3)])
        topic = bytes(r.choice(b"abcxyz/") for _ in range(tl))
        psz = r.choice([0, 1, 2, bufsize - tl - 8, bufsize - tl - 5, bufsize - tl - 4, bufsize - tl - 3, bufsize - tl - 2, bufsize - tl - 1,
                        bufsize, bufsize + 1, 2 * bufsize, 3 * bufsize + 1, r.randrange(0, 3 * bufsize)])
        psz = max(0, psz)
        payload = bytes(r.randrange(256) for _ in range(psz))
        pid = r.randrange(1, 0xffff)
        while pid in used:
            pid = r.randrange(1, 0xffff)
        used.add(pid)
        retain = r.random() < 0.2
        pkts.append(mq.publish(qos, topic, payload, pid if qos else 0, retain=retain))
        expect.append((topic, payload, qos))
        if qos == 2 and r.random() < 0.35:
            # the broker did not get the PUBREC in time and sends the message again: skipped, the stream stays aligned
            for _ in range(r.choice([1, 1, 2])):
                pkts.append(mq.publish(qos, topic, payload, pid, dup=True, retain=retain))
    return pkts, expect


def chunkings(r, pkts, bufsize, mode):
    """returns the feed arguments (hex chunks and tmo markers) for one way of cutting the stream"""
    data = b"".join(pkts)
    # body ranges: a timeout is tolerated only after progress inside a packet body
    bounds, body, off = [], [], 0
    for p in pkts:
        hl = 1
        while p[hl] >= 0x80:
            hl += 1
        hl += 1
        bounds.append(off)
        body.append((off + hl, off + len(p)))
        off += len(p)
    if mode == "whole":
        cuts = []
    elif mode == "bytes":
        cuts = list(range(1, len(data))) if len(data) <= 400 else sorted(r.sample(range(1, len(data)), 300))
    elif mode == "one":
        cuts = [r.randrange(1, len(data))] if len(data) > 1 else []
    else:
        k = r.randrange(1, 8)
        cuts = sorted(set(r.randrange(1, len(data)) for _ in range(k))) if len(data) > 1 else []
    args, prev = [], 0
    for cpos in cuts + [len(data)]:
        if cpos > prev:
            args.append(H(data[prev:cpos]))
        # deadline expiry at this cut, only where the code tolerates it: strictly inside a body,
        # at least one body byte of that packet delivered by the chunk just before
        if cpos < len(data) and r.random() < 0.35:
            for (b0, b1) in body:
                if b0 < cpos < b1 and prev < cpos and max(prev, b0) < cpos:
                    args.append("tmo")
                    break
        prev = cpos
    return args


def run(ctx):
    v = C.Verdict(ctx)
    b = C.build(ctx, [MODULE])
    C.proof_audit(ctx, MODULE)
    stats = {"scripts": 0, "unsupported": 0, "diffs": 0, "monitor_hits": 0, "big_messages": 0, "timeouts": 0, "messages": 0}
    if not b["go_ok"]:
        v.broken_tie("harness does not build against /repo", {"log": b["log"][-2000:]})
        return v.finish(C.proof_coverage(ctx, {"evaluations": 1, "distinct_nontrivial": 0}), [])
    if ctx.audit["problems"]:
        v.broken_tie("proof obligations of %s do not check: %s" % (MODULE, ctx.audit["problems"][:3]), {"audit": ctx.audit})
    r = ctx.rng
    scripts, metas = [], []
    for name, sc in SC.corpus_scripts():
        if name.startswith(("F05", "F14", "F20")):
            scripts.append(sc)
            metas.append(None)
    n = 260 if ctx.quick() else 5000
    for i in range(n):
        bufsize = r.choice([64, 64, 64, 256])
        pkts, expect = make_stream(r, bufsize)
        mode = r.choice(["whole", "bytes", "one", "random", "random"])
        args = chunkings(r, pkts, bufsize, mode)
        coalesce = r.random() < 0.3
        sc = ["bufsize %d" % bufsize, "init 636c 0 8 8"]
        if r.random() < 0.3:
            # an earlier connection is given up inside a packet: nothing of it may leak into the stream of the next one
            junk = mq.publish(r.choice([0, 1]), b"old/topic", bytes(r.randrange(256) for _ in range(r.choice([3, 20, 40]))), 77)
            cutj = r.randrange(3, len(junk))
            sc += ["dial ok " + H(mq.connack()), "feed %s %s" % (H(junk[:cutj]), r.choice(["eof", "err"])), "rs"]
        if coalesce and args and args[0] != "tmo":
            sc.append("dial ok " + H(mq.connack()) + args[0])     # CONNACK coalesced with what follows
            rest = args[1:]
        else:
            sc.append("dial ok " + H(mq.connack()))
            rest = args
        # ReadAll tolerates a deadline expiry that saw progress, as every other read does (F16 repair)
        use_readall = r.random() < 0.7
        sc.append("feed " + " ".join(rest + ["eof"]) if rest else "feed eof")
        for (topic, payload, qos) in expect:
            sc.append("rs")
            if 2 + len(topic) + (2 if qos else 0) + len(payload) > bufsize and use_readall:
                sc.append("readall")
        sc.append("rs")
        scripts.append(sc)
        metas.append((expect, bufsize, use_readall))
        stats["timeouts"] += rest.count("tmo")
    for rl in ([127, 128, 16383, 16384] + ([2097151, 2097152] if True else [])):
        topic = b"len/%d" % rl
        for qos in ((0, 1) if rl < 100000 else (0,)):
            plen = rl - 2 - len(topic) - (2 if qos else 0)
            payload = bytes((7 * j + rl) & 0xff for j in range(plen))
            pk = mq.publish(qos, topic, payload, 0x1234 if qos else 0)
            tailpk = mq.publish(0, b"after", b"x")
            sc = ["bufsize 64", "init 636c 0 8 8", "dial ok " + H(mq.connack()), "feed %s %s eof" % (H(pk), H(tailpk)), "rs", "readall", "rs", "rs"]
            scripts.append(sc)
            metas.append(([(topic, payload, qos), (b"after", b"x", 0)], 64, True))
    # a pause between two packets: after a message beyond the read buffer that the application does not read (or a skipped big
    # duplicate) the broker says nothing for a while, then goes on: the wait in between belongs to no packet
    for qos in (0, 1, 2):
        for dup in ((False, True) if qos == 2 else (False,)):
            big = mq.publish(qos, b"big", bytes((3 * j) & 0xff for j in range(200)), 9 if qos else 0)
            tailpk = mq.publish(0, b"after", b"x")
            sc = ["bufsize 64", "init 636c 0 8 8", "dial ok " + H(mq.connack())]
            exp = [(b"big", bytes((3 * j) & 0xff for j in range(200)), qos)]
            if dup:
                sc += ["feed %s %s block" % (H(big), H(mq.publish(qos, b"big", bytes((3 * j) & 0xff for j in range(200)), 9, dup=True))), "rs", "rs", "rs"]
            else:
                sc += ["feed %s block" % H(big), "rs", "rs"]
            sc += ["feed %s eof" % H(tailpk), "rs", "rs"]
            scripts.append(sc)
            metas.append((exp + [(b"after", b"x", 0)], 64, False))
    res = sess.run_session(ctx, scripts)
    distinct, samples = set(), []
    keep = lambda l: l.startswith(("rs ", "readall", "ev w "))
    for sc, meta, (impl, model) in zip(scripts, metas, res):
        stats["scripts"] += 1
        tr = SC.parse_trace(impl, sc)
        hits = SC.mon_sanity(tr) + [h for h in SC.mon_deadline(tr) if h[0] == "deadline:armed-while-idle"]
        if meta is not None:
            expect, bufsize, use_readall = meta
            got = []
            main = max(j for j, o in enumerate(sc) if o.startswith("dial ok"))
            for j, (op, lines) in enumerate(tr):
                if j < main:
                    continue        # the connection that was given up: nothing of it is expected
                for l in lines:
                    if l.startswith("rs msg "):
                        p = l.split()
                        got.append(("msg", SC.unhex(p[2]), SC.unhex(p[3])))
                    elif l.startswith("rs big "):
                        p = l.split()
                        got.append(("big", SC.unhex(p[2]), int(p[3])))
                        stats["big_messages"] += 1
                    elif l.startswith("readall ok "):
                        got.append(("all", SC.unhex(l.split()[2])))
                    elif l.startswith("readall err"):
                        got.append(("allerr",))
            gi = 0
            for (topic, payload, qos) in expect:
                stats["messages"] += 1
                if gi >= len(got):
                    hits.append(("inbound:missing", "message on %s (%d bytes) was never returned" % (topic.hex(), len(payload))))
                    break
                g = got[gi]
                gi += 1
                if g[0] == "msg":
                    if g[1] != topic or g[2] != payload:
                        hits.append(("inbound:content", "returned message differs from what the broker sent (topic %s, %d bytes)" % (topic.hex(), len(payload))))
                        break
                elif g[0] == "big":
                    if g[1] != topic or g[2] != len(payload):
                        hits.append(("inbound:big-size", "BigMessage topic/size %s/%d differs from the sent %s/%d" % (g[1].hex(), g[2], topic.hex(), len(payload))))
                        break
                    if gi < len(got) and got[gi][0] == "all":
                        if got[gi][1] != payload:
                            hits.append(("inbound:big-content", "BigMessage.ReadAll content differs from the sent payload (%d bytes)" % len(payload)))
                            break
                        gi += 1
                    elif gi < len(got) and got[gi][0] == "allerr":
                        hits.append(("inbound:big-readall", "BigMessage.ReadAll failed on a complete stream"))
                        break
                else:
                    hits.append(("inbound:unexpected", "unexpected result %s" % (g[0],)))
                    break
            distinct.add((bufsize, tuple(len(p) for _, p, _ in expect), sc[3][:40]))
        if hits:
            stats["monitor_hits"] += 1
            sig, what = hits[0]
            v.violation("C06:" + sig, what, {"port": "session", "script": sc, "impl": impl[-30:], "model": model[-30:]})
            continue
        if sess.unsupported(model):
            stats["unsupported"] += 1
            continue
        d = C.first_diff(SC.project(impl, keep), SC.project(model, keep))
        if d:
            stats["diffs"] += 1
            v.broken_tie("implementation and model disagree on an inbound stream: impl `%s` model `%s`" % (d[1][:100], d[2][:100]),
                         {"port": "session", "script": sc, "impl": impl[-30:], "model": model[-30:]})
        if len(samples) < 2 and meta is not None:
            samples.append({"script": [x[:100] for x in sc[:6]], "impl_tail": [x[:100] for x in impl[-4:]]})
    cov = C.proof_coverage(ctx, {
        "evaluations": stats["scripts"], "distinct_nontrivial": len(distinct),
        "rule": "well-formed broker streams (PUBLISH at all levels with payloads from 0 through buffer size +-k to several buffers, control "
                "packets between) x chunkings (whole, 1-byte reads, one cut anywhere, random cuts, CONNACK coalesced) x progress-making "
                "deadline expiries at cuts; buffer 64/256 bytes; expected returns computed from the fed bytes, independent of the model",
        "samples": samples, "histogram": stats, "traces_validated_against_impl": stats["scripts"] - stats["unsupported"],
    })
    return v.finish(cov, SC.SESSION_ASSUMPTIONS + ["deadline expiry is scripted (timeout chunk); real timers are outside",
                                                  "ReadAll is exercised on streams without expiries only (it reads without a deadline, F16)"])
