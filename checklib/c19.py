"""C19 — FileSystem store: Save and Delete are atomic per key across process stops."""
import concurrent.futures, os, re, shutil, subprocess
from . import common as C

MODULE = "Props.C19"
SET = "openat,write,fsync,close,renameat,renameat2,rename,unlinkat,unlink,newfstatat"


def helper(ctx, *args, prefix=None, timeout=60):
    cmd = (prefix or []) + [os.path.join(ctx.work, "harness"), "fshelper"] + [str(a) for a in args]
    p = subprocess.run(cmd, stdout=subprocess.PIPE, stderr=subprocess.PIPE, text=True, timeout=timeout)
    return p.returncode, p.stdout.splitlines()


def value_sig(ctx, tag, size):
    rc, out = helper(ctx, "value", tag, size)
    n, s = out[0].split()
    return "%d %s" % (int(n), s)


def parse_trace(path, d):
    """modelled calls of the main thread between the .begin and .end markers: (canonical lines, K0, raw count)"""
    lines = open(path).read().splitlines()
    if not lines:
        return [], 0, 0, False
    pid = lines[0].split()[0]
    k = 0
    k0 = None
    ev = []
    before, raw = {}, []
    killed = any("killed by SIGKILL" in l for l in lines)
    inwin = False
    for l in lines:
        f = l.split(None, 1)
        if len(f) < 2 or f[0] != pid:
            continue
        body = f[1]
        m = re.match(r"(\w+)\(", body)
        if not m or "resumed>" in body:
            continue
        name = m.group(1)
        if name not in SET.split(","):
            continue
        k += 1
        if name.startswith("unlink") and "AT_REMOVEDIR" in body:
            continue      # os.Remove retries a failed unlink as rmdir: a failing no-op
        if name == "newfstatat" and "/.begin" in body:
            inwin, k0 = True, k
            continue
        if inwin:
            raw.append(name)
        elif k0 is None:
            before[name] = before.get(name, 0) + 1
        if name == "newfstatat":
            if "/.end" in body:
                inwin = False
            continue
        if not inwin:
            continue
        base = lambda p: os.path.basename(p)
        if name == "openat":
            pm = re.search(r'"([^"]+)"', body)
            if pm and "O_CREAT" in body:
                # the model's `create` is open(O_CREAT|O_TRUNC): leftovers of an interrupted Save must not survive in the new value
                ev.append(("create " if "O_TRUNC" in body else "create-without-truncate ") + base(pm.group(1)))
        elif name == "write":
            pm = re.search(r"write\(\d+<([^>]+)>.*, (\d+)(\)| <unfinished)", body)
            if pm and pm.group(1).startswith(d):
                ev.append("write %s %s" % (base(pm.group(1)), pm.group(2)))
        elif name in ("fsync", "close"):
            pm = re.search(r"\(\d+<([^>]+)>", body)
            if pm and pm.group(1).startswith(d):
                ev.append("%s %s" % (name, base(pm.group(1))))
        elif name.startswith("rename"):
            ps = re.findall(r'"([^"]+)"', body)
            if len(ps) >= 2:
                ev.append("rename %s %s" % (base(ps[0]), base(ps[1])))
        elif name.startswith("unlink"):
            pm = re.search(r'"([^"]+)"', body)
            if pm:
                ev.append("unlink " + base(pm.group(1)))
    return ev, {"before": before, "raw": raw}, k, killed


def one_case(ctx, idx, old, new, nbuf, kill_at=None, fsize=None, delete=False, errinj=None, leftover=None):
    """one scenario; when strace delivered no event at all for an operation that ran to its end, the observation (not the
    code) failed: it is repeated"""
    for attempt in range(3):
        res = one_case_once(ctx, idx * 10 + attempt, old, new, nbuf, kill_at, fsize, delete, errinj, leftover)
        if res["events"] or res["killed"] or kill_at is not None or errinj is not None or fsize is not None:
            return res
    return res


def one_case_once(ctx, idx, old, new, nbuf, kill_at=None, fsize=None, delete=False, errinj=None, leftover=None):
    """Runs one scenario in its own directory. Returns dict with trace events, post-state dump.
    leftover=(syscall, when): first a Save of a 4096-byte value in 3 buffers is killed there (history of an interrupted Save)."""
    d = os.path.join(ctx.work, "fs%d" % idx)
    shutil.rmtree(d, ignore_errors=True)
    os.makedirs(d)
    key = "18001"     # the two keys differ in bit 16 only (an inbound marker and the outbound record of one packet identifier)
    other = "8001"
    helper(ctx, "save", d, other, 9, 33, 1)
    if idx % 3 == 0:
        # unrelated entries in the directory (names of every length, five characters that are no key, a directory): List skips them
        for name in (".lock", "notes", "zzzzz", "8001x", "0800", "008001", "README.txt"):
            with open(os.path.join(d, name), "w") as fh:
                fh.write("unrelated")
        os.makedirs(os.path.join(d, "backup"))
    if old is not None:
        helper(ctx, "save", d, key, 1, old, 1)
    if leftover is not None:
        helper(ctx, "save", d, key, 3, 4096, 3,
               prefix=["strace", "-f", "-o", "/dev/null", "-e", "trace=" + SET, "-e", "inject=%s:signal=SIGKILL:when=%d" % leftover])
    trace = d + ".trace"
    pre = ["strace", "-f", "-y", "-e", "trace=" + SET, "-o", trace]
    if kill_at is not None:
        pre += ["-e", "inject=%s:signal=SIGKILL:when=%d" % kill_at]
    if errinj is not None:
        call, when = errinj
        pre += ["-e", "inject=%s:error=EIO:when=%d" % (call, when)]
    if fsize is not None:
        pre = ["prlimit", "--fsize=%d" % fsize] + pre
    if delete:
        rc, out = helper(ctx, "del", d, key, prefix=pre)
    else:
        rc, out = helper(ctx, "save", d, key, 2, new, nbuf, prefix=pre)
    ev, k0, k, killed = parse_trace(trace, d)
    rc2, dump = helper(ctx, "dump", d, key, other)
    res = {"dir": d, "events": ev, "k0": k0, "killed": killed, "rc": rc, "out": out, "dump": dump}
    shutil.rmtree(d, ignore_errors=True)
    try:
        os.unlink(trace)
    except OSError:
        pass
    return res


def judge(ctx, res, old, new, delete, sigs):
    """the property on the directory a fresh process sees"""
    bad = []
    key_state = None
    for l in res["dump"]:
        f = l.split()
        if f[0] in ("listed", "probe") and f[1] == "18001":
            key_state = " ".join(f[2:])
        if f[0] == "listed" and (f[2] in ("absent", "loaderr")):
            bad.append(("list-unloadable", "List reports key %s which Load cannot return" % f[1]))
        if f[0] in ("listed", "probe") and f[1] == "8001" and " ".join(f[2:]) != sigs[("other", 33)]:
            bad.append(("other-key-disturbed", "an operation on key 18001 changed key 8001: %s" % l))
        if f[0] == "listed" and f[1] not in ("18001", "8001"):
            bad.append(("stray-listed", "List reports %s" % f[1]))
    # every key that loads is listed (List is how AdoptSession finds the records)
    listed = {l.split()[1] for l in res["dump"] if l.startswith("listed ")}
    for l in res["dump"]:
        f = l.split()
        if f[0] == "probe" and f[2] not in ("absent", "loaderr") and f[1] not in listed:
            bad.append(("not-listed", "key %s loads (%s) but List does not report it" % (f[1], " ".join(f[2:]))))
    allowed = set()
    allowed.add("absent" if old is None else sigs[("old", old)])
    if delete:
        allowed.add("absent")
    else:
        allowed.add(sigs[("new", new)])
    if key_state not in allowed:
        bad.append(("torn-value", "after the stop key 18001 loads as `%s`; allowed: %s" % (key_state, sorted(allowed))))
    # a successful call must have taken effect; a failed one must have kept the old value
    if not res["killed"]:
        if res["out"] == ["save ok"] and key_state != sigs[("new", new)]:
            bad.append(("ok-not-visible", "Save returned nil but the key loads as `%s`" % key_state))
        if res["out"] == ["save err"] and key_state != ("absent" if old is None else sigs[("old", old)]):
            bad.append(("failed-save-changed", "Save failed but the key loads as `%s`" % key_state))
        if res["out"] == ["save err"] and any(l.startswith("file ") and l.split()[1].endswith(".spool") for l in res["dump"]):
            bad.append(("spool-left", "Save failed and left its spool file behind"))
    return bad


def run(ctx):
    v = C.Verdict(ctx)
    b = C.build(ctx, [MODULE])
    C.proof_audit(ctx, MODULE)
    stats = {"sequence_checks": 0, "kills": 0, "kill_positions_hit": 0, "fsize_cuts": 0, "error_injections": 0, "concurrent_ops": 0}
    if not b["go_ok"]:
        v.broken_tie("harness does not build against /repo", {"log": b["log"][-2000:]})
        return v.finish(C.proof_coverage(ctx, {"evaluations": 1, "distinct_nontrivial": 0}), [])
    if ctx.audit["problems"]:
        v.broken_tie("proof obligations of %s do not check: %s" % (MODULE, ctx.audit["problems"][:3]), {"audit": ctx.audit})
    if shutil.which("strace") is None:
        v.broken_tie("strace is not available: the system-call correspondence cannot run", {})
        return v.finish(C.proof_coverage(ctx, {"evaluations": 1, "distinct_nontrivial": 0}), [])
    r = ctx.rng
    sizes = [12, 40, 4096] if ctx.quick() else [12, 13, 40, 4096, 70000, 3 * 1024 * 1024]
    olds = [None, 30]
    sigs = {("other", 33): value_sig(ctx, 9, 33)}
    for s in sizes:
        sigs[("new", s)] = value_sig(ctx, 2, s)
    sigs[("old", 30)] = value_sig(ctx, 1, 30)
    samples, distinct = [], set()
    idx = [0]

    def nxt():
        idx[0] += 1
        return idx[0]

    # (i) observed system-call sequence = model program
    plan = []
    for old in olds:
        for new in sizes:
            for nbuf in (1, 3):
                plan.append((old, new, nbuf))
    jobs = []
    with concurrent.futures.ThreadPoolExecutor(max_workers=8) as ex:
        futs = {ex.submit(one_case, ctx, nxt(), old, new, nbuf): (old, new, nbuf) for (old, new, nbuf) in plan}
        futs[ex.submit(one_case, ctx, nxt(), 30, 0, 1, None, None, True)] = ("del", 30, 0)
        futs[ex.submit(one_case, ctx, nxt(), None, 0, 1, None, None, True)] = ("del", None, 0)
        calib = {}
        for fu, meta in futs.items():
            res = fu.result()
            stats["sequence_checks"] += 1
            if meta[0] == "del":
                model = C.run_bin(ctx, "driver", "fs", ["prog del 18001"])
                want_ok = ["del ok"]
                bad = judge(ctx, res, meta[1], 0, True, sigs)
            else:
                old, new, nbuf = meta
                step = new // nbuf if nbuf > 1 and new >= nbuf else new
                lens = [new] if (nbuf <= 1 or new < nbuf) else [step] * (nbuf - 1) + [new - step * (nbuf - 1)]
                model = C.run_bin(ctx, "driver", "fs", ["prog save 18001 " + ",".join(map(str, lens))])
                bad = judge(ctx, res, old, new, False, sigs)
                calib[meta] = (res["k0"], len(res["events"]))
            distinct.add(("seq",) + tuple(meta))
            for sig, what in bad:
                v.violation("C19:" + sig, what, {"scenario": meta, "events": res["events"], "dump": res["dump"]})
            if res["events"] != model:
                d = C.first_diff(res["events"], model)
                # order of flush and visibility is the property itself
                ev = res["events"]
                ren = [i for i, e in enumerate(ev) if e.startswith("rename ") and e.endswith(" 18001")]
                fs = [i for i, e in enumerate(ev) if e.startswith("fsync ")]
                wr = [i for i, e in enumerate(ev) if e.startswith("write ")]
                if meta[0] != "del" and ren and (not fs or fs[0] > ren[0] or (wr and max(wr) > ren[0])):
                    v.violation("C19:visible-before-flushed", "the value becomes visible under its key before it was written and flushed: %s" % ev,
                                {"scenario": meta, "events": ev, "model": model})
                elif meta[0] != "del" and not any(e.startswith(("create ", "create-without-truncate ")) and e.endswith(".spool") for e in ev):
                    v.violation("C19:in-place", "Save writes without a spool file: %s" % ev, {"scenario": meta, "events": ev, "model": model})
                else:
                    v.broken_tie("system calls of FileSystem differ from the model program: observed `%s` model `%s`" % (d[1], d[2]),
                                 {"scenario": meta, "events": ev, "model": model})
            if len(samples) < 2:
                samples.append({"scenario": list(meta), "syscalls": res["events"][:8]})
    def positions(cal):
        """(syscall name, when) for the entry of every call of the window, in order"""
        seen = dict(cal["before"])
        out = []
        for name in cal["raw"]:
            seen[name] = seen.get(name, 0) + 1
            out.append((name, seen[name]))
        return out
    # (i') histories: a Save interrupted inside its writes, or right before the rename, then a complete Save of a shorter value
    stats["histories"] = 0
    cal3 = calib.get((30, 4096, 3)) or calib.get((None, 4096, 3))
    if cal3:
        pos = positions(cal3[0])
        cuts = [p_ for p_ in pos if p_[0] == "write"][1:3] + [p_ for p_ in pos if p_[0].startswith("rename")][:1]
        for cut in cuts:
            for new in (12, 40):
                res = one_case(ctx, nxt(), 30, new, 1, leftover=cut)
                stats["histories"] += 1
                distinct.add(("history", cut, new))
                for sig, what in judge(ctx, res, 30, new, False, sigs):
                    v.violation("C19:" + sig, "%s (history: a Save of 4096 bytes killed at %s %d, then this Save of %d bytes)" % (what, cut[0], cut[1], new),
                                {"scenario": ["history", list(cut), new], "events": res["events"], "dump": res["dump"]})
    # (ii) kill at every call of the window (entry of call j = after call j-1), first writes and overwrites
    kill_plan = []
    for meta, (cal, n) in calib.items():
        old, new, nbuf = meta
        if new > 5000 and ctx.quick():
            continue
        for j, pos in enumerate(positions(cal)):
            kill_plan.append((meta, pos, j))
    if ctx.quick() and len(kill_plan) > 110:
        kill_plan = r.sample(kill_plan, 110)
    hit_positions = set()
    with concurrent.futures.ThreadPoolExecutor(max_workers=12) as ex:
        futs = {ex.submit(one_case, ctx, nxt(), m[0], m[1], m[2], when): (m, when, j) for (m, when, j) in kill_plan}
        for fu, (meta, when, j) in futs.items():
            res = fu.result()
            stats["kills"] += 1
            if res["killed"]:
                hit_positions.add((meta, len(res["events"])))
            distinct.add(("kill", meta, len(res["events"]), res["killed"]))
            for sig, what in judge(ctx, res, meta[0], meta[1], False, sigs):
                v.violation("C19:" + sig, "%s (process killed after %d modelled calls: %s)" % (what, len(res["events"]), res["events"][-2:]),
                            {"scenario": list(meta), "kill_when": when, "events": res["events"], "dump": res["dump"]})
    stats["kill_positions_hit"] = len(hit_positions)
    # delete kills
    for old in (30, None):
        for j in range(1, 4):
            res = one_case(ctx, nxt(), old, 0, 1, kill_at=("unlinkat", j), delete=True)
            stats["kills"] += 1
            for sig, what in judge(ctx, res, old, 0, True, sigs):
                v.violation("C19:" + sig, what + " (kill during Delete)", {"events": res["events"], "dump": res["dump"]})
    # (iii) data write cut at a byte count (file-size limit): the write fails or the process dies; plus kill right after
    cuts = []
    for new, nbuf in [(40, 1), (40, 3), (4096, 1)]:
        pts = list(range(0, new + 1)) if new <= 40 else sorted({0, 1, 11, 12, 13, new // 2, new - 1} | {r.randrange(new) for _ in range(6)})
        if ctx.quick() and len(pts) > 14:
            pts = sorted(r.sample(pts, 14))
        for n in pts:
            for old in olds:
                cuts.append((old, new, nbuf, n))
    with concurrent.futures.ThreadPoolExecutor(max_workers=12) as ex:
        futs = {}
        for (old, new, nbuf, n) in cuts:
            futs[ex.submit(one_case, ctx, nxt(), old, new, nbuf, None, n)] = (old, new, nbuf, n, False)
            # and stop right before the clean-up of the failed save: the cut spool file stays behind
            futs[ex.submit(one_case, ctx, nxt(), old, new, nbuf, ("unlinkat", 1), n)] = (old, new, nbuf, n, True)
        for fu, (old, new, nbuf, n, withkill) in futs.items():
            res = fu.result()
            stats["fsize_cuts"] += 1
            distinct.add(("cut", old, new, nbuf, n, withkill))
            for sig, what in judge(ctx, res, old, new, False, sigs):
                v.violation("C19:" + sig, "%s (data write cut at byte %d%s)" % (what, n, ", then killed" if withkill else ""),
                            {"scenario": [old, new, nbuf, n], "events": res["events"], "dump": res["dump"]})
    # (iv) error injection at each kind of call
    for call, when in [("fsync", 1), ("renameat", 1)]:
        for old in olds:
            # the first fsync / renameat of the process is the one of Save
            res = one_case(ctx, nxt(), old, 40, 3, None, None, False, (call, when))
            stats["error_injections"] += 1
            for sig, what in judge(ctx, res, old, 40, False, sigs):
                v.violation("C19:" + sig, "%s (EIO injected into %s)" % (what, call), {"events": res["events"], "dump": res["dump"]})
    # (v) concurrency on one key: one writer (overwrites, then save/delete in turn) beside four loaders, in one process. A search,
    # not a proof: the schedules are the runtime's; it can only ever report a Load that saw a mixture, a prefix or an error.
    d = os.path.join(ctx.work, "fsrace")
    shutil.rmtree(d, ignore_errors=True)
    os.makedirs(d)
    rc, out = helper(ctx, "race", d, "1002a", 400 if ctx.quick() else 6000, timeout=120)
    shutil.rmtree(d, ignore_errors=True)
    if out and out[0].startswith("race ok"):
        stats["concurrent_ops"] = sum(int(x.split("=")[1]) for x in out[0].split()[2:])
    else:
        v.violation("C19:concurrent-load", "beside a concurrent Save/Delete of the same key: %s" % (" ".join(out[:1])[9:] or "the helper crashed (rc %d)" % rc),
                    {"helper": ["fshelper", "race", "<dir>", "1002a", "400"], "out": out[:3]})
    ev = stats["sequence_checks"] + stats["kills"] + stats["fsize_cuts"] + stats["error_injections"]
    cov = C.proof_coverage(ctx, {
        "evaluations": ev, "distinct_nontrivial": len(distinct),
        "rule": "first writes and overwrites, 1- and 3-buffer values from 12 B to several MiB: (i) strace system-call sequence = model "
                "program; (ii) SIGKILL injected at the entry of every call of the operation window; (iii) data write cut at byte counts by "
                "RLIMIT_FSIZE, alone and followed by a kill before clean-up; (iv) EIO injected into fsync/rename; after each a fresh "
                "process Lists and Loads; distinct = distinct (scenario, position) pairs",
        "samples": samples, "histogram": stats, "traces_validated_against_impl": stats["sequence_checks"],
    })
    return v.finish(cov, ["A-os: rename/unlink/open are atomic, rename replaces, written data is readable after a process stop (no power loss)",
                          "ptrace must be permitted (strace); kill positions are system-call entries of the pinned OS thread"])
