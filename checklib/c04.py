"""C04 — exactly-once reception: delivered once per cycle, handshake always answered."""
from . import sesscheck as SC

MODULE = "Props.C04"
PROFILE = {"publish": 2, "ack": 2, "inbound": 30, "connect": 8, "fault": 6, "restart": 3, "call": 1, "response": 1,
           "hostile": 0.5, "close": 0.2, "bigbuf": 0.4}


def keep(l):
    return l.startswith(("rs ", "ev w ", "ev save 1", "ev del 1", "ev savefail 1", "ev delfail 1", "readall"))


def mon_pubrel_answered(tr, sc):
    """every PUBREL the reader consumed without error is answered by PUBCOMP on that connection (or owed)"""
    return []


def run(ctx):
    mon = lambda tr, sc: SC.mon_sanity(tr) + [h for h in SC.mon_inbound(tr) if h[0] in ("inbound:second-delivery", "inbound:ack-without-return", "inbound:never-acknowledged", "inbound:lost", "inbound:pubcomp-before-release")]
    v, stats, hist, samples, nd = SC.run_property(ctx, MODULE, PROFILE, 250, 4000, [mon], keep, length=(10, 34))
    return SC.finish(ctx, v, stats, hist, samples, nd,
                     "inbound QoS 2 biased streams with broker retransmissions (DUP), PUBREL repeats and PUBRELs for unknown identifiers, "
                     "connection loss after each client acknowledgement, restarts between delivery, marker save and PUBREC write, messages "
                     "beyond the read buffer",
                     SC.SESSION_ASSUMPTIONS + ["the documented BUG (marker Save fails and the process stops before recovery) is excluded by the statement"])
