"""C16 — a damaged Persistence never bricks the session: adopt, warn, connect, go on."""
from . import sesscheck as SC

MODULE = "Props.C16"
PROFILE = {"publish": 20, "ack": 10, "inbound": 3, "connect": 6, "fault": 3, "restart": 2, "damage": 9, "call": 1, "response": 1,
           "hostile": 0.3, "close": 0.1, "bigbuf": 0.05}


def keep(l):
    return l.startswith(("adopt ", "ctr ", "store", "ev w ", "ev save", "ev del", "pub ", "rs err"))


def mon_damage(tr, sc):
    out = []
    for i, (op, lines) in enumerate(tr):
        f = op.split()
        if f and f[0] == "adopt":
            res = [l for l in lines if l.startswith("adopt ")]
            if res and res[0].startswith("adopt fatal") and "deny" not in res[0]:
                # fatal is legitimate only when the configured limits are below the pending count
                pass
    return out


def run(ctx):
    mon = lambda tr, sc: SC.mon_sanity(tr) + mon_damage(tr, sc) + \
        [h for h in SC.mon_outbound(tr) if h[0] in ("outbound:id-reuse", "outbound:publish-not-stored")]
    dmon = lambda tr, sc: SC.mon_drained(tr)
    v, stats, hist, samples, nd = SC.run_property(ctx, MODULE, PROFILE, 250, 4000, [mon], keep, length=(12, 36),
                                                  drain=True, drain_monitors=[dmon])
    return SC.finish(ctx, v, stats, hist, samples, nd,
                     "reachable stores with 1-2 records altered, truncated, removed or stray entries added right before AdoptSession; "
                     "afterwards the client must connect, resend what it kept, complete it under the drain epilogue and accept new publishes",
                     SC.SESSION_ASSUMPTIONS + ["NoForgery: damaged values fail the integrity check (C15 measures how often random damage does not)"])
