"""C16 — a damaged Persistence never bricks the session: adopt, warn, connect, go on."""
from . import sesscheck as SC

MODULE = "Props.C16"
PROFILE = {"wrap": 0.15, "publish": 20, "ack": 10, "inbound": 3, "connect": 6, "fault": 3, "restart": 2, "damage": 9, "call": 1, "response": 1,
           "hostile": 0.3, "close": 0.1, "bigbuf": 0.05}


def keep(l):
    return l.startswith(("adopt ", "ctr ", "store", "ev w ", "ev save", "ev del", "pub ", "rs err"))


def key_kind(k):
    if k == 0:
        return "clientid"
    if k & 0x10000:
        return "marker"
    return "outbound"


def mon_damage(tr, sc):
    """judges the implementation's own trace: (1) every record the store shows as failing its checksum right before
    AdoptSession is named in a warning; (2) once AdoptSession accepted a store, no operation fails on a damaged record
    (the client would repeat that failure on every connect or redelivery: it cannot connect, or cannot receive)"""
    out = []
    corrupt = []          # keys the harness found corrupt in the last `store` listing
    adopted = False       # AdoptSession succeeded and no damage was done since
    client_id = None
    for i, (op, lines) in enumerate(tr):
        f = op.split()
        if not f:
            continue
        if f[0] == "store":
            corrupt = []
            for l in lines:
                if l.startswith("store"):
                    for ent in l.split()[1:]:
                        k, v, _ = ent.split(":")
                        if v == "corrupt":
                            corrupt.append(int(k, 16))
        elif f[0] == "damage":
            adopted = False
        elif f[0] == "init":
            adopted = False
            if any(l == "init ok" for l in lines):
                client_id = bytes.fromhex(f[1])
        elif f[0] == "adopt":
            res = [l for l in lines if l.startswith("adopt ")]
            adopted = bool(res) and res[0].startswith("adopt ok")
            if adopted and i > 0 and tr[i - 1][0].split()[:1] == ["store"]:
                warned = set()
                for w in res[0].split(None, 2)[2].split(";"):
                    if w.startswith(("corrupt-deleted:", "corrupt-kept:")):
                        warned.add(int(w.split(":")[1], 16))
                for k in corrupt:
                    if k not in warned:
                        out.append(("unreported:" + key_kind(k),
                                    "AdoptSession gave no warning for the damaged %s record %#x" % (key_kind(k), k)))
            corrupt = []
            if adopted and any(l.startswith("ev delfail") for l in lines):
                # the Persistence refused to delete the damaged record (a store fault on top of the damage, outside the property's
                # quantifier): AdoptSession says so ("kept"), and the record is still there for whoever loads it
                adopted = False
        elif adopted:
            for l in lines:
                p = l.split()
                if l.startswith("ev w ") and p[3].startswith("10") and client_id is not None:
                    raw = bytes.fromhex(p[3])
                    if len(raw) < 14 or raw[1] & 0x80 or len(raw) < 2 + raw[1]:
                        continue          # a partial write of the CONNECT (fault injection)
                    k = 2 + 10
                    n = (raw[k] << 8) | raw[k + 1]
                    if raw[k + 2:k + 2 + n] != client_id:
                        out.append(("clientid-lost", "after a successful AdoptSession the CONNECT carries the client identifier `%s`, the session was made for `%s`"
                                    % (raw[k + 2:k + 2 + n].hex() or "(empty)", client_id.hex())))
                if (l.startswith(("rs err", "pub err", "ret ")) and "corrupt" in p[-1].split("+")) or l.startswith("panic"):
                    kind = "clientid" if not any(x.startswith("ev dial") for x in lines) and l.startswith("rs err") else "record"
                    out.append(("bricked:" + kind, "after a successful AdoptSession `%s` fails on a damaged record: `%s`" % (op[:40], l)))
    return out


def run(ctx):
    mon = lambda tr, sc: SC.mon_sanity(tr) + mon_damage(tr, sc) + \
        [h for h in SC.mon_outbound(tr) if h[0] in ("outbound:id-reuse", "outbound:publish-not-stored")]
    dmon = lambda tr, sc: SC.mon_drained(tr)
    v, stats, hist, samples, nd = SC.run_property(ctx, MODULE, PROFILE, 250, 4000, [mon], keep, length=(12, 36),
                                                  drain=True, drain_monitors=[dmon])
    return SC.finish(ctx, v, stats, hist, samples, nd,
                     "reachable stores with 1-2 records altered, truncated, removed or stray entries added right before AdoptSession; "
                     "afterwards the client must connect, resend what it kept, complete it under the drain epilogue and accept new publishes",
                     SC.SESSION_ASSUMPTIONS + ["NoForgery: damaged values fail the integrity check (C15 measures how often random damage does not)"])
