"""C14 — errors stay in documented classes; 'not submitted' means no byte was sent."""
from . import sesscheck as SC

MODULE = "Props.C14"
PROFILE = {"publish": 8, "ack": 4, "inbound": 3, "connect": 10, "fault": 8, "restart": 0.5, "call": 22, "response": 8,
           "hostile": 2, "close": 2, "bigbuf": 0.1}


def keep(l):
    return l.startswith(("ret ", "blocked", "pub ", "disconnect", "ev w ", "close"))


def run(ctx):
    mon = lambda tr, sc: SC.mon_sanity(tr) + SC.mon_errors(tr)
    v, stats, hist, samples, nd = SC.run_property(ctx, MODULE, PROFILE, 300, 5000, [mon], keep, length=(8, 30))
    return SC.finish(ctx, v, stats, hist, samples, nd,
                     "each request method in each client state (pending, down, online, closing, closed) with write faults before/within the "
                     "packet, lost or malformed responses and quit at each stage; the class vector of every returned error (errors.Is/As "
                     "against every sentinel) is judged against the documented table, and not-submitted classes against the wire",
                     SC.SESSION_ASSUMPTIONS + ["the documented table is transcribed by hand from mqtt.go:1-21 (DOC_CLASSES in sesscheck.py, Doc comment in Props/C14.lean)",
                                               "the classifier nonNilIsAny over arbitrary wrap/join forests is not modelled yet"])
