"""C14 — errors stay in documented classes; 'not submitted' means no byte was sent."""
from . import sesscheck as SC

MODULE = "Props.C14"
PROFILE = {"publish": 8, "ack": 4, "inbound": 3, "connect": 10, "fault": 8, "restart": 0.5, "call": 22, "response": 8,
           "hostile": 2, "close": 2, "bigbuf": 0.1}


def keep(l):
    return l.startswith(("ret ", "blocked", "pub ", "disconnect", "ev w ", "close"))


def gen_tree(r, depth):
    """an error value as applications and the client build them: sentinels and unrelated errors, %w wrappers, joins of joins"""
    roll = r.random()
    if depth <= 0 or roll < 0.3:
        return "L%d" % r.choice([1, 2, 3, 4, 5, 6, 7, 10, 11, 12, 13, 14, 15, 16, 20, 21, 22, 23, 30])
    if roll < 0.36:
        return "N%d" % r.choice([40, 41])
    if roll < 0.6:
        return "W(%s)" % gen_tree(r, depth - 1)
    n = r.choice([0, 1, 2, 2, 3, 3, 4])
    return "J(%s)" % ",".join(gen_tree(r, depth - 1) for _ in range(n))


def classifier_stage(ctx, v, stats):
    """IsDeny / IsEnd / nonNilIsAny on error values of any shape: model (proved equal to 'some node is a target') against the
    implementation, which also must agree with errors.Is and leave the value it classified unchanged"""
    from . import common as C
    r = ctx.rng
    lines = ["isany J(W(J(L5,L30)),W(L1)) end", "isany J(W(J(L5,L30,L31)),W(L1),L2) 1", "isany J(L20,W(J(L21,L1)),N5) 1"]
    for _ in range(1500 if ctx.quick() else 30000):
        t = gen_tree(r, r.choice([1, 2, 3, 4, 5]))
        tg = r.choice(["deny", "end", "end", ",".join(str(r.choice([1, 2, 3, 5, 13, 20, 21, 30])) for _ in range(r.choice([1, 2, 3])))])
        lines.append("isany %s %s" % (t, tg))
    impl, model = C.run_cases(ctx, "pure", [lines])
    impl, model = impl[0], model[0]
    stats["classifier_values"] = len(lines)
    stats["classifier_true"] = sum(1 for l in impl if l == "isany true")
    for k, line in enumerate(lines):
        io = impl[k] if k < len(impl) else "<missing>"
        mo = model[k] if k < len(model) else "<missing>"
        if io not in ("isany true", "isany false"):
            sig = "classifier:modifies-argument" if "modified" in io else ("classifier:differs-from-errors-is" if "errors.Is" in io else "classifier:output")
            v.violation("C14:" + sig, "`%s`: %s" % (line[:120], io[:160]), {"port": "pure", "script": [line], "impl": [io], "model": [mo]})
        elif io != mo:
            v.broken_tie("nonNilIsAny differs from the model on `%s`: impl %s model %s" % (line[:100], io, mo),
                         {"port": "pure", "script": [line], "impl": [io], "model": [mo]})


def run(ctx):
    mon = lambda tr, sc: SC.mon_sanity(tr) + SC.mon_errors(tr)
    v, stats, hist, samples, nd = SC.run_property(ctx, MODULE, PROFILE, 300, 5000, [mon], keep, length=(8, 30))
    if stats.get("scripts"):
        classifier_stage(ctx, v, stats)
    return SC.finish(ctx, v, stats, hist, samples, nd,
                     "each request method in each client state (pending, down, online, closing, closed) with write faults before/within the "
                     "packet, lost or malformed responses and quit at each stage; the class vector of every returned error (errors.Is/As "
                     "against every sentinel) is judged against the documented table, and not-submitted classes against the wire",
                     SC.SESSION_ASSUMPTIONS + ["the documented table is transcribed by hand from mqtt.go:1-21 (DOC_CLASSES in sesscheck.py, Doc comment in Props/C14.lean)",
                                               "error values: trees of sentinels, %w wrappers and joins; Is methods of foreign error types are not modelled"])
