"""C13 — hostile broker input: no panic, reset on violation, no forged progress."""
from . import sesscheck as SC

MODULE = "Props.C13"
PROFILE = {"publish": 10, "ack": 12, "inbound": 8, "connect": 6, "fault": 2, "restart": 0.5, "call": 5, "response": 6,
           "hostile": 14, "close": 0.2, "bigbuf": 0.3, "stall": 5}


def keep(l):
    return l.startswith(("rs ", "ev del", "ev save", "exch", "ret ", "ev close", "ev dial", "panic", "hang", "spin"))


def run(ctx):
    want = ("outbound:forged-progress", "outbound:close-before-ack", "outbound:pubrel-without-publish")
    from .c18 import mon_connack
    from .c11 import mon_requests
    from .c10 import mon_redial
    mon = lambda tr, sc: SC.mon_sanity(tr) + [h for h in SC.mon_outbound(tr) if h[0] in want] + mon_connack(tr, sc) + SC.mon_deadline(tr) + mon_redial(tr, sc) + \
        [h for h in mon_requests(tr, sc) if h[0].startswith("own-response")]
    v, stats, hist, samples, nd = SC.run_property(ctx, MODULE, PROFILE, 300, 6000, [mon], keep, length=(8, 30))
    return SC.finish(ctx, v, stats, hist, samples, nd,
                     "valid prefixes followed by hostile bytes: reserved/client-only types, 5-byte remaining length, zero and foreign "
                     "identifiers, out-of-order/unsolicited acknowledgements, wrong fixed lengths, topic beyond the packet, QoS 3, illegal SUBACK "
                     "codes and counts, random bytes, malformed/refusing/short CONNACKs; against clients with 0..n outbound transfers",
                     SC.SESSION_ASSUMPTIONS + ["waiting time and real allocation are runtime facts: the model bounds the announced size (C13_size_bounded); whether a wait can be ended by PauseTimeout is observed as the armed state of the read deadline at every stall (time itself never passes in the harness)"])
