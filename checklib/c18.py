"""C18 — connection set-up: CONNECT first, clean session once, resend before new."""
from . import sesscheck as SC, mq

MODULE = "Props.C18"
PROFILE = {"publish": 8, "ack": 4, "inbound": 3, "connect": 30, "fault": 5, "restart": 1, "call": 10, "response": 3,
           "hostile": 1, "close": 0.5, "bigbuf": 0.1}


def keep(l):
    return l.startswith(("ev dial", "ev w ", "ev close", "rs ", "ret ", "blocked", "sig "))


def mon_setup(tr, sc):
    out = []
    init = [o for o in sc if o.startswith("init ")]
    clean_cfg = bool(init) and init[0].split()[2] == "1"
    w = SC.Wire()
    established = False
    seen_non_connect = {}
    cfgx = None
    for i, (op, lines) in enumerate(tr):
        f = op.split()
        if f and f[0] == "cfgx":
            cfgx = f
        if f and f[0] == "adopt":
            established = False
            if len(f) > 1:
                clean_cfg = f[1] == "1"
        for l in lines:
            if l.startswith("ev w "):
                p = l.split()
                for d in w.add(i, p[2], SC.unhex(p[3])):
                    if d["name"] == "connect":
                        if d.get("clean") and not clean_cfg:
                            out.append(("setup:clean-unrequested", "CONNECT asks for a clean session although Config does not"))
                        if d.get("clean") and established:
                            out.append(("setup:clean-on-reconnect", "CONNECT asks for a clean session on a reconnect"))
                        bad = connect_vs_config(d, cfgx)
                        if bad:
                            out.append(("setup:connect-config", "CONNECT does not reflect the Config: " + bad))
                    else:
                        established = True     # something after CONNECT on a connection: its CONNACK was accepted
    return out


def connect_vs_config(d, cfgx):
    """the decoded CONNECT against the rest of the Config given with `cfgx` (none: no user, password, will, keep-alive 0)"""
    if d.get("connect_malformed"):
        return "malformed (%s)" % d["connect_malformed"]
    x = cfgx or ["cfgx", "0", "-", "nil", "-", "nil", "0", "0", "0"]
    hx = lambda v: None if v == "nil" else SC.unhex(v)
    ka, user, pw, wt, wm = int(x[1]), SC.unhex(x[2]), hx(x[3]), SC.unhex(x[4]), hx(x[5])
    want = {"keepalive": ka}
    if user or pw is not None:
        want["user"] = user
    if pw is not None:
        want["pass"] = pw
    if wm is not None:
        want.update(willtopic=wt, willmsg=wm, willretain=x[6] == "1", willqos=2 if x[8] == "1" else (1 if x[7] == "1" else 0))
    got = {k: d.get(k) for k in ("keepalive", "user", "pass", "willtopic", "willmsg", "willretain", "willqos") if d.get(k) is not None}
    return "" if got == want else "got %s, Config says %s" % (got, want)


def mon_connack(tr, sc):
    """nothing is written after the CONNECT, and the read routine does not go on, unless the broker's reply was a valid
    accepting CONNACK (type 2, length 2, return code 0, flags 0 - or 1 when no clean session was requested)"""
    out = []
    plans = []           # replies of the queued dial plans (None: dial fails, b"block": dial blocks)
    conn_reply = {}      # connection number -> reply bytes given with its dial plan
    nconn = 0
    clean_req = {}
    beyond = set()
    for i, (op, lines) in enumerate(tr):
        f = op.split()
        if f and f[0] == "dial":
            plans.append(SC.unhex(f[2]) if f[1] == "ok" and len(f) > 2 else (b"block" if f[1] == "block" else None))
        if f and f[0] == "brk":
            plans = []
        if f and f[0] in ("adopt", "init"):
            pass
        cur = None
        for l in lines:
            p = l.split()
            if l.startswith("ev dial fail"):
                while plans and plans[0] == b"block":
                    plans.pop(0)
                if plans:
                    plans.pop(0)
            elif l.startswith("ev dial ok"):
                while plans and plans[0] == b"block":
                    plans.pop(0)
                conn_reply[nconn] = plans.pop(0) if plans else bytes([0x20, 2, 0, 0])
                cur = nconn
                nconn += 1
            elif l.startswith("ev w "):
                c, raw = int(p[2]), SC.unhex(p[3])
                if raw[:1] == b"\x10" and len(raw) > 9 and c not in clean_req:
                    clean_req[c] = bool(raw[9] & 2)
                    raw = raw[2 + raw[1]:] if raw[1] < 0x80 else b""
                if raw and c in conn_reply:
                    beyond.add(c)
            elif l.split()[:2] in (["rs", "parked"], ["rs", "msg"], ["rs", "big"]) and cur is not None and \
                    conn_reply.get(cur) is not None and len(conn_reply[cur]) >= 4:
                beyond.add(cur)
    # a CONNACK with a non-zero return code is a refusal by the broker, whatever the code (1-255): IsConnectionRefused tells so
    nconn2 = 0
    for i, (op, lines) in enumerate(tr):
        for l in lines:
            if l.startswith("ev dial ok"):
                rep = conn_reply.get(nconn2)
                nconn2 += 1
                if rep is not None and len(rep) == 4 and rep[0] == 0x20 and rep[1] == 2 and rep[2] == 0 and rep[3] != 0:
                    errs = [x for x in lines if x.startswith("rs err ")]
                    if errs and not any(t.startswith("refused") for t in errs[0].split()[2].split("+")) and "closed" not in errs[0]:
                        out.append(("setup:refusal-not-told", "the broker refused the connection with return code %d, ReadSlices returned `%s`: not an IsConnectionRefused error"
                                    % (rep[3], errs[0])))
    for c in sorted(beyond):
        rep = conn_reply.get(c)
        if rep is None or len(rep) < 4:
            continue         # the reply was completed by later feeds: judged by the model comparison only
        ok = rep[0] == 0x20 and rep[1] == 2 and rep[3] == 0 and (rep[2] == 0 or (rep[2] == 1 and not clean_req.get(c, False)))
        if not ok:
            out.append(("setup:bad-connack-accepted", "connection %d went on after the handshake reply %s, which is not a valid accepting CONNACK" % (c, rep[:4].hex())))
    return out


def extra_scripts(ctx):
    """CONNACK table sweep: every flag byte x return codes, on first connect and on reconnect, clean or not"""
    r = ctx.rng
    out = []
    flags = list(range(256)) if not ctx.quick() else [0, 1, 2, 3, 0x80, 0xff] + [r.randrange(256) for _ in range(6)]
    codes = list(range(256)) if not ctx.quick() else [0, 1, 2, 3, 4, 5, 6, 0x80, 0xff]
    for clean in (0, 1):
        for fl in flags:
            for code in (codes if fl in (0, 1) else [0, 1, 5]):
                sc = ["init 636c %d 4 4" % clean,
                      "dial ok %s" % bytes([0x20, 2, fl, code]).hex(), "feed block", "rs",
                      "call a pub 0 74 68",
                      "brk", "rs" if True else "",
                      "dial ok %s" % bytes([0x20, 2, fl, code]).hex(), "feed block", "rs", "call b ping"]
                out.append([o for o in sc if o])
    for hdr in ([0x20, 3], [0x21, 2], [0x30, 2], [0x00, 2], [0x20, 0]):
        out.append(["init 636c 0 4 4", "dial ok %s" % bytes(hdr + [0, 0]).hex(), "feed block", "rs", "call a ping"])
    for n in range(4):
        for tail in ("eof", "tmo", "err"):
            out.append(["init 636c 0 4 4", "dial ok %s" % (bytes([0x20, 2, 0, 0])[:n].hex() or "-"), "feed " + tail, "rs", "call a ping",
                        "dial ok 20020000", "feed block", "rs", "call b ping"])
    return out


def run(ctx):
    mon = lambda tr, sc: SC.mon_sanity(tr) + [h for h in SC.mon_wire(tr) if h[0] in ("wire:first-not-connect", "wire:after-disconnect")] + mon_setup(tr, sc) + mon_connack(tr, sc)
    v, stats, hist, samples, nd = SC.run_property(ctx, MODULE, PROFILE, 200, 3000, [mon], keep, length=(8, 28), extra=extra_scripts(ctx))
    return SC.finish(ctx, v, stats, hist, samples, nd,
                     "connect histories: failures at dial, at any byte of CONNECT (write policies) or CONNACK (short replies with EOF/expiry/"
                     "error), every return code and flag byte (sweep), session-present with clean session, failure during resend, reconnects; "
                     "requests of every type issued while pending, down and online",
                     SC.SESSION_ASSUMPTIONS)
