"""C01 — accepted QoS>=1 publishes are retransmitted until acknowledged, never lost."""
from . import sesscheck as SC

MODULE = "Props.C01"
PROFILE = {"blocked": 5, "wrap": 0.15, "publish": 22, "ack": 14, "inbound": 2, "connect": 8, "fault": 8, "restart": 1.5, "call": 3, "response": 2,
           "hostile": 1, "close": 0.2, "bigbuf": 0.1}


def keep(l):
    return l.startswith(("ev save", "ev del", "ev savefail", "ev delfail", "pub ", "exch", "ev w ", "ev dial", "ev close", "ctr ", "store"))


def run(ctx):
    mon = lambda tr, sc: SC.mon_sanity(tr) + SC.mon_outbound(tr)
    dmon = lambda tr, sc: SC.mon_drained(tr)
    v, stats, hist, samples, nd = SC.run_property(ctx, MODULE, PROFILE, 250, 4000, [mon], keep, length=(10, 36),
                                                  drain=True, drain_monitors=[dmon])
    SC.volatile_stage(ctx, MODULE, PROFILE, v, stats)
    return SC.finish(ctx, v, stats, hist, samples, nd,
                     "random histories of persisted publishes (both levels), acknowledgements (legal and illegal), connection breaks, "
                     "short writes, failed/refused connects, Persistence faults; every script ends with a drain epilogue (fault-free "
                     "connection, conforming broker) after which nothing may remain; distinct = distinct scripts with >= 2 persistence/wire events",
                     SC.SESSION_ASSUMPTIONS)
