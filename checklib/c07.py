"""C07 — inbound acknowledgements go out only after the application took ownership."""
from . import sesscheck as SC

MODULE = "Props.C07"
PROFILE = {"publish": 3, "ack": 3, "inbound": 30, "connect": 8, "fault": 8, "restart": 1, "call": 4, "response": 2,
           "hostile": 0.5, "close": 0.2, "bigbuf": 0.4}


def keep(l):
    return l.startswith(("rs ", "ev w ", "readall"))


def run(ctx):
    mon = lambda tr, sc: SC.mon_sanity(tr) + [h for h in SC.mon_inbound(tr) if h[0] in ("inbound:ack-before-ownership", "inbound:ack-without-return", "inbound:never-acknowledged")]
    v, stats, hist, samples, nd = SC.run_property(ctx, MODULE, PROFILE, 250, 4000, [mon], keep, length=(10, 34))
    return SC.finish(ctx, v, stats, hist, samples, nd,
                     "inbound streams mixing the three levels and control packets, the application pausing after any return (the harness "
                     "decides when ReadSlices is called again), BigMessage read or skipped, failing acknowledgement writes, competing writers "
                     "failing before the flush; position of every PUBACK/PUBREC relative to the returns is judged on the implementation's trace",
                     SC.SESSION_ASSUMPTIONS)
