#!/bin/sh
# Builds the verification framework from files on disk only (offline).
set -e
cd "$(dirname "$0")"
export GOFLAGS=-mod=mod GOPROXY=off GOSUMDB=off GOTOOLCHAIN=local CGO_ENABLED=0
mkdir -p bin .work evidence replays
(cd tools/extract && go build -o ../../bin/extract .)
./bin/extract "${VERIF_REPO:-/repo}" lean/Generated || true
(cd harness && go build -tags verif -o ../bin/harness .)
(cd lean && lake build driver && lake build)
echo setup-ok
